#!/bin/bash
# Run the repo's own test-suite on a scratch worktree holding /repo's HEAD plus its *uncommitted* changes
# (so a repair can be tried against the suite before it is committed, while /repo stays free for further work).
WT="$(mktemp -d /tmp/vfsuite_XXXXXX)"; rmdir "$WT"
git -C /repo worktree add --detach -q "$WT" HEAD || exit 2
git -C /repo diff HEAD > "$WT.patch"
if [ -s "$WT.patch" ]; then ( cd "$WT" && git apply "$WT.patch" ) || { echo "patch did not apply"; exit 2; }; fi
( cd "$WT" && env -u CHUK_MCP_VERIF PYTHONPATH="$WT/src" /venv/bin/python -m pytest -q -p no:cacheprovider --timeout=900 2>&1 | tail -4 )
git -C /repo worktree remove --force "$WT"; rm -rf "$WT" "$WT.patch"
