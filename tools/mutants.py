#!/usr/bin/env python3
"""Self-validation: apply small property-breaking mutations to a scratch worktree of /repo
(never /repo itself) and confirm the corresponding check exits 1.

usage: tools/mutants.py [--only C01[,C05]] [--name substr] [--tier quick] [--jobs 8] [--suite]
  --suite  also run the repo's own test-suite on each mutant (slow) and report pass/fail
"""
import argparse
import concurrent.futures as cf
import json
import os
import shutil
import subprocess
import sys
import tempfile

ROOT = os.path.dirname(os.path.dirname(os.path.abspath(__file__)))
sys.path.insert(0, ROOT)
from tools.mutant_catalog import MUTANTS  # noqa: E402


def run_one(m, tier, suite):
    pid, name, edits = m["prop"], m["name"], m["edits"]
    wt = tempfile.mkdtemp(prefix=f"vfmut_{pid}_{name}_")
    os.rmdir(wt)
    res = {"prop": pid, "name": name}
    try:
        subprocess.run(["git", "-C", "/repo", "worktree", "add", "--detach", "-q", wt, "HEAD"],
                       check=True, capture_output=True)
        for rel, old, new in edits:
            p = os.path.join(wt, rel)
            s = open(p, encoding="utf-8").read()
            if s.count(old) < 1:
                res["error"] = f"pattern not found in {rel}: {old[:60]!r}"
                return res
            s = s.replace(old, new, 1)
            open(p, "w", encoding="utf-8").write(s)
        env = dict(os.environ, VERIF_REPO=wt)
        checks = m.get("checks", [pid])
        res["checks"] = {}
        for c in checks:
            r = subprocess.run([os.path.join(ROOT, "check"), c, "--tier", tier, "--no-evidence"],
                               env=env, capture_output=True, text=True, timeout=3600)
            mechs = sorted({l.split("mechanism=")[1].split(":")[0] for l in r.stdout.splitlines()
                            if l.strip().startswith("violation mechanism=")})
            res["checks"][c] = {"rc": r.returncode, "mechanisms": mechs}
            if r.returncode not in (0, 1):
                res["checks"][c]["tail"] = (r.stdout + r.stderr)[-600:]
        if suite:
            r = subprocess.run(["/venv/bin/python", "-m", "pytest", "-q", "-x", "-p", "no:cacheprovider",
                                "--timeout=900", "-q"], cwd=wt, capture_output=True, text=True,
                               env=dict(os.environ, PYTHONPATH=os.path.join(wt, "src")))
            res["suite_rc"] = r.returncode
            res["suite_tail"] = r.stdout.strip().splitlines()[-1:] if r.stdout else []
        return res
    except Exception as e:  # noqa
        res["error"] = repr(e)
        return res
    finally:
        subprocess.run(["git", "-C", "/repo", "worktree", "remove", "--force", wt], capture_output=True)
        shutil.rmtree(wt, ignore_errors=True)


def main():
    ap = argparse.ArgumentParser()
    ap.add_argument("--only")
    ap.add_argument("--name")
    ap.add_argument("--tier", default="quick")
    ap.add_argument("--jobs", type=int, default=6)
    ap.add_argument("--suite", action="store_true")
    a = ap.parse_args()
    ms = MUTANTS
    if a.only:
        want = set(a.only.upper().split(","))
        ms = [m for m in ms if m["prop"] in want]
    if a.name:
        ms = [m for m in ms if a.name in m["name"]]
    caught = missed = 0
    with cf.ThreadPoolExecutor(a.jobs) as ex:
        for res in ex.map(lambda m: run_one(m, a.tier, a.suite), ms):
            if "error" in res:
                print(f"ERROR  {res['prop']} {res['name']}: {res['error']}")
                continue
            ok = any(v["rc"] == 1 for v in res["checks"].values())
            caught += ok
            missed += (not ok)
            extra = f" suite_rc={res.get('suite_rc')} {res.get('suite_tail')}" if a.suite else ""
            print(f"{'CAUGHT' if ok else 'MISSED'} {res['prop']} {res['name']}: "
                  f"{json.dumps(res['checks'])[:400]}{extra}")
    print(f"caught={caught} missed={missed}")
    return 0 if missed == 0 else 1


if __name__ == "__main__":
    sys.exit(main())
