#!/bin/bash
# Run the repo's own test-suite (guard off) on a scratch worktree of /repo at <rev>; prints the summary line.
REV="${1:-HEAD}"
WT="$(mktemp -d /tmp/vfsuite_XXXXXX)"; rmdir "$WT"
git -C /repo worktree add --detach -q "$WT" "$REV" || exit 2
( cd "$WT" && env -u CHUK_MCP_VERIF PYTHONPATH="$WT/src" /venv/bin/python -m pytest -q -p no:cacheprovider --timeout=900 2>&1 | tail -2 )
git -C /repo worktree remove --force "$WT"; rm -rf "$WT"
