#!/bin/bash
# seeds sweep on the quick tier, then every thorough tier
cd "$(dirname "$0")/.." || exit 2
for s in 51 52 53; do
  for p in C01 C02 C03 C04 C05 C06 C07 C08 C09 C10 C11 C12 C13 C14 C15 C16 C17 C18 C19 C20; do
    out=$(PYTHONHASHSEED=0 ./check $p --tier quick --seed $s --no-evidence 2>&1); r=$?
    echo "seed=$s $p rc=$r $(echo "$out" | grep -E '^(HELD|INCONCLUSIVE|VIOLATION)' | head -2 | cut -c1-160 | tr '\n' ' ')"
  done
done
for p in C01 C02 C03 C04 C05 C06 C07 C08 C09 C10 C11 C12 C13 C14 C15 C16 C17 C18 C19 C20; do
  out=$(./check $p --tier thorough --no-evidence 2>&1); r=$?
  echo "thorough $p rc=$r $(echo "$out" | grep -E '^(HELD|INCONCLUSIVE|VIOLATION)|violation mechanism' | head -4 | cut -c1-260 | tr '\n' ' ')"
done
