#!/usr/bin/env python3
"""Regenerate MANIFEST.json from the property modules' metadata (vf/props/cXX.py)."""
import importlib, json, os, sys, glob
ROOT = os.path.dirname(os.path.dirname(os.path.abspath(__file__)))
sys.path.insert(0, ROOT)
sys.path.insert(0, "/repo/src")
props = [json.loads(l) for l in open(os.path.join(ROOT, "properties.jsonl"))]
checks, na = [], []
NA = {}
na_file = os.path.join(ROOT, "tools", "not_applicable.json")
if os.path.exists(na_file):
    NA = json.load(open(na_file))
for p in props:
    pid = p["id"]
    path = os.path.join(ROOT, "vf", "props", pid.lower() + ".py")
    if pid in NA or not os.path.exists(path):
        na.append({"property_id": pid, "reason": NA.get(pid, "check not built yet (work in progress)")})
        continue
    m = importlib.import_module("vf.props." + pid.lower())
    checks.append({
        "property_id": pid,
        "quick_cmd": f"./check {pid} --tier quick",
        "thorough_cmd": f"./check {pid} --tier thorough",
        "evidence_file": f"/verif/evidence/{pid}.json",
        "replay_cmd_template": f"./check {pid} --replay {{path}}",
        "engine": "vf",
        "level_claimed": {"category": m.LEVEL, "text": m.LEVEL_TEXT, "design_ref": f"DESIGN.md section 2, {pid}"},
        "level_note": m.LEVEL_NOTE,
        "technique": m.TECHNIQUE,
    })
hooks_commits = []
hc = os.path.join(ROOT, "tools", "hook_commits.txt")
if os.path.exists(hc):
    hooks_commits = [l.strip() for l in open(hc) if l.strip() and not l.startswith("#")]
man = {
    "version": 1,
    "setup_cmd": "./setup.sh",
    "hooks": {
        "guard": "CHUK_MCP_VERIF",
        "enable": "no build step: /repo is an editable install; ./check exports CHUK_MCP_VERIF=1 and puts /repo/src first on PYTHONPATH. All seams are harness-side patches (anyio.open_process, httpx.AsyncClient, memory-stream proxies, time.time) installed by the check process.",
        "baseline_off_cmd": "cd /repo && env -u CHUK_MCP_VERIF /venv/bin/python -m pytest -ra -q -p no:cacheprovider --timeout=900 --continue-on-collection-errors",
        "source_commits": hooks_commits,
        "add_only": True,
    },
    "engines": [{
        "name": "vf", "path": "/verif/vf",
        "serves_properties": [c["property_id"] for c in checks],
        "kind_free_text": "runtime monitoring: real chuk-mcp code driven under a virtual-time asyncio loop / real processes and sockets, events recorded at the stream, process and HTTP boundaries, decided by reference-model oracles and differential (two-backend) comparison",
    }],
    "checks": checks,
    "not_applicable": na,
    "notes": "Exit codes: 0 held on everything explored, 1 violation (VIOLATION property=<id> replay=<path>), 2 inconclusive (monitor not reached / watchdog). Known findings: /verif/known_findings.txt (keyed by mechanism).",
}
json.dump(man, open(os.path.join(ROOT, "MANIFEST.json"), "w"), indent=1)
print("checks:", [c["property_id"] for c in checks], "not_applicable:", [n["property_id"] for n in na])
