#!/usr/bin/env python3
"""Manage sub-agent-written breakages under /verif/seeded/<name>/ (patch.diff, demo.py, notes.md, meta.json).

  tools/seeded.py collect <PROP> <worktree> [<name>]   copy <worktree>/SEED/* into seeded/<name>/
  tools/seeded.py verify <name> [--suite] [--tier quick|thorough] [--checks C01,C14]
        on a fresh scratch worktree of /repo HEAD: demo passes without the patch, fails with it, (optionally) the
        repo's own suite passes with it, and the property's check is run against the patched tree; meta.json updated.
  tools/seeded.py all [--tier quick]                   re-run every seeded change against its checks (no suite)
"""
import json
import os
import shutil
import subprocess
import sys
import tempfile

ROOT = os.path.dirname(os.path.dirname(os.path.abspath(__file__)))
SEEDED = os.path.join(ROOT, "seeded")


def sh(cmd, **kw):
    return subprocess.run(cmd, capture_output=True, text=True, **kw)


def fresh_worktree():
    wt = tempfile.mkdtemp(prefix="vfseed_")
    os.rmdir(wt)
    sh(["git", "-C", "/repo", "worktree", "add", "--detach", "-q", wt, "HEAD"], check=True)
    return wt


def drop_worktree(wt):
    sh(["git", "-C", "/repo", "worktree", "remove", "--force", wt])
    shutil.rmtree(wt, ignore_errors=True)


def run_demo(wt, demo):
    env = dict(os.environ, PYTHONPATH=os.path.join(wt, "src"), PYTHONDONTWRITEBYTECODE="1")
    try:
        r = sh(["/venv/bin/python", "-B", demo], cwd=wt, env=env, timeout=600)
        return r.returncode, (r.stdout + r.stderr)[-400:]
    except subprocess.TimeoutExpired:
        return 124, "timeout"


def collect(prop, wt, name=None):
    name = name or prop
    dst = os.path.join(SEEDED, name)
    os.makedirs(dst, exist_ok=True)
    for f in ("patch.diff", "demo.py", "notes.md"):
        src = os.path.join(wt, "SEED", f)
        if os.path.exists(src):
            shutil.copy(src, os.path.join(dst, f))
    meta = {"property": prop, "name": name}
    json.dump(meta, open(os.path.join(dst, "meta.json"), "w"), indent=1)
    print("collected", dst, os.listdir(dst))


def verify(name, suite=False, tier="quick", checks=None):
    d = os.path.join(SEEDED, name)
    meta = json.load(open(os.path.join(d, "meta.json")))
    prop = meta["property"]
    checks = checks or meta.get("checks") or [prop]
    wt = fresh_worktree()
    try:
        os.makedirs(os.path.join(wt, "SEED"), exist_ok=True)
        demo = os.path.join(wt, "SEED", "demo.py")
        shutil.copy(os.path.join(d, "demo.py"), demo)
        for extra in os.listdir(d):      # helper modules the demonstration imports (kept beside it)
            if extra.endswith(".py") and extra not in ("demo.py", "existing_defect.py"):
                shutil.copy(os.path.join(d, extra), os.path.join(wt, "SEED", extra))
        rc0, out0 = run_demo(wt, demo)
        ap = sh(["git", "-C", wt, "apply", os.path.join(d, "patch.diff")])
        if ap.returncode != 0:
            # the repository moved on under the patch (repairs nearby): try to carry it over - three-way against the
            # blobs it was written for, then with fuzz - and, if that works, store the re-based patch
            first_err = ap.stderr[-300:]
            ap = sh(["git", "-C", wt, "apply", "--3way", os.path.join(d, "patch.diff")])
            how = "git apply --3way"
            if ap.returncode != 0:
                sh(["git", "-C", wt, "reset", "-q", "--hard", "HEAD"])
                ap = sh(["patch", "-p1", "-F3", "--no-backup-if-mismatch", "-s", "-i", os.path.join(d, "patch.diff")], cwd=wt)
                how = "patch -F3"
                for root, _dirs, files in os.walk(wt):
                    for f in files:
                        if f.endswith((".rej", ".orig")):
                            ap.returncode = ap.returncode or 1
            if ap.returncode != 0:
                meta["verify_error"] = "patch does not apply: " + first_err
                print(name, meta["verify_error"])
                return meta
            sh(["git", "-C", wt, "reset", "-q"])
            newdiff = sh(["git", "-C", wt, "diff", "HEAD", "--", "src"]).stdout
            changed = [l[6:] for l in newdiff.splitlines() if l.startswith("+++ b/") and l.endswith(".py")]
            comp = sh(["/venv/bin/python", "-m", "py_compile"] + [os.path.join(wt, c) for c in changed]) if changed else None
            def edit_lines(text):
                return sorted(l for l in text.splitlines() if l[:1] in "+-" and not l.startswith(("+++", "---")))
            same_edit = edit_lines(newdiff) == edit_lines(open(os.path.join(d, "patch.diff")).read())
            if "<<<<<<<" in newdiff or ">>>>>>>" in newdiff or (comp is not None and comp.returncode != 0) or not same_edit:
                meta["verify_error"] = "patch does not apply (conflict): " + first_err
                print(name, meta["verify_error"])
                return meta
            if newdiff.strip():
                if not os.path.exists(os.path.join(d, "patch.orig.diff")):
                    shutil.copy(os.path.join(d, "patch.diff"), os.path.join(d, "patch.orig.diff"))
                open(os.path.join(d, "patch.diff"), "w").write(newdiff)
                head = sh(["git", "-C", "/repo", "rev-parse", "--short", "HEAD"]).stdout.strip()
                note = f"patch re-based onto {head} with {how} (same edit, moved context)"
                if isinstance(meta.get("history"), list):
                    meta["history"].append(note)
                else:
                    meta["history"] = ((meta.get("history") or "") + "; " + note).lstrip("; ")
                meta.pop("verify_error", None)
                print(name, f"re-based with {how}")
        rc1, out1 = run_demo(wt, demo)
        meta["demo_without_patch_rc"] = rc0
        meta["demo_with_patch_rc"] = rc1
        meta["demo_with_patch_tail"] = out1[-300:]
        meta["repo_head"] = sh(["git", "-C", "/repo", "rev-parse", "--short", "HEAD"]).stdout.strip()
        if suite:
            env = dict(os.environ, PYTHONPATH=os.path.join(wt, "src"))
            env.pop("CHUK_MCP_VERIF", None)
            r = sh(["/venv/bin/python", "-m", "pytest", "-q", "-p", "no:cacheprovider", "--timeout=900"], cwd=wt, env=env)
            meta["suite_with_patch"] = (r.stdout.strip().splitlines() or ["?"])[-1]
            meta["suite_with_patch_rc"] = r.returncode
        res = {}
        for c in checks:
            env = dict(os.environ, VERIF_REPO=wt)
            r = sh([os.path.join(ROOT, "check"), c, "--tier", tier, "--no-evidence"], env=env)
            mechs = sorted({l.split("mechanism=")[1].split(": ")[0] for l in r.stdout.splitlines()
                            if l.strip().startswith("violation mechanism=")})
            res[c] = {"rc": r.returncode, "tier": tier, "mechanisms": mechs}
        meta.setdefault("check_results", {}).update(res)
        meta["caught"] = any(v["rc"] == 1 for v in res.values())
        meta["ran"] = [f"demo on HEAD (rc {rc0}), demo with patch (rc {rc1})"] + \
                      ([f"repo suite with patch: {meta.get('suite_with_patch')}"] if meta.get("suite_with_patch") else []) + \
                      [f"./check {c} --tier {tier} with VERIF_REPO=<patched worktree> -> rc {v['rc']}" for c, v in res.items()]
        json.dump(meta, open(os.path.join(d, "meta.json"), "w"), indent=1)
        verdict = "CAUGHT" if meta["caught"] else ("SUPERSEDED" if meta.get("superseded") and rc1 == 0 else "MISSED")
        print(f"{name}: demo {rc0}->{rc1} suite={meta.get('suite_with_patch_rc')} {verdict} {json.dumps(res)[:300]}")
        return meta
    finally:
        drop_worktree(wt)


if __name__ == "__main__":
    a = sys.argv[1:]
    if a[0] == "collect":
        collect(a[1], a[2], a[3] if len(a) > 3 else None)
    elif a[0] == "verify":
        tier = a[a.index("--tier") + 1] if "--tier" in a else "quick"
        checks = a[a.index("--checks") + 1].split(",") if "--checks" in a else None
        verify(a[1], suite="--suite" in a, tier=tier, checks=checks)
    elif a[0] == "all":
        tier = a[a.index("--tier") + 1] if "--tier" in a else "quick"
        import concurrent.futures as cf
        names = sorted(n for n in os.listdir(SEEDED) if os.path.exists(os.path.join(SEEDED, n, "meta.json")))
        with cf.ThreadPoolExecutor(6) as ex:
            list(ex.map(lambda n: verify(n, tier=tier), names))
