"""Property-breaking mutations used to validate the monitors (applied to scratch worktrees only)."""
SM = "src/chuk_mcp/protocol/messages/send_message.py"
ER = "src/chuk_mcp/protocol/types/errors.py"
BA = "src/chuk_mcp/protocol/features/batching.py"
FJ = "src/chuk_mcp/protocol/fast_json.py"
ME = "src/chuk_mcp/server/session/memory.py"
IN = "src/chuk_mcp/protocol/messages/initialize/send_messages.py"
PH = "src/chuk_mcp/server/protocol_handler.py"
SC = "src/chuk_mcp/transports/stdio/stdio_client.py"
JR = "src/chuk_mcp/protocol/messages/json_rpc_message.py"

MUTANTS = [
    # ---- C01 ----
    {"prop": "C01", "name": "revert_method_filter", "edits": [(SM, "        if msg_method is not None:\n            logging.debug(\"[send_message] skip request", "        if False:\n            logging.debug(\"[send_message] skip request")]},
    {"prop": "C01", "name": "drop_id_filter", "edits": [(SM, "        if msg_id != req_id:", "        if msg_id is None:")]},
    {"prop": "C01", "name": "compare_str_id", "edits": [(SM, "        if msg_id != req_id:", "        if str(msg_id) != str(req_id):")]},
    {"prop": "C01", "name": "no_outer_deadline", "edits": [(SM, "    with anyio.fail_after(timeout):\n        return await _await_response(", "    with anyio.fail_after(None):\n        return await _await_response(")]},
    {"prop": "C01", "name": "write_twice", "edits": [(SM, "    await write_stream.send(message)\n", "    await write_stream.send(message)\n    await write_stream.send(message)\n")]},
    {"prop": "C01", "name": "return_on_error", "edits": [(SM, "        raise NonRetryableError(msg, code)", "        return {\"error\": msg}")]},
    {"prop": "C01", "name": "batch_member_returned", "edits": [(SM, "        msg_id = getattr(msg, \"id\", None)\n        if msg_id != req_id:", "        if isinstance(msg, list) and msg:\n            msg = msg[0]\n        msg_id = getattr(msg, \"id\", None)\n        if msg_id != req_id:")]},
    # ---- C14 ----
    {"prop": "C14", "name": "cancel_checked_once", "edits": [(SM, "    while True:\n        # Check for cancellation\n        if cancellation_check:\n            await cancellation_check()\n", "    if cancellation_check:\n        await cancellation_check()\n    while True:\n")]},
    {"prop": "C14", "name": "sub_timeout_5", "edits": [(SM, "sub_timeout: float = 0.5,", "sub_timeout: float = 5,")]},
    {"prop": "C14", "name": "no_outer_deadline", "edits": [(SM, "    with anyio.fail_after(timeout):\n        return await _await_response(", "    with anyio.fail_after(None):\n        return await _await_response(")]},
    {"prop": "C14", "name": "callback_any_token", "edits": [(SM, "            if params.get(\"progressToken\") == progress_token:", "            if True:")]},
    {"prop": "C14", "name": "callback_exception_propagates", "edits": [(SM, "                except Exception as e:\n                    logging.error(f\"Error in progress callback: {e}\")", "                except ZeroDivisionError as e:\n                    logging.error(f\"Error in progress callback: {e}\")")]},
    {"prop": "C14", "name": "second_cancelled_notification", "edits": [(SM, "                await send_cancelled_notification(\n                    write_stream, req_id, \"Cancelled by client\"\n                )", "                await send_cancelled_notification(\n                    write_stream, req_id, \"Cancelled by client\"\n                )\n                await send_cancelled_notification(\n                    write_stream, req_id, \"Cancelled by client\"\n                )")]},
    {"prop": "C14", "name": "pre_cancel_sends_request", "edits": [(SM, "    # Check for cancellation before sending\n    if cancellation_token:\n        await check_and_send_cancellation()\n\n    logging.debug(\"[send_message] sending %s\", method)\n    await write_stream.send(message)\n", "    logging.debug(\"[send_message] sending %s\", method)\n    await write_stream.send(message)\n    if cancellation_token:\n        await check_and_send_cancellation()\n")]},
    # ---- C18 ----
    {"prop": "C18", "name": "drop_id_filter_crosstalk", "edits": [(SM, "        if msg_id != req_id:", "        if msg_id is None:")]},
    {"prop": "C18", "name": "owner_discards_own", "edits": [(SM, "        if msg_id != req_id:", "        if msg_id != req_id or (isinstance(getattr(msg, 'result', None), dict) and getattr(msg, 'result').get('tag') == 'caller-1'):")]},
    # ---- C07 ----
    {"prop": "C07", "name": "move_code_between_sets", "edits": [(ER, "    MCP_TOOL_NOT_FOUND,  # Tool not found is permanent\n", ""), (ER, "    MCP_RESOURCE_NOT_FOUND,  # Resource might become available\n", "    MCP_RESOURCE_NOT_FOUND,  # Resource might become available\n    MCP_TOOL_NOT_FOUND,\n")]},
    {"prop": "C07", "name": "classify_by_retryable_set", "edits": [(ER, "    return code not in NON_RETRYABLE_ERRORS", "    return code in RETRYABLE_ERRORS")]},
    {"prop": "C07", "name": "ping_reraises", "edits": [("src/chuk_mcp/protocol/messages/ping/send_messages.py", "        # failed\n        return False", "        # failed\n        if getattr(e, 'code', 0) == -32601:\n            raise\n        return False")]},
    {"prop": "C07", "name": "absent_code_default_changes_class", "edits": [(SM, "code = error.get(\"code\", -32603)", "code = error.get(\"code\", -32603) if error.get(\"code\", 0) != -32099 else -32600")]},
    {"prop": "C07", "name": "helper_swallows_error", "edits": [("src/chuk_mcp/protocol/messages/tools/send_messages.py", "    response = await send_message(", "    response = await _safe_send_message(", ), ("src/chuk_mcp/protocol/messages/tools/send_messages.py", "async def send_tools_list(", "async def _safe_send_message(**kw):\n    try:\n        return await send_message(**kw)\n    except Exception as e:\n        if getattr(e, 'code', None) == -32004:\n            return {'tools': []}\n        raise\n\n\nasync def send_tools_list(")]},
    {"prop": "C07", "name": "server_range_retryable", "edits": [(ER, "    return code not in NON_RETRYABLE_ERRORS", "    return code not in NON_RETRYABLE_ERRORS or code == -32000")]},
    {"prop": "C07", "name": "code_stringified", "edits": [(SM, "            raise RetryableError(msg, code)", "            raise RetryableError(msg, str(code))")]},
    # ---- C13 ----
    {"prop": "C13", "name": "day_gt_instead_of_ge", "edits": [(BA, "month == 6 and day >= 18", "month == 6 and day > 18")]},
    {"prop": "C13", "name": "month_ge", "edits": [(BA, "elif year == 2025 and month > 6:", "elif year == 2025 and month >= 6:")]},
    {"prop": "C13", "name": "year_ge", "edits": [(BA, "        if year > 2025:", "        if year > 2026:")]},
    {"prop": "C13", "name": "deliver_rejected_members", "edits": [(SC, "            await self._send_error_response(error_response)\n            return\n", "            await self._send_error_response(error_response)\n"), (SC, "            if self.batch_processor.batching_enabled:\n                logger.debug(\n                    f\"Processing batch", "            if True:\n                logger.debug(\n                    f\"Processing batch")]},
    {"prop": "C13", "name": "no_rejection_line", "edits": [(SC, "            await self._send_error_response(error_response)\n            return\n", "            return\n")]},
    {"prop": "C13", "name": "stale_batching_flag", "edits": [(BA, "        self.batching_enabled = supports_batching(version)\n\n        if old_batching", "        self.batching_enabled = self.batching_enabled and supports_batching(version)\n\n        if old_batching")]},
    {"prop": "C13", "name": "batch_break_on_bad_member", "edits": [(SC, "                    except Exception as exc:\n                        logger.error(\"Error processing batch item: %s\", exc)", "                    except Exception as exc:\n                        logger.error(\"Error processing batch item: %s\", exc)\n                        break")]},
    {"prop": "C13", "name": "rejection_code_wrong", "edits": [(BA, "\"code\": -32600,  # Invalid Request", "\"code\": -32601,  # Invalid Request")]},
    {"prop": "C13", "name": "revert_parse_message_junk_fix", "edits": [(JR, "        if message.method is not None or message.id is not None:\n            return message", "        return message")]},
    {"prop": "C13", "name": "tracking_skips_set_version", "edits": [("src/chuk_mcp/protocol/messages/initialize/send_messages.py", "    if client and hasattr(client, \"set_protocol_version\"):", "    if client and hasattr(client, \"set_protocol_version\") and result.protocolVersion < \"2025-06-01\":")]},
    # ---- C17 ----
    {"prop": "C17", "name": "orjson_append_newline", "edits": [(FJ, "            options = 0\n            if kwargs.get(\"indent\"):\n                options |= _orjson.OPT_INDENT_2\n\n            return _orjson.dumps(obj, option=options).decode(\"utf-8\")", "            options = _orjson.OPT_APPEND_NEWLINE\n            if kwargs.get(\"indent\"):\n                options |= _orjson.OPT_INDENT_2\n\n            return _orjson.dumps(obj, option=options).decode(\"utf-8\")")]},
    {"prop": "C17", "name": "stdlib_default_indent", "edits": [(FJ, "    else:\n        # Use stdlib json\n        return _stdlib_json.dumps(obj, **kwargs)", "    else:\n        # Use stdlib json\n        kwargs.setdefault(\"indent\", 2)\n        return _stdlib_json.dumps(obj, **kwargs)")]},
    {"prop": "C17", "name": "orjson_returns_bytes", "edits": [(FJ, "return _orjson.dumps(obj, option=options).decode(\"utf-8\")", "return _orjson.dumps(obj, option=options)")]},
    {"prop": "C17", "name": "stdlib_loads_float_ints", "edits": [(FJ, "        if isinstance(s, bytes):\n            s = s.decode(\"utf-8\")\n        return _stdlib_json.loads(s)\n\n\ndef dump(", "        if isinstance(s, bytes):\n            s = s.decode(\"utf-8\")\n        return _stdlib_json.loads(s, parse_int=lambda x: int(x) if len(x) < 17 else float(x))\n\n\ndef dump(")]},
    {"prop": "C17", "name": "orjson_strict_integer_no_fallback", "edits": [(FJ, "            options = 0\n            if kwargs.get(\"indent\"):\n                options |= _orjson.OPT_INDENT_2\n\n            return _orjson.dumps(obj, option=options).decode(\"utf-8\")\n        except Exception as e:", "            options = _orjson.OPT_STRICT_INTEGER\n            if kwargs.get(\"indent\"):\n                options |= _orjson.OPT_INDENT_2\n\n            return _orjson.dumps(obj, option=options).decode(\"utf-8\")\n        except RecursionError as e:")]},
    {"prop": "C17", "name": "stdlib_loads_latin1_bytes", "edits": [(FJ, "        # Use stdlib json\n        if isinstance(s, bytes):\n            s = s.decode(\"utf-8\")", "        # Use stdlib json\n        if isinstance(s, bytes):\n            s = s.decode(\"latin-1\")")]},
    # ---- C19 ----
    {"prop": "C19", "name": "expiry_ge", "edits": [(ME, "if now - session.last_activity > max_age", "if now - session.last_activity >= max_age")]},
    {"prop": "C19", "name": "list_returns_store", "edits": [(ME, "        return self.sessions.copy()", "        return self.sessions")]},
    {"prop": "C19", "name": "update_creates_missing", "edits": [(ME, "            self.sessions[session_id].last_activity = time.time()\n            return True\n        return False", "            self.sessions[session_id].last_activity = time.time()\n            return True\n        self.sessions[session_id] = SessionInfo(session_id, {}, \"\", time.time(), time.time(), {})\n        return False")]},
    {"prop": "C19", "name": "truncated_ids", "edits": [("src/chuk_mcp/server/session/base.py", "return str(uuid.uuid4()).replace(\"-\", \"\")", "return str(uuid.uuid4()).replace(\"-\", \"\")[:4]")]},
    {"prop": "C19", "name": "expiry_uses_created_at", "edits": [(ME, "if now - session.last_activity > max_age", "if now - session.created_at > max_age")]},
    {"prop": "C19", "name": "delete_keeps_when_recent", "edits": [(ME, "        if session_id in self.sessions:\n            del self.sessions[session_id]\n            return True", "        if session_id in self.sessions:\n            if len(self.sessions) > 1:\n                del self.sessions[session_id]\n            return True")]},
    {"prop": "C19", "name": "dispatch_skips_activity_update", "edits": [("src/chuk_mcp/server/protocol_handler.py", "        if session_id:\n            self.session_manager.update_activity(session_id)", "        if session_id and method != \"ping\":\n            self.session_manager.update_activity(session_id)")]},
    {"prop": "C19", "name": "initialize_drops_client_info", "edits": [("src/chuk_mcp/server/protocol_handler.py", "        client_info = params.get(\"clientInfo\", {})", "        client_info = dict(params.get(\"clientInfo\", {}), version=\"?\")")]},
    {"prop": "C19", "name": "shared_metadata_default", "edits": [(ME, "            metadata=metadata or {},", "            metadata=metadata or _SHARED,"), (ME, "class InMemorySessionManager(BaseSessionManager):", "_SHARED: dict = {}\n\n\nclass InMemorySessionManager(BaseSessionManager):")]},
    # ---- C03 ----
    {"prop": "C03", "name": "accept_any_answer", "edits": [(IN, "        elif server_version in supported_versions:", "        elif server_version in supported_versions or server_version.startswith(\"2026\"):")]},
    {"prop": "C03", "name": "initialized_before_validation", "edits": [(IN, "        # Parse the response\n        init_result = InitializeResult.model_validate(response)\n", "        await send_initialized_notification(write_stream)\n        # Parse the response\n        init_result = InitializeResult.model_validate(response)\n"), (IN, "        # Send initialized notification to complete handshake (per spec)\n        await send_initialized_notification(write_stream)\n", "")]},
    {"prop": "C03", "name": "propose_last", "edits": [(IN, "        proposed_version = supported_versions[0]", "        proposed_version = supported_versions[-1]")]},
    {"prop": "C03", "name": "skip_set_protocol_version", "edits": [(IN, "        client.set_protocol_version(result.protocolVersion)", "        pass")]},
    {"prop": "C03", "name": "initialized_twice", "edits": [(IN, "        await send_initialized_notification(write_stream)\n\n        logging.debug(f\"MCP initialization complete", "        await send_initialized_notification(write_stream)\n        if server_version != proposed_version:\n            await send_initialized_notification(write_stream)\n\n        logging.debug(f\"MCP initialization complete")]},
    {"prop": "C03", "name": "preferred_not_checked_against_list", "edits": [(IN, "    if preferred_version and preferred_version in supported_versions:", "    if preferred_version:")]},
    {"prop": "C03", "name": "returned_version_is_proposed", "edits": [(IN, "        return init_result\n\n    except VersionMismatchError:", "        init_result.protocolVersion = proposed_version\n        return init_result\n\n    except VersionMismatchError:")]},
    # ---- C04 ----
    {"prop": "C04", "name": "revert_fix", "edits": [(PH, "            and ProtocolVersion.is_supported(protocol_version)\n        ):", "            and ProtocolVersion.is_supported(protocol_version)\n        ) and False:")]},
    {"prop": "C04", "name": "always_latest", "edits": [(PH, "            isinstance(protocol_version, str)\n            and ProtocolVersion.is_supported(protocol_version)\n        ):", "            isinstance(protocol_version, str)\n            and protocol_version == ProtocolVersion.get_latest_supported()\n        ):")]},
    {"prop": "C04", "name": "session_stores_requested", "edits": [(PH, "        new_session_id = self.session_manager.create_session(\n            client_info, protocol_version\n        )", "        new_session_id = self.session_manager.create_session(\n            client_info, params.get(\"protocolVersion\", protocol_version)\n        )")]},
    {"prop": "C04", "name": "format_check_only", "edits": [(PH, "            and ProtocolVersion.is_supported(protocol_version)\n        ):", "            and ProtocolVersion.validate_format(protocol_version)\n        ):")]},
    {"prop": "C04", "name": "supported_prefix_match", "edits": [(PH, "            and ProtocolVersion.is_supported(protocol_version)\n        ):", "            and any(protocol_version.startswith(v[:7]) for v in ProtocolVersion.get_all_supported())\n        ):")]},
]
