"""Property-breaking mutations used to validate the monitors (applied to scratch worktrees only)."""
SM = "src/chuk_mcp/protocol/messages/send_message.py"

MUTANTS = [
    # ---- C01 ----
    {"prop": "C01", "name": "revert_method_filter", "edits": [(SM, "        if msg_method is not None:\n            logging.debug(\"[send_message] skip request", "        if False:\n            logging.debug(\"[send_message] skip request")]},
    {"prop": "C01", "name": "drop_id_filter", "edits": [(SM, "        if msg_id != req_id:", "        if msg_id is None:")]},
    {"prop": "C01", "name": "compare_str_id", "edits": [(SM, "        if msg_id != req_id:", "        if str(msg_id) != str(req_id):")]},
    {"prop": "C01", "name": "no_outer_deadline", "edits": [(SM, "    with anyio.fail_after(timeout):\n        return await _await_response(", "    with anyio.fail_after(None):\n        return await _await_response(")]},
    {"prop": "C01", "name": "write_twice", "edits": [(SM, "    await write_stream.send(message)\n", "    await write_stream.send(message)\n    await write_stream.send(message)\n")]},
    {"prop": "C01", "name": "return_on_error", "edits": [(SM, "        raise NonRetryableError(msg, code)", "        return {\"error\": msg}")]},
    {"prop": "C01", "name": "batch_member_returned", "edits": [(SM, "        msg_id = getattr(msg, \"id\", None)\n        if msg_id != req_id:", "        if isinstance(msg, list) and msg:\n            msg = msg[0]\n        msg_id = getattr(msg, \"id\", None)\n        if msg_id != req_id:")]},
    # ---- C14 ----
    {"prop": "C14", "name": "cancel_checked_once", "edits": [(SM, "    while True:\n        # Check for cancellation\n        if cancellation_check:\n            await cancellation_check()\n", "    if cancellation_check:\n        await cancellation_check()\n    while True:\n")]},
    {"prop": "C14", "name": "sub_timeout_5", "edits": [(SM, "sub_timeout: float = 0.5,", "sub_timeout: float = 5,")]},
    {"prop": "C14", "name": "no_outer_deadline", "edits": [(SM, "    with anyio.fail_after(timeout):\n        return await _await_response(", "    with anyio.fail_after(None):\n        return await _await_response(")]},
    {"prop": "C14", "name": "callback_any_token", "edits": [(SM, "            if params.get(\"progressToken\") == progress_token:", "            if True:")]},
    {"prop": "C14", "name": "callback_exception_propagates", "edits": [(SM, "                except Exception as e:\n                    logging.error(f\"Error in progress callback: {e}\")", "                except ZeroDivisionError as e:\n                    logging.error(f\"Error in progress callback: {e}\")")]},
    {"prop": "C14", "name": "second_cancelled_notification", "edits": [(SM, "                await send_cancelled_notification(\n                    write_stream, req_id, \"Cancelled by client\"\n                )", "                await send_cancelled_notification(\n                    write_stream, req_id, \"Cancelled by client\"\n                )\n                await send_cancelled_notification(\n                    write_stream, req_id, \"Cancelled by client\"\n                )")]},
    {"prop": "C14", "name": "pre_cancel_sends_request", "edits": [(SM, "    # Check for cancellation before sending\n    if cancellation_token:\n        await check_and_send_cancellation()\n\n    logging.debug(\"[send_message] sending %s\", method)\n    await write_stream.send(message)\n", "    logging.debug(\"[send_message] sending %s\", method)\n    await write_stream.send(message)\n    if cancellation_token:\n        await check_and_send_cancellation()\n")]},
    # ---- C18 ----
    {"prop": "C18", "name": "drop_id_filter_crosstalk", "edits": [(SM, "        if msg_id != req_id:", "        if msg_id is None:")]},
    {"prop": "C18", "name": "owner_discards_own", "edits": [(SM, "        if msg_id != req_id:", "        if msg_id != req_id or (isinstance(getattr(msg, 'result', None), dict) and getattr(msg, 'result').get('tag') == 'caller-1'):")]},
]
