#!/bin/bash
# Run every check (default tier quick) against /repo and rewrite all evidence files; prints one line per property.
TIER="${1:-quick}"
cd "$(dirname "$0")/.." || exit 2
rc=0
for p in C01 C02 C03 C04 C05 C06 C07 C08 C09 C10 C11 C12 C13 C14 C15 C16 C17 C18 C19 C20; do
  out=$(./check $p --tier "$TIER" 2>&1); r=$?
  echo "$p rc=$r $(echo "$out" | grep -E '^(HELD|INCONCLUSIVE|VIOLATION)' | head -1 | cut -c1-120)"
  [ $r -ne 0 ] && rc=1
done
exit $rc
