#!/venv/bin/python -B
"""Witness MCP server for C20.  Its own path decides where it records: <self>.launch.<pid>.json holds
the exact argv and environment it was started with (from /proc, so nothing the interpreter adds later
is included); <self>.initialized.<pid> is created when notifications/initialized arrives."""
import json
import os
import sys

me = os.path.abspath(__file__)
pid = os.getpid()
with open("/proc/self/cmdline", "rb") as f:
    raw_argv = f.read().split(b"\0")[:-1]
with open("/proc/self/environ", "rb") as f:
    raw_env = [e for e in f.read().split(b"\0") if e]
# cmdline = interpreter, -B, script, args...
script_index = next(i for i, a in enumerate(raw_argv) if os.path.abspath(a.decode("utf-8", "surrogateescape")) == me)
rec = {"argv": [a.hex() for a in raw_argv[script_index + 1:]],
       "env": sorted(e.hex() for e in raw_env), "pid": pid}
with open(f"{me}.launch.{pid}.json", "w") as f:
    json.dump(rec, f)
buf = b""
while True:
    try:
        chunk = os.read(0, 65536)
    except OSError:
        break
    if not chunk:
        break
    buf += chunk
    while b"\n" in buf:
        line, buf = buf.split(b"\n", 1)
        try:
            msg = json.loads(line)
        except Exception:
            continue
        m = msg.get("method")
        if m == "notifications/initialized":
            open(f"{me}.initialized.{pid}", "w").close()
        elif "id" in msg and m == "initialize":
            res = {"protocolVersion": msg.get("params", {}).get("protocolVersion", "2025-06-18"),
                   "capabilities": {"tools": {}, "resources": {}, "prompts": {}},
                   "serverInfo": {"name": "witness", "version": "1"}}
            os.write(1, (json.dumps({"jsonrpc": "2.0", "id": msg["id"], "result": res}) + "\n").encode())
        elif "id" in msg:
            res = {"tools/list": {"tools": []}, "resources/list": {"resources": []}, "prompts/list": {"prompts": []}}.get(m, {})
            os.write(1, (json.dumps({"jsonrpc": "2.0", "id": msg["id"], "result": res}) + "\n").encode())
