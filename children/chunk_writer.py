"""Child for C05's real-process tier: writes a file's bytes to stdout in chosen pieces with pauses,
then waits for stdin EOF (or 5 s) and exits."""
import os
import sys
import time

path, cuts = sys.argv[1], sys.argv[2]
data = open(path, "rb").read()
cuts = [int(c) for c in cuts.split(",") if c]
last = 0
for c in cuts + [len(data)]:
    piece = data[last:c]
    last = c
    if piece:
        os.write(1, piece)
        time.sleep(0.02)
time.sleep(0.1)
