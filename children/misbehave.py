"""Child process for C16: an MCP-ish stdio server with a selectable misbehaviour.

argv[1] = behaviour:
  well_behaved      answers every request line with a result, exits on stdin EOF
  exit_at:<k>       exits with code 3 after k protocol steps (a step = one line read or one line written)
  ignore_sigterm    ignores SIGTERM, announces readiness, then serves; ignores stdin EOF
  never_read        never reads stdin; sleeps
  flood             writes notifications to stdout endlessly
  flood_graceful    the same, but exits with status 0 on SIGTERM
  flood_junk        floods its stdout with short lines that are not messages ("x" - progress dots, log lines on stdout),
                    as fast as the pipe takes them (non-blocking writes, retried); dies at once on SIGTERM
  flood_noline      the same flood, but the data never contains a line break
  junk_batch:<n>    keeps writing lines that are JSON arrays of n numbers (a "batch" whose members are no messages)
  close_stdout      closes stdout, then sleeps
  close_stdin       closes stdin, then sleeps (still holds stdout)
  slow_start:<s>    sleeps s seconds, then behaves well
  sigterm_slow:<s>  on SIGTERM keeps running s seconds before exiting
  backlog:<n>:<kind> right after starting writes n notifications followed by ONE message that carries an id (kind =
                    response: an answer to a request nobody is waiting for any more; request: a server->client ping),
                    then behaves well
  stderr_burst:<n>  writes n bytes of diagnostics to stderr (non-blocking, as much as fits), then behaves well and
                    keeps adding a line of diagnostics per request
"""
import json
import os
import signal
import sys
import time

beh = sys.argv[1] if len(sys.argv) > 1 else "well_behaved"
steps = 0
limit = None
if beh.startswith("exit_at:"):
    limit = int(beh.split(":")[1])


def step():
    global steps
    if limit is not None and steps >= limit:
        os._exit(3)
    steps += 1


def out(obj):
    os.write(1, (json.dumps(obj) + "\n").encode())


def serve(stop_on_eof=True):
    buf = b""
    while True:
        step()
        try:
            chunk = os.read(0, 65536)
        except OSError:
            chunk = b""
        if not chunk:
            if stop_on_eof:
                return
            time.sleep(3600)
        buf += chunk
        while b"\n" in buf:
            line, buf = buf.split(b"\n", 1)
            try:
                msg = json.loads(line)
            except Exception:
                continue
            if "id" in msg and "method" in msg:
                step()
                if msg["method"] == "initialize":
                    out({"jsonrpc": "2.0", "id": msg["id"], "result": {
                        "protocolVersion": msg.get("params", {}).get("protocolVersion", "2025-06-18"),
                        "capabilities": {}, "serverInfo": {"name": "misbehave", "version": "0"}}})
                else:
                    out({"jsonrpc": "2.0", "id": msg["id"], "result": {"ok": True}})


if limit == 0:
    os._exit(3)
if beh == "ignore_sigterm":
    signal.signal(signal.SIGTERM, signal.SIG_IGN)
    out({"jsonrpc": "2.0", "method": "notifications/ready"})
    serve(stop_on_eof=False)
    time.sleep(3600)
elif beh.startswith("sigterm_slow:"):
    delay = float(beh.split(":")[1])

    def on_term(sig, frm):
        time.sleep(delay)
        os._exit(0)
    signal.signal(signal.SIGTERM, on_term)
    out({"jsonrpc": "2.0", "method": "notifications/ready"})
    serve(stop_on_eof=False)
    time.sleep(3600)
elif beh == "never_read":
    out({"jsonrpc": "2.0", "method": "notifications/ready"})
    time.sleep(3600)
elif beh == "flood_graceful":
    # floods its stdout, but shuts down "cleanly" (status 0) when asked to terminate
    signal.signal(signal.SIGTERM, lambda sig, frm: os._exit(0))
    out({"jsonrpc": "2.0", "method": "notifications/ready"})
    blob = (json.dumps({"jsonrpc": "2.0", "method": "notifications/message",
                        "params": {"level": "debug", "data": "x" * 512}}) + "\n").encode() * 32
    try:
        while True:
            os.write(1, blob)
    except OSError:
        os._exit(0)
elif beh.startswith("flood_noline"):
    out({"jsonrpc": "2.0", "method": "notifications/ready"})
    os.set_blocking(1, False)
    blob = b"x" * (int(beh.split(":")[1]) if ":" in beh else 4096)
    while True:
        try:
            os.write(1, blob)
        except BlockingIOError:
            pass
        except BaseException:
            os._exit(0)
elif beh.startswith("junk_batch:"):
    out({"jsonrpc": "2.0", "method": "notifications/ready"})
    line = b"[" + b",".join([b"0"] * int(beh.split(":")[1])) + b"]\n"
    try:
        while True:
            os.write(1, line)
    except BaseException:
        os._exit(0)
elif beh == "flood_batches":
    # endless one-member batch arrays, stdin never read: under a revision without batching the client answers every one
    # of them with an error line, into a pipe nobody drains
    out({"jsonrpc": "2.0", "method": "notifications/ready"})
    blob = b'[{"jsonrpc":"2.0","method":"notifications/message","params":{"level":"info","data":"b"}}]\n' * 64
    try:
        while True:
            os.write(1, blob)
    except BaseException:
        os._exit(0)
elif beh == "flood_junk":
    out({"jsonrpc": "2.0", "method": "notifications/ready"})
    os.set_blocking(1, False)
    blob = b"x\n" * 2048
    while True:
        try:
            os.write(1, blob)
        except BlockingIOError:
            pass
        except BaseException:
            os._exit(0)
elif beh == "flood":
    out({"jsonrpc": "2.0", "method": "notifications/ready"})
    blob = (json.dumps({"jsonrpc": "2.0", "method": "notifications/message",
                        "params": {"level": "debug", "data": "x" * 512}}) + "\n").encode() * 32
    try:
        while True:
            os.write(1, blob)
    except OSError:
        time.sleep(3600)
elif beh == "close_stdout":
    out({"jsonrpc": "2.0", "method": "notifications/ready"})
    os.close(1)
    time.sleep(3600)
elif beh == "close_stdin":
    out({"jsonrpc": "2.0", "method": "notifications/ready"})
    os.close(0)
    time.sleep(3600)
elif beh.startswith("stderr_burst:"):
    import fcntl
    total = int(beh.split(":")[1])
    fl = fcntl.fcntl(2, fcntl.F_GETFL)
    fcntl.fcntl(2, fcntl.F_SETFL, fl | os.O_NONBLOCK)
    line = b"diagnostic " + b"e" * 1000 + b"\n"
    written = 0
    deadline = time.time() + 1.0
    while written < total and time.time() < deadline:
        try:
            written += os.write(2, line)
        except (BlockingIOError, OSError):
            time.sleep(0.01)
    out({"jsonrpc": "2.0", "method": "notifications/ready"})
    serve()
elif beh.startswith("backlog:"):
    _, n, kind = beh.split(":")
    out({"jsonrpc": "2.0", "method": "notifications/ready"})
    for k in range(int(n)):
        out({"jsonrpc": "2.0", "method": "notifications/progress", "params": {"progressToken": "old", "progress": k}})
    if kind == "response":
        out({"jsonrpc": "2.0", "id": "given-up-long-ago", "result": {"late": True}})
    else:
        out({"jsonrpc": "2.0", "id": "srv-1", "method": "ping"})
    serve()
elif beh.startswith("slow_start:"):
    time.sleep(float(beh.split(":")[1]))
    out({"jsonrpc": "2.0", "method": "notifications/ready"})
    serve()
else:
    if limit is None:
        out({"jsonrpc": "2.0", "method": "notifications/ready"})
    serve()
