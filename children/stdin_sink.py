"""Child for C06's real-process tier: copies stdin to a file until EOF, then creates <file>.done and exits 0."""
import os
import sys

path = sys.argv[1]
with open(path, "wb") as f:
    while True:
        b = os.read(0, 65536)
        if not b:
            break
        f.write(b)
open(path + ".done", "w").close()
