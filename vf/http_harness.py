"""Scripted HTTP seam: every httpx.AsyncClient created while the patch is active gets a
MockTransport whose handler is the scripted server.  Requests are logged; SSE bodies can be
served through an AsyncByteStream that yields chosen chunks at chosen virtual times."""
from __future__ import annotations

import asyncio
import json
from typing import Any, Callable, Dict, List, Optional

import httpx


class TimedByteStream(httpx.AsyncByteStream):
    """chunks: list of (virtual_time | None, bytes).  After the chunks, if `hold_open` the stream
    stays open until `release()`; `feed()` appends further chunks while open."""

    def __init__(self, chunks, hold_open: bool = False, log: Optional[List[Any]] = None):
        self._chunks = list(chunks)
        self._event: Optional[asyncio.Event] = asyncio.Event() if hold_open else None
        self.closed = False
        self.log = log if log is not None else []
        self.delivered = 0
        self.read_timeout: Optional[float] = None   # emulation of the network layer's per-read timeout (None = wait for ever)
        self.read_timeouts_fired = 0

    def feed(self, data: bytes, t: Optional[float] = None):
        self._chunks.append((t, data))
        if self._event is not None:
            self._event.set()

    def release(self):
        ev = self._event
        self._event = None
        if ev is not None:
            ev.set()

    async def _wait(self, coro_fn):
        if self.read_timeout is None:
            await coro_fn()
            return
        try:
            await asyncio.wait_for(coro_fn(), self.read_timeout)
        except asyncio.TimeoutError:
            self.read_timeouts_fired += 1
            self.log.append(("stream.read_timeout", asyncio.get_running_loop().time()))
            raise httpx.ReadTimeout("no data within the read timeout")

    async def __aiter__(self):
        while True:
            while self._chunks:
                t, data = self._chunks[0]
                if t is not None:
                    now = asyncio.get_running_loop().time()
                    if t > now:
                        await self._wait(lambda: asyncio.sleep(t - now))
                self._chunks.pop(0)
                self.delivered += 1
                await asyncio.sleep(0)
                if isinstance(data, Exception):
                    raise data
                yield data
            if self._event is None:
                return
            await self._wait(self._event.wait)
            if self._event is not None:
                self._event.clear()

    async def aclose(self):
        self.closed = True
        self.log.append(("stream.aclose",))


class ScriptedHTTP:
    """Context manager: patches httpx.AsyncClient.__init__ on the class (so every reference is
    covered) to inject MockTransport(handler)."""

    def __init__(self, handler: Callable[[httpx.Request], Any]):
        self.handler = handler
        self.requests: List[Dict[str, Any]] = []
        self.clients: List[httpx.AsyncClient] = []
        self._orig = None

    async def _handle(self, request: httpx.Request) -> httpx.Response:
        body = request.content
        try:
            parsed = json.loads(body) if body else None
        except Exception:
            parsed = None
        rec = {"method": request.method, "url": str(request.url), "headers": dict(request.headers),
               "body": parsed, "raw": body, "t": asyncio.get_running_loop().time()}
        self.requests.append(rec)
        r = self.handler(request, rec)
        if asyncio.iscoroutine(r):
            r = await r
        return r

    def __enter__(self):
        orig = httpx.AsyncClient.__init__
        self._orig = orig
        outer = self

        def patched(client_self, *a, **kw):
            if "transport" not in kw or kw["transport"] is None:
                kw["transport"] = httpx.MockTransport(outer._handle)
            orig(client_self, *a, **kw)
            outer.clients.append(client_self)

        httpx.AsyncClient.__init__ = patched
        return self

    def __exit__(self, *a):
        httpx.AsyncClient.__init__ = self._orig
        return False

    def posts(self):
        return [r for r in self.requests if r["method"] == "POST"]
