"""Wire objects taken from the MCP specification (revision 2025-06-18: the schema's own examples and the shapes its
TypeScript definitions prescribe), pinned here so that the models are exercised with what real peers send and not only
with objects derived from the models' own declarations.  Keyed by the library model that claims the shape."""
from __future__ import annotations

from typing import Any, Dict, List

ANNOT = {"audience": ["user", "assistant"], "priority": 0.7, "lastModified": "2025-05-03T14:30:00Z"}
TEXT = {"type": "text", "text": "Current weather in New York:\nTemperature: 72°F\nConditions: Partly cloudy"}
IMAGE = {"type": "image", "data": "aGVsbG8=", "mimeType": "image/png", "annotations": {"audience": ["user"], "priority": 0.9}}
AUDIO = {"type": "audio", "data": "aGVsbG8=", "mimeType": "audio/wav"}
RESOURCE_LINK = {"type": "resource_link", "uri": "file:///project/src/main.rs", "name": "main.rs",
                 "description": "Primary application entry point", "mimeType": "text/x-rust", "annotations": ANNOT}
TEXT_RES = {"uri": "file:///project/src/main.rs", "mimeType": "text/x-rust", "text": "fn main() {\n    println!(\"Hello world!\");\n}"}
BLOB_RES = {"uri": "file:///project/logo.png", "mimeType": "image/png", "blob": "aGVsbG8="}
EMBEDDED = {"type": "resource", "resource": dict(TEXT_RES, title="Project Rust Main File"), "annotations": ANNOT}
TOOL = {"name": "get_weather_data", "title": "Weather Data Retriever", "description": "Get current weather data for a location",
        "inputSchema": {"type": "object", "properties": {"location": {"type": "string", "description": "City name or zip code"}},
                        "required": ["location"]},
        "outputSchema": {"type": "object", "properties": {"temperature": {"type": "number", "description": "Temperature in celsius"},
                                                           "conditions": {"type": "string"}, "humidity": {"type": "number"}},
                         "required": ["temperature", "conditions", "humidity"]},
        "annotations": {"title": "Weather", "readOnlyHint": True, "destructiveHint": False, "idempotentHint": True, "openWorldHint": True},
        "_meta": {"example.com/version": "2"}}
TOOL_MIN = {"name": "get_weather", "description": "Get current weather information for a location",
            "inputSchema": {"type": "object", "properties": {"location": {"type": "string"}}, "required": ["location"]}}
CALL_RESULTS = [
    {"content": [TEXT], "isError": False},
    {"content": [{"type": "text", "text": "{\"temperature\": 22.5, \"conditions\": \"Partly cloudy\", \"humidity\": 65}"}],
     "structuredContent": {"temperature": 22.5, "conditions": "Partly cloudy", "humidity": 65}},
    {"content": [{"type": "text", "text": "Failed to fetch weather data: API rate limit exceeded"}], "isError": True},
    {"content": [IMAGE, AUDIO]},
    {"content": [RESOURCE_LINK]},
    {"content": [EMBEDDED], "_meta": {"took_ms": 12}},
]
RESOURCE = {"uri": "file:///project/src/main.rs", "name": "main.rs", "title": "Rust Software Application Main File",
            "description": "Primary application entry point", "mimeType": "text/x-rust", "size": 1024, "annotations": ANNOT}
RES_TEMPLATE = {"uriTemplate": "file:///{path}", "name": "Project Files", "title": "\U0001f4c1 Project Files",
                "description": "Access files in the project directory", "mimeType": "application/octet-stream"}
PROMPT = {"name": "code_review", "title": "Request Code Review", "description": "Asks the LLM to analyze code quality and suggest improvements",
          "arguments": [{"name": "code", "description": "The code to review", "required": True}]}
PROMPT_MSGS = [{"role": "user", "content": {"type": "text", "text": "Please review this Python code:\ndef hello():\n    print('world')"}},
               {"role": "assistant", "content": IMAGE}, {"role": "user", "content": AUDIO}, {"role": "user", "content": EMBEDDED},
               {"role": "user", "content": RESOURCE_LINK}]
SERVER_CAPS = {"logging": {}, "prompts": {"listChanged": True}, "resources": {"subscribe": True, "listChanged": True},
               "tools": {"listChanged": True}, "completions": {}, "experimental": {"x-feature": {"on": True}}}
CLIENT_CAPS = {"roots": {"listChanged": True}, "sampling": {}, "elicitation": {}, "experimental": {}}
IMPL = {"name": "ExampleServer", "title": "Example Server Display Name", "version": "1.0.0"}
ELICIT_PARAMS = {"message": "Please provide your GitHub username",
                 "requestedSchema": {"type": "object", "properties": {"name": {"type": "string", "title": "Name", "minLength": 1},
                                                                      "age": {"type": "integer", "minimum": 0},
                                                                      "plan": {"type": "string", "enum": ["free", "pro"], "enumNames": ["Free", "Pro"]}},
                                     "required": ["name"]}}
SAMPLING_MSG = {"role": "user", "content": {"type": "text", "text": "What is the capital of France?"}}

EXAMPLES: Dict[str, List[Dict[str, Any]]] = {
    "chuk_mcp.protocol.messages.initialize.send_messages:InitializeResult": [
        {"protocolVersion": "2025-06-18", "capabilities": SERVER_CAPS, "serverInfo": IMPL,
         "instructions": "Optional instructions for the client"},
        {"protocolVersion": "2024-11-05", "capabilities": {}, "serverInfo": {"name": "s", "version": "0"}}],
    "chuk_mcp.protocol.messages.initialize.send_messages:InitializeParams": [
        {"protocolVersion": "2025-06-18", "capabilities": CLIENT_CAPS,
         "clientInfo": {"name": "ExampleClient", "title": "Example Client Display Name", "version": "1.0.0"}}],
    "chuk_mcp.protocol.messages.tools.tool_input_schema:ToolInputSchema": [TOOL["inputSchema"], {"type": "object"},
                                                                            {"type": "object", "properties": {}, "additionalProperties": False}],
    "chuk_mcp.protocol.types.tools:ToolInputSchema": [TOOL["inputSchema"], {"type": "object"}],
    "chuk_mcp.protocol.messages.tools.tool:Tool": [TOOL, TOOL_MIN, {"name": "no_args", "inputSchema": {"type": "object"}}],
    "chuk_mcp.protocol.types.tools:Tool": [TOOL, TOOL_MIN, {"name": "no_args", "inputSchema": {"type": "object"}}],
    "chuk_mcp.protocol.messages.tools.send_messages:ListToolsResult": [{"tools": [TOOL, TOOL_MIN], "nextCursor": "next-page-cursor"},
                                                                        {"tools": []}],
    "chuk_mcp.protocol.messages.tools.tool_result:ToolResult": CALL_RESULTS,
    "chuk_mcp.protocol.types.tools:ToolResult": CALL_RESULTS,
    "chuk_mcp.protocol.types.tools:CallToolResult": CALL_RESULTS,
    "chuk_mcp.protocol.types.tools:CallToolParams": [{"name": "get_weather", "arguments": {"location": "New York"}}, {"name": "noargs"}],
    "chuk_mcp.protocol.types.tools:CallToolRequest": [{"method": "tools/call", "params": {"name": "get_weather", "arguments": {"location": "New York"}}}],
    "chuk_mcp.protocol.messages.resources.resource:Resource": [RESOURCE, {"uri": "file:///a", "name": "a"}],
    "chuk_mcp.protocol.messages.resources.send_messages:ListResourcesResult": [{"resources": [RESOURCE], "nextCursor": "next-page-cursor"}],
    "chuk_mcp.protocol.messages.resources.send_messages:ReadResourceResult": [{"contents": [dict(TEXT_RES, name="main.rs", title="Rust main")]},
                                                                               {"contents": [BLOB_RES, TEXT_RES]}],
    "chuk_mcp.protocol.messages.resources.resource_content:ResourceContent": [TEXT_RES, BLOB_RES],
    "chuk_mcp.protocol.messages.resources.resource_template:ResourceTemplate": [RES_TEMPLATE],
    "chuk_mcp.protocol.messages.resources.send_messages:ListResourceTemplatesResult": [{"resourceTemplates": [RES_TEMPLATE]}],
    "chuk_mcp.protocol.messages.prompts.prompt:Prompt": [PROMPT, {"name": "bare"}],
    "chuk_mcp.protocol.messages.prompts.prompt:PromptArgument": PROMPT["arguments"] + [{"name": "lang"}],
    "chuk_mcp.protocol.messages.prompts.prompt:PromptMessage": PROMPT_MSGS,
    "chuk_mcp.protocol.messages.prompts.prompt:GetPromptResult": [{"description": "Code review prompt", "messages": PROMPT_MSGS[:1]},
                                                                   {"messages": PROMPT_MSGS}],
    "chuk_mcp.protocol.messages.prompts.prompt:ListPromptsResult": [{"prompts": [PROMPT], "nextCursor": "next-page-cursor"}],
    "chuk_mcp.protocol.messages.roots.send_messages:Root": [{"uri": "file:///home/user/projects/myproject", "name": "My Project"},
                                                             {"uri": "file:///home/user/repos/backend"}],
    "chuk_mcp.protocol.messages.roots.send_messages:ListRootsResult": [{"roots": [{"uri": "file:///home/user/projects/myproject", "name": "My Project"}]}],
    "chuk_mcp.protocol.messages.sampling.send_messages:SamplingMessage": [SAMPLING_MSG, {"role": "assistant", "content": IMAGE},
                                                                           {"role": "user", "content": AUDIO}],
    "chuk_mcp.protocol.messages.sampling.send_messages:ModelHint": [{"name": "claude-3-sonnet"}, {}],
    "chuk_mcp.protocol.messages.sampling.send_messages:ModelPreferences": [
        {"hints": [{"name": "claude-3-sonnet"}, {"name": "claude"}], "costPriority": 0.3, "intelligencePriority": 0.8, "speedPriority": 0.5}, {}],
    "chuk_mcp.protocol.messages.sampling.send_messages:CreateMessageResult": [
        {"role": "assistant", "content": {"type": "text", "text": "The capital of France is Paris."},
         "model": "claude-3-sonnet-20240307", "stopReason": "endTurn"},
        {"role": "assistant", "content": IMAGE, "model": "m"}],
    "chuk_mcp.protocol.messages.completions.send_messages:ResourceReference": [{"type": "ref/resource", "uri": "file:///{path}"}],
    "chuk_mcp.protocol.messages.completions.send_messages:PromptReference": [{"type": "ref/prompt", "name": "code_review"},
                                                                              {"type": "ref/prompt", "name": "code_review", "title": "Request Code Review"}],
    "chuk_mcp.protocol.messages.completions.send_messages:ArgumentInfo": [{"name": "language", "value": "py"}],
    "chuk_mcp.protocol.types.capabilities:ServerCapabilities": [SERVER_CAPS, {}],
    "chuk_mcp.protocol.types.capabilities:ClientCapabilities": [CLIENT_CAPS, {}],
    "chuk_mcp.protocol.types.content:Annotations": [ANNOT, {"audience": ["user"]}, {}],
    "chuk_mcp.protocol.types.content:TextContent": [TEXT, dict(TEXT, annotations=ANNOT, _meta={"k": 1})],
    "chuk_mcp.protocol.types.content:ImageContent": [IMAGE],
    "chuk_mcp.protocol.types.content:AudioContent": [AUDIO],
    "chuk_mcp.protocol.types.content:TextResourceContents": [TEXT_RES, {"uri": "file:///a", "text": ""}],
    "chuk_mcp.protocol.types.content:BlobResourceContents": [BLOB_RES],
    "chuk_mcp.protocol.types.content:EmbeddedResource": [EMBEDDED, {"type": "resource", "resource": BLOB_RES}],
    "chuk_mcp.protocol.types.elicitation:ElicitationParams": [ELICIT_PARAMS],
    "chuk_mcp.protocol.types.elicitation:ElicitationRequest": [{"method": "elicitation/create", "params": ELICIT_PARAMS}],
    "chuk_mcp.protocol.types.elicitation:ElicitationResponse": [{"action": "accept", "content": {"name": "octocat", "age": 7}},
                                                                  {"action": "decline"}, {"action": "cancel"}],
    "chuk_mcp.protocol.types.info:ServerInfo": [IMPL, {"name": "s", "version": "1"}],
    "chuk_mcp.protocol.types.info:ClientInfo": [{"name": "ExampleClient", "title": "Example Client Display Name", "version": "1.0.0"}],
}


CALL_RESULT_TAGS = ["text", "structured_content_object", "error_text", "image_audio", "resource_link", "embedded_resource"]


def _tag(key: str, k: int, o: Dict[str, Any]) -> str:
    """What the example is an example of (part of the finding's key: one cause, one entry)."""
    if o in CALL_RESULTS:
        return CALL_RESULT_TAGS[CALL_RESULTS.index(o)]
    if "requestedSchema" in o or "requestedSchema" in (o.get("params") or {}):
        return "requestedSchema"
    if "action" in o:
        return "action_" + o["action"]
    c = o.get("content")
    if isinstance(c, dict) and c.get("type"):
        return "content_" + c["type"]
    return f"example{k}"


def cases() -> List[Dict[str, Any]]:
    import copy
    out = []
    for key, objs in EXAMPLES.items():
        for k, o in enumerate(objs):
            out.append({"kind": "spec_example", "cls": key, "wire": copy.deepcopy(o), "example": k, "tag": _tag(key, k, o)})
    return out
