"""Boundary recorders: pass-through proxies over anyio memory streams, a scripted
process for anyio.open_process, and a scripted httpx transport.

Every proxy appends an event to a shared Trace *before* invoking the wrapped
operation and the outcome *after* it returns, so an operation cancelled midway
stays open in the trace.
"""
from __future__ import annotations

import asyncio
from typing import Any, Callable, Dict, List, Optional

import anyio


class Trace:
    def __init__(self):
        self.events: List[Dict[str, Any]] = []
        self._seq = 0

    def add(self, **ev) -> Dict[str, Any]:
        self._seq += 1
        ev["seq"] = self._seq
        try:
            ev["vt"] = round(asyncio.get_running_loop().time(), 6)
        except RuntimeError:
            ev["vt"] = None
        try:
            t = asyncio.current_task()
            ev["task"] = t.get_name() if t else None
        except RuntimeError:
            ev["task"] = None
        self.events.append(ev)
        return ev

    def of(self, op: str) -> List[Dict[str, Any]]:
        return [e for e in self.events if e["op"] == op]


def _brief(item: Any) -> Dict[str, Any]:
    if isinstance(item, list):
        return {"kind": "list", "n": len(item)}
    d: Dict[str, Any] = {"type": type(item).__name__}
    for k in ("id", "method"):
        v = item.get(k) if isinstance(item, dict) else getattr(item, k, None)
        if v is not None:
            d[k] = v
    return d


class RecordingReceive:
    """Proxy over a MemoryObjectReceiveStream."""

    def __init__(self, inner, trace: Trace, name: str = "read"):
        self._inner = inner
        self._trace = trace
        self._name = name

    async def receive(self):
        ev = self._trace.add(op="receive", stream=self._name, done=False)
        item = await self._inner.receive()
        ev["done"] = True
        ev["item"] = _brief(item)
        ev["obj"] = item
        try:
            ev["vt_done"] = round(asyncio.get_running_loop().time(), 6)
        except RuntimeError:
            pass
        return item

    def receive_nowait(self):
        item = self._inner.receive_nowait()
        self._trace.add(op="receive", stream=self._name, done=True, item=_brief(item), obj=item)
        return item

    def __aiter__(self):
        return self

    async def __anext__(self):
        try:
            return await self.receive()
        except anyio.EndOfStream:
            raise StopAsyncIteration

    async def aclose(self):
        self._trace.add(op="aclose", stream=self._name)
        await self._inner.aclose()

    def close(self):
        self._trace.add(op="close", stream=self._name)
        self._inner.close()

    def clone(self):
        return RecordingReceive(self._inner.clone(), self._trace, self._name)

    def statistics(self):
        return self._inner.statistics()

    async def __aenter__(self):
        return self

    async def __aexit__(self, *a):
        await self.aclose()


class RecordingSend:
    """Proxy over a MemoryObjectSendStream."""

    def __init__(self, inner, trace: Trace, name: str = "write"):
        self._inner = inner
        self._trace = trace
        self._name = name

    async def send(self, item):
        ev = self._trace.add(op="send", stream=self._name, done=False, item=_brief(item), obj=item)
        await self._inner.send(item)
        ev["done"] = True

    def send_nowait(self, item):
        ev = self._trace.add(op="send", stream=self._name, done=False, item=_brief(item), obj=item)
        self._inner.send_nowait(item)
        ev["done"] = True

    async def aclose(self):
        self._trace.add(op="aclose", stream=self._name)
        await self._inner.aclose()

    def close(self):
        self._trace.add(op="close", stream=self._name)
        self._inner.close()

    def clone(self):
        return RecordingSend(self._inner.clone(), self._trace, self._name)

    def statistics(self):
        return self._inner.statistics()

    async def __aenter__(self):
        return self

    async def __aexit__(self, *a):
        await self.aclose()


class Pipe:
    """A (client-read, client-write) pair with recording proxies and server-side ends."""

    def __init__(self, buffer: int = 10_000):
        self.trace = Trace()
        self.srv_send, cli_recv = anyio.create_memory_object_stream(buffer)
        cli_send, self.srv_recv = anyio.create_memory_object_stream(buffer)
        self.read = RecordingReceive(cli_recv, self.trace, "read")
        self.write = RecordingSend(cli_send, self.trace, "write")
        self._raw = (cli_recv, cli_send)

    def close(self):
        for s in (self.srv_send, self.srv_recv, *self._raw):
            try:
                s.close()
            except Exception:
                pass


# --------------------------------------------------------------------------
# scripted process for the anyio.open_process seam
# --------------------------------------------------------------------------
class _ScriptedStdout:
    def __init__(self, proc: "ScriptedProcess"):
        self._p = proc

    def __aiter__(self):
        return self

    async def __anext__(self):
        p = self._p
        while True:
            if p._chunks:
                t, chunk = p._chunks[0]
                if t is not None:
                    now = asyncio.get_running_loop().time()
                    if t > now:
                        await asyncio.sleep(t - now)
                p._chunks.pop(0)
                p.chunks_read += 1
                # suspension point like a real pipe read
                await asyncio.sleep(0)
                return chunk
            if p._hold_open is not None:
                await p._hold_open.wait()
                if p._chunks:
                    continue
            raise StopAsyncIteration

    async def receive(self, max_bytes: int = 65536):
        try:
            return await self.__anext__()
        except StopAsyncIteration:
            raise anyio.EndOfStream

    async def aclose(self):
        self._p.events.append(("stdout.aclose",))


class _ScriptedStdin:
    def __init__(self, proc: "ScriptedProcess"):
        self._p = proc
        self.closed = False

    async def send(self, data: bytes):
        if self.closed:
            raise anyio.ClosedResourceError
        self._p.stdin_writes.append(data)
        self._p.events.append(("stdin.send", len(data)))
        # a pipe to a slow reader: the write is buffered at once (as asyncio's StreamWriter.write does) and the
        # caller then waits for the drain, in proportion to the size
        delay = getattr(self._p, "stdin_delay", 0.0)
        await asyncio.sleep(delay * (1 + len(data) // 65536) if delay else 0)

    async def aclose(self):
        self.closed = True
        self._p.events.append(("stdin.aclose",))


class ScriptedProcess:
    """Stands in for anyio.abc.Process.  stdout yields the scripted chunks."""

    def __init__(self, chunks, hold_open: bool = True, pid: int = 424242):
        # chunks: list of bytes/str or (virtual_time, bytes/str)
        self._chunks = [c if isinstance(c, tuple) else (None, c) for c in chunks]
        self._hold_open = asyncio.Event() if hold_open else None
        self.stdin_writes: List[bytes] = []
        self.events: List[tuple] = []
        self.chunks_read = 0
        self.stdout = _ScriptedStdout(self)
        self.stdin = _ScriptedStdin(self)
        self.stderr = None
        self.pid = pid
        self.returncode: Optional[int] = None
        self.argv = None
        self.env = None

    def feed(self, chunk, t=None):
        self._chunks.append((t, chunk))
        if self._hold_open is not None:
            self._hold_open.set()
            self._hold_open = asyncio.Event()

    def finish_stdout(self):
        if self._hold_open is not None:
            ev = self._hold_open
            self._hold_open = None
            ev.set()

    def terminate(self):
        self.events.append(("terminate",))
        self.returncode = -15
        self.finish_stdout()

    def kill(self):
        self.events.append(("kill",))
        self.returncode = -9
        self.finish_stdout()

    def send_signal(self, sig):
        self.events.append(("signal", sig))

    async def wait(self):
        self.events.append(("wait",))
        return self.returncode

    async def aclose(self):
        self.events.append(("aclose",))

    def stdin_bytes(self) -> bytes:
        return b"".join(self.stdin_writes)


class OpenProcessPatch:
    """Context manager replacing anyio.open_process with a factory of scripted processes."""

    def __init__(self, factory: Callable[..., ScriptedProcess]):
        self.factory = factory
        self.spawned: List[ScriptedProcess] = []
        self._orig = None

    def __enter__(self):
        self._orig = anyio.open_process

        async def fake_open_process(command, **kw):
            p = self.factory(command, **kw)
            p.argv = list(command) if not isinstance(command, (str, bytes)) else command
            p.env = kw.get("env")
            self.spawned.append(p)
            return p

        anyio.open_process = fake_open_process
        return self

    def __exit__(self, *a):
        anyio.open_process = self._orig
        return False
