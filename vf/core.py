"""Check runner: contexts, verdicts, evidence, known findings, sharding.

Each property module (vf/props/cXX.py) exposes

    ID, LEVEL, RULE, ASSUMPTIONS, SHARDS = {"quick": n, "thorough": m}
    def run(ctx): ...            # enumerate + execute cases, report through ctx
    def replay(ctx, case): ...   # re-run exactly one recorded case

Verdicts are three-valued: violated (exit 1), held on what was observed
(exit 0), inconclusive (exit 2).  Inconclusive is never folded into the others.
"""
from __future__ import annotations

import hashlib
import importlib
import json
import os
import random
import subprocess
import sys
import tempfile
import time
import traceback
from typing import Any, Dict, Iterable, List, Optional, Tuple

ROOT = os.path.dirname(os.path.dirname(os.path.abspath(__file__)))
REPO = os.environ.get("VERIF_REPO", "/repo")
FINDINGS_FILE = os.path.join(ROOT, "known_findings.txt")
PY = os.environ.get("VERIF_PYTHON", "/venv/bin/python")


def jhash(obj: Any) -> str:
    s = json.dumps(obj, sort_keys=True, default=repr, ensure_ascii=True)
    return hashlib.blake2b(s.encode(), digest_size=8).hexdigest()


def jsonable(obj: Any, depth: int = 0) -> Any:
    """Best-effort conversion to something json.dump accepts (for replays/samples)."""
    if depth > 12:
        return repr(obj)
    if obj is None or isinstance(obj, (bool, int, str)):
        return obj
    if isinstance(obj, float):
        if obj != obj or obj in (float("inf"), float("-inf")):
            return repr(obj)
        return obj
    if isinstance(obj, bytes):
        return {"__bytes__": obj.hex()}
    if isinstance(obj, (list, tuple)):
        return [jsonable(x, depth + 1) for x in obj]
    if isinstance(obj, (set, frozenset)):
        return sorted((jsonable(x, depth + 1) for x in obj), key=repr)
    if isinstance(obj, dict):
        return {str(k): jsonable(v, depth + 1) for k, v in obj.items()}
    return repr(obj)


def load_known() -> Dict[Tuple[str, str], str]:
    """known_findings.txt lines:  known: property=<id> mechanism=<key> <what fails>
    `fixed:` lines are history only and suppress nothing."""
    out: Dict[Tuple[str, str], str] = {}
    if not os.path.exists(FINDINGS_FILE):
        return out
    for line in open(FINDINGS_FILE, encoding="utf-8"):
        line = line.strip()
        if not line.startswith("known:"):
            continue
        parts = line[len("known:"):].split()
        pid = mech = None
        rest = []
        for p in parts:
            if p.startswith("property=") and pid is None:
                pid = p[len("property="):]
            elif p.startswith("mechanism=") and mech is None:
                mech = p[len("mechanism="):]
            else:
                rest.append(p)
        if pid and mech:
            out[(pid, mech)] = " ".join(rest)
    return out


class Ctx:
    def __init__(self, prop_id: str, tier: str, seed: int, shard: Tuple[int, int] = (0, 1),
                 budget_s: Optional[float] = None):
        self.prop_id = prop_id
        self.tier = tier
        self.seed = seed
        self.shard = shard
        self.rng = random.Random(seed * 1000003 + 17)
        self.t0 = time.monotonic()
        self.budget_s = budget_s
        self.evaluations = 0
        self.distinct: set = set()
        self.samples: List[Any] = []
        self.sample_classes: set = set()
        self.counters: Dict[str, int] = {}
        self.violations: List[Dict[str, Any]] = []
        self.inconclusive: List[str] = []
        self.notes: List[str] = []
        self.exhaustive: Optional[bool] = None
        self.extra: Dict[str, Any] = {}
        self._case_index = 0
        self.caps_hit: List[str] = []
        self.backend = os.environ.get("VF_BACKEND")
        self.loglevel = os.environ.get("VF_LOGLEVEL")
        if self.loglevel == "debug":
            # the library under DEBUG logging (what `python -m chuk_mcp --verbose` sets up); records go nowhere
            import logging
            root = logging.getLogger()
            root.setLevel(logging.DEBUG)
            if not any(isinstance(h, logging.NullHandler) for h in root.handlers):
                root.addHandler(logging.NullHandler())
            # ... in a process started with warnings as errors (`python -W error`, pytest filterwarnings=error),
            # restricted to warnings attributed to the library's own modules so that third-party deprecations
            # cannot disturb the harness
            import warnings
            warnings.filterwarnings("error", module=r"chuk_mcp(\..*)?$")

    # -- sharding ---------------------------------------------------------
    def mine(self) -> bool:
        """Call once per enumerated case; True iff this shard executes it."""
        i = self._case_index
        self._case_index += 1
        return i % self.shard[1] == self.shard[0]

    def sub_rng(self, *key) -> random.Random:
        return random.Random(jhash([self.seed, list(key)]))

    # -- time -------------------------------------------------------------
    def elapsed(self) -> float:
        return time.monotonic() - self.t0

    def out_of_time(self, label: str = "") -> bool:
        if self.budget_s is not None and self.elapsed() > self.budget_s:
            tag = f"time budget {self.budget_s}s hit {label}".strip()
            if tag not in self.caps_hit:
                self.caps_hit.append(tag)
            return True
        return False

    # -- recording --------------------------------------------------------
    def count(self, name: str, n: int = 1) -> None:
        self.counters[name] = self.counters.get(name, 0) + n

    def record(self, case: Any, *, shape: Any = None, nontrivial: bool = True,
               cls: Optional[str] = None, sample: Any = None) -> None:
        """One executed case.  Distinctness = hash(case) + hash(observed shape)."""
        self.evaluations += 1
        if self.loglevel:
            self.count("loglevel:" + self.loglevel)
            case = {"loglevel": self.loglevel, "case": case}
        if self.backend:
            self.count("backend:" + self.backend)
            case = {"backend": self.backend, "case": case}
        if cls:
            self.count("class:" + cls)
        if nontrivial:
            self.distinct.add(jhash([jsonable(case), jsonable(shape)]))
        key = cls or "_"
        if key not in self.sample_classes and len(self.samples) < 24:
            self.sample_classes.add(key)
            self.samples.append(jsonable(sample if sample is not None else
                                         {"case": case, "observed": shape}))

    def violation(self, mechanism: str, message: str, case: Any, observed: Any = None) -> None:
        if self.backend:
            message = f"[{self.backend} backend] {message}"
        if self.loglevel == "debug":
            message = f"[DEBUG logging, warnings from chuk_mcp modules are errors] {message}"
        self.violations.append({
            "mechanism": mechanism,
            "message": message,
            "case": jsonable(case),
            "observed": jsonable(observed),
        })

    def inconclusive_because(self, reason: str) -> None:
        self.inconclusive.append(reason)

    def require_reached(self, counter: str, minimum: int = 1) -> None:
        if self.counters.get(counter, 0) < minimum:
            self.inconclusive_because(
                f"monitor '{counter}' reached {self.counters.get(counter, 0)} < {minimum} times")

    # -- shard result -----------------------------------------------------
    def dump(self) -> Dict[str, Any]:
        return {
            "evaluations": self.evaluations,
            "distinct": sorted(self.distinct),
            "samples": self.samples,
            "counters": self.counters,
            "violations": self.violations,
            "inconclusive": self.inconclusive,
            "notes": self.notes,
            "exhaustive": self.exhaustive,
            "extra": self.extra,
            "caps_hit": self.caps_hit,
            "wall_s": self.elapsed(),
        }


def _merge(parts: List[Dict[str, Any]]) -> Dict[str, Any]:
    out: Dict[str, Any] = {
        "evaluations": 0, "distinct": set(), "samples": [], "counters": {},
        "violations": [], "inconclusive": [], "notes": [], "exhaustive": None,
        "extra": {}, "caps_hit": [],
    }
    seen_samples = set()
    for p in parts:
        out["evaluations"] += p["evaluations"]
        out["distinct"].update(p["distinct"])
        for s in p["samples"]:
            h = jhash(s)
            if h not in seen_samples and len(out["samples"]) < 24:
                seen_samples.add(h)
                out["samples"].append(s)
        for k, v in p["counters"].items():
            out["counters"][k] = out["counters"].get(k, 0) + v
        out["violations"].extend(p["violations"])
        for r in p["inconclusive"]:
            if r not in out["inconclusive"]:
                out["inconclusive"].append(r)
        for r in p["notes"]:
            if r not in out["notes"]:
                out["notes"].append(r)
        for r in p["caps_hit"]:
            if r not in out["caps_hit"]:
                out["caps_hit"].append(r)
        if p["exhaustive"] is not None:
            out["exhaustive"] = (p["exhaustive"] if out["exhaustive"] is None
                                 else (out["exhaustive"] and p["exhaustive"]))
        for k, v in p["extra"].items():
            if isinstance(v, (int, float)) and isinstance(out["extra"].get(k), (int, float)):
                out["extra"][k] += v
            elif isinstance(v, list) and isinstance(out["extra"].get(k), list):
                for x in v:
                    if x not in out["extra"][k]:
                        out["extra"][k].append(x)
            elif isinstance(v, dict) and isinstance(out["extra"].get(k), dict):
                for kk, vv in v.items():
                    if isinstance(vv, (int, float)) and isinstance(out["extra"][k].get(kk), (int, float)):
                        out["extra"][k][kk] += vv
                    else:
                        out["extra"][k].setdefault(kk, vv)
            else:
                out["extra"].setdefault(k, v)
    return out


def load_module(prop_id: str):
    return importlib.import_module(f"vf.props.{prop_id.lower()}")


def child_env() -> Dict[str, str]:
    env = dict(os.environ)
    env["PYTHONHASHSEED"] = "0"
    env["PYTHONDONTWRITEBYTECODE"] = "1"
    pp = [ROOT, os.path.join(REPO, "src")]
    deps = os.path.join(ROOT, ".deps")
    if os.path.isdir(deps):
        pp.append(deps)
    env["PYTHONPATH"] = os.pathsep.join(pp)
    env["CHUK_MCP_VERIF"] = "1"
    return env


def run_shard_inproc(prop_id: str, tier: str, seed: int, shard: Tuple[int, int],
                     budget_s: Optional[float]) -> Dict[str, Any]:
    mod = load_module(prop_id)
    ctx = Ctx(prop_id, tier, seed, shard, budget_s)
    if ctx.backend:
        # the deciding monitor must really run under the backend it claims
        from chuk_mcp.protocol import mcp_pydantic_base as _B
        if _B.PYDANTIC_AVAILABLE != (ctx.backend == "pydantic"):
            ctx.inconclusive_because(f"backend selection not effective: VF_BACKEND={ctx.backend} but "
                                     f"PYDANTIC_AVAILABLE={_B.PYDANTIC_AVAILABLE}")
            return ctx.dump()
    try:
        mod.run(ctx)
    except Exception:
        ctx.inconclusive_because("harness error: " + traceback.format_exc()[-1500:])
    # secondary monitor (all virtual-loop workloads): nothing may reach the loop's exception handler
    try:
        from vf import vloop
        import gc
        gc.collect()   # "Task was destroyed but it is pending" is reported at collection time
        evs = [e for e in vloop.LOOP_EVENTS if "vf-" not in e]
        ctx.count("loop_exception_handler_events", len(evs))
        if evs and getattr(mod, "LOOP_EVENTS_ARE_VIOLATIONS", True):
            kinds = sorted({e.split(":")[0][:80] for e in evs})
            ctx.violation("unhandled_task_exception", f"{len(evs)} event(s) reached the event loop's exception handler "
                          f"(never-retrieved task exceptions / pending tasks destroyed): {kinds[:4]}; first: {evs[0]}",
                          {"loop_events": evs[:5]})
    except Exception:
        pass
    return ctx.dump()


def main(argv: Optional[List[str]] = None) -> int:
    import argparse

    ap = argparse.ArgumentParser()
    ap.add_argument("prop")
    ap.add_argument("--tier", default=os.environ.get("VERIF_TIER", "quick"),
                    choices=["quick", "thorough"])
    ap.add_argument("--seed", type=int, default=int(os.environ.get("VERIF_SEED", "0") or 0))
    ap.add_argument("--replay")
    ap.add_argument("--shard")          # internal: i/n
    ap.add_argument("--shard-out")      # internal
    ap.add_argument("--budget", type=float)
    ap.add_argument("--no-evidence", action="store_true")
    args = ap.parse_args(argv)

    prop_id = args.prop.upper()
    mod = load_module(prop_id)
    budgets = getattr(mod, "BUDGET_S", {"quick": 120.0, "thorough": 900.0})
    budget = args.budget if args.budget is not None else budgets.get(args.tier)

    if args.replay:
        case = json.load(open(args.replay, encoding="utf-8"))
        ctx = Ctx(prop_id, args.tier, case.get("seed", args.seed))
        mod.replay(ctx, case["case"])
        return _finish(prop_id, args.tier, args.seed, mod, ctx.dump(), time.monotonic(),
                       write_evidence=False)

    if args.shard:
        i, n = map(int, args.shard.split("/"))
        res = run_shard_inproc(prop_id, args.tier, args.seed, (i, n), budget)
        with open(args.shard_out, "w", encoding="utf-8") as f:
            json.dump(res, f)
        return 0

    t0 = time.monotonic()
    import shutil as _sh
    _sh.rmtree(os.path.join(ROOT, "out", "replays", prop_id), ignore_errors=True)
    nshards = getattr(mod, "SHARDS", {}).get(args.tier, 1)
    backends = getattr(mod, "BACKENDS", None)   # e.g. ["pydantic", "fallback"]: every case runs under each
    if nshards <= 1 and not backends and not getattr(mod, "LOGLEVELS", None):
        merged = _merge([run_shard_inproc(prop_id, args.tier, args.seed, (0, 1), budget)])
    else:
        tmp = tempfile.mkdtemp(prefix=f"vf_{prop_id}_")
        procs = []
        try:
            loglevels = getattr(mod, "LOGLEVELS", None) or [None]   # e.g. ["default", "debug"]
            for b, ll in [(b, ll) for b in (backends or [None]) for ll in loglevels]:
                for i in range(max(1, nshards)):
                    outp = os.path.join(tmp, f"shard{b}_{ll}_{i}.json")
                    cmd = [PY, "-B", "-m", "vf.core", prop_id, "--tier", args.tier, "--seed",
                           str(args.seed), "--shard", f"{i}/{max(1, nshards)}", "--shard-out", outp]
                    if budget is not None:
                        cmd += ["--budget", str(budget)]
                    env = child_env()
                    env.pop("MCP_FORCE_FALLBACK", None)
                    if b == "fallback":
                        env["MCP_FORCE_FALLBACK"] = "1"
                    if b:
                        env["VF_BACKEND"] = b
                    if ll:
                        env["VF_LOGLEVEL"] = ll
                    procs.append((f"{b or ''}{ll or ''}{i}", outp, subprocess.Popen(cmd, env=env, cwd=ROOT,
                                                                         stdout=subprocess.DEVNULL,
                                                                         stderr=subprocess.PIPE)))
            parts = []
            watchdog = (budget or 900.0) * 3 + 120
            for i, outp, p in procs:
                try:
                    _, err = p.communicate(timeout=max(5.0, watchdog - (time.monotonic() - t0)))
                except subprocess.TimeoutExpired:
                    p.kill()
                    p.communicate()
                    parts.append({**Ctx(prop_id, args.tier, args.seed).dump(),
                                  "inconclusive": [f"shard {i} watchdog fired"]})
                    continue
                if p.returncode != 0 or not os.path.exists(outp):
                    parts.append({**Ctx(prop_id, args.tier, args.seed).dump(),
                                  "inconclusive": [f"shard {i} failed rc={p.returncode}: "
                                                   + (err or b"").decode(errors="replace")[-800:]]})
                    continue
                parts.append(json.load(open(outp, encoding="utf-8")))
            merged = _merge(parts)
        finally:
            import shutil
            shutil.rmtree(tmp, ignore_errors=True)
    return _finish(prop_id, args.tier, args.seed, mod, merged, t0,
                   write_evidence=not args.no_evidence)


def _finish(prop_id: str, tier: str, seed: int, mod, merged: Dict[str, Any], t0: float,
            write_evidence: bool) -> int:
    known = load_known()
    new_viol: List[Dict[str, Any]] = []
    known_hits: Dict[str, int] = {}
    for v in merged["violations"]:
        if (prop_id, v["mechanism"]) in known:
            known_hits[v["mechanism"]] = known_hits.get(v["mechanism"], 0) + 1
        else:
            new_viol.append(v)

    wall = time.monotonic() - t0
    distinct_n = len(merged["distinct"])
    coverage: Dict[str, Any] = {
        "evaluations": merged["evaluations"],
        "distinct_nontrivial": distinct_n,
        "rule": getattr(mod, "RULE", ""),
        "samples": merged["samples"][:24],
        "monitor_counters": merged["counters"],
    }
    if merged["exhaustive"] is not None:
        coverage["exhaustive"] = bool(merged["exhaustive"]) and not merged["caps_hit"]
    if merged["caps_hit"]:
        coverage["caps_hit"] = merged["caps_hit"]
    if merged["notes"]:
        coverage["notes"] = merged["notes"]
    for k, v in merged["extra"].items():
        coverage[k] = v
    if known_hits:
        coverage["known_findings_observed"] = known_hits
    if merged["inconclusive"]:
        coverage["inconclusive"] = merged["inconclusive"]

    replay_paths: List[str] = []
    if new_viol:
        rdir = os.path.join(ROOT, "out", "replays", prop_id)
        os.makedirs(rdir, exist_ok=True)
        by_mech: Dict[str, int] = {}
        for v in new_viol:
            by_mech[v["mechanism"]] = by_mech.get(v["mechanism"], 0) + 1
            if by_mech[v["mechanism"]] > 5:
                continue  # keep the first few witnesses per mechanism
            path = os.path.join(rdir, f"{v['mechanism']}_{jhash(v['case'])}.json")
            with open(path, "w", encoding="utf-8") as f:
                json.dump({"property": prop_id, "seed": seed, "tier": tier, **v}, f, indent=1)
            replay_paths.append(path)
        coverage["violation_mechanisms"] = by_mech

    evidence = {
        "property_id": prop_id,
        "tier": tier,
        "seed": seed,
        "level": getattr(mod, "LEVEL", "exploration"),
        "coverage": coverage,
        "assumptions": getattr(mod, "ASSUMPTIONS", []),
        "wall_s": round(wall, 3),
        "violations": len(new_viol),
    }
    if write_evidence:
        edir = os.path.join(ROOT, "evidence")
        os.makedirs(edir, exist_ok=True)
        with open(os.path.join(edir, f"{prop_id}.json"), "w", encoding="utf-8") as f:
            json.dump(evidence, f, indent=1, ensure_ascii=True)
            f.write("\n")

    for mech, n in sorted(known_hits.items()):
        print(f"KNOWN-FINDING: property={prop_id} mechanism={mech} observed={n} "
              f"{known[(prop_id, mech)]}")
    print(f"[{prop_id}] tier={tier} seed={seed} evaluations={merged['evaluations']} "
          f"distinct_nontrivial={distinct_n} wall={wall:.1f}s "
          f"counters={json.dumps(merged['counters'], sort_keys=True)[:600]}")
    if new_viol:
        shown = set()
        for v, pth in zip([v for v in new_viol], replay_paths + [replay_paths[-1]] * len(new_viol)):
            if v["mechanism"] in shown:
                continue
            shown.add(v["mechanism"])
            print(f"  violation mechanism={v['mechanism']}: {v['message'][:400]}")
        for pth in replay_paths:
            print(f"VIOLATION property={prop_id} replay={pth}")
        return 1
    if merged["inconclusive"]:
        for r in merged["inconclusive"]:
            print(f"INCONCLUSIVE property={prop_id} reason={r[:1000]}")
        return 2
    if merged["evaluations"] == 0 or distinct_n < 2:
        print(f"INCONCLUSIVE property={prop_id} reason=too few cases observed")
        return 2
    print(f"HELD property={prop_id} on {merged['evaluations']} executions "
          f"({distinct_n} distinct non-trivial)")
    return 0


if __name__ == "__main__":
    sys.exit(main())
