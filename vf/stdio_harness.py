"""Drive the real StdioClient against a ScriptedProcess under the virtual loop."""
from __future__ import annotations

import asyncio
from typing import Any, Callable, Dict, List, Optional

import anyio

from vf.recorders import OpenProcessPatch, ScriptedProcess
from vf.vloop import run_virtual


async def settle():
    """Run until quiescent: virtual time only advances when nothing is ready."""
    await asyncio.sleep(0.001)


def run_stdio_script(steps: List[Any], *, chunks: Optional[List[Any]] = None,
                     reactive: Optional[Callable[[ScriptedProcess, bytes], None]] = None,
                     use: str = "stdio_client", env: Optional[Dict[str, str]] = None,
                     init_kwargs: Optional[Dict[str, Any]] = None,
                     tie_seed: Optional[int] = None, drain_notifications: bool = True,
                     stdin_delay: float = 0.0) -> Dict[str, Any]:
    """steps: list of
        ("feed", chunk)            give the child's stdout one more chunk
        ("version", v)             client.set_protocol_version(v)
        ("send", obj)              write obj on the write stream
        ("settle",)                run until quiescent
        ("eof",)                   child's stdout ends
        ("close_write",)           close the write stream
    Returns the transcript: read items, notification items, stdin bytes, events, reader liveness.
    """
    import importlib
    SC = importlib.import_module("chuk_mcp.transports.stdio.stdio_client")
    from chuk_mcp.transports.stdio.parameters import StdioParameters

    out: Dict[str, Any] = {"read": [], "notes": [], "errors": []}

    def factory(command, **kw):
        p = ScriptedProcess(list(chunks or []), hold_open=True)
        p.stdin_delay = stdin_delay
        if reactive is not None:
            orig_send = p.stdin.send

            async def send(data, _orig=orig_send, _p=p):
                await _orig(data)
                reactive(_p, data)
            p.stdin.send = send
        return p

    async def main():
        with OpenProcessPatch(factory) as patch:
            params = StdioParameters(command="scripted-child", args=["--x"], env=env)
            client = SC.StdioClient(params)
            out["client"] = client
            async with client:
                proc = patch.spawned[0]
                out["proc"] = proc
                read, write = client.get_streams()

                async def drain(stream, sink):
                    try:
                        async for m in stream:
                            sink.append(m)
                    except (anyio.ClosedResourceError, anyio.EndOfStream, anyio.BrokenResourceError):
                        pass

                d1 = asyncio.create_task(drain(read, out["read"]), name="drain-read")
                # stdio_client() only hands out the main streams: a caller that never looks at
                # client.notifications is the normal case (drain_notifications=False)
                d2 = (asyncio.create_task(drain(client.notifications, out["notes"]), name="drain-notes")
                      if drain_notifications else asyncio.create_task(asyncio.sleep(0), name="vf-noop"))
                await settle()
                for st in steps:
                    op = st[0]
                    if op == "feed":
                        proc.feed(st[1])
                    elif op == "version":
                        client.set_protocol_version(st[1])
                    elif op == "send":
                        await write.send(st[1])
                    elif op == "settle":
                        await settle()
                    elif op == "wait":
                        await asyncio.sleep(st[1])
                    elif op == "register_stream":
                        # the per-request routing API: a one-shot stream for this id (nobody needs to read it)
                        out.setdefault("request_streams", {})[st[1]] = client.new_request_stream(st[1])
                    elif op == "pause_reading":
                        # the application stops consuming the read stream for a while
                        d1.cancel()
                        await settle()
                    elif op == "resume_reading":
                        d1 = asyncio.create_task(drain(read, out["read"]), name="drain-read")
                        await settle()
                    elif op == "eof":
                        proc.finish_stdout()
                    elif op == "child_exits":
                        # the child has exited (its status is known to the process object) while output it wrote before
                        # exiting is still unread in the pipe; end of output follows the data
                        proc.returncode = st[1] if len(st) > 1 else 0
                        proc.finish_stdout()
                    elif op == "close_write":
                        await write.aclose()
                    elif op == "init":
                        from chuk_mcp.protocol.messages.initialize.send_messages import (
                            send_initialize_with_client_tracking)
                        d1.cancel()
                        await settle()
                        try:
                            out["init"] = await send_initialize_with_client_tracking(
                                read, write, client, **(st[1] or {}))
                        except BaseException as e:  # noqa
                            out["init_error"] = e
                        d1 = asyncio.create_task(drain(read, out["read"]), name="drain-read")
                    else:
                        raise ValueError(op)
                await settle()
                # reader liveness: feed a sentinel line and see whether it comes out
                sentinel = {"jsonrpc": "2.0", "method": "notifications/vf-sentinel"}
                import json
                n_before = len(out["read"])
                n_notes_before = len(out["notes"])
                proc.feed((json.dumps(sentinel) + "\n").encode())
                await settle()
                out["reader_alive"] = any(getattr(m, "method", None) == "notifications/vf-sentinel"
                                          for m in out["read"][n_before:])
                # anything that only appears once *more* data arrives was withheld: a terminated line must be
                # delivered when its terminator has been read, not when the next read happens
                out["late"] = [m for m in out["read"][n_before:]
                               if getattr(m, "method", None) != "notifications/vf-sentinel"]
                out["read"] = out["read"][:n_before]
                out["notes"] = out["notes"][:n_notes_before]
                out["batching_info"] = client.get_batching_info()
                out["stdin_before_exit"] = proc.stdin_bytes()
                out["proc_events_before_exit"] = list(proc.events)
                d1.cancel()
                d2.cancel()
            out["stdin"] = patch.spawned[0].stdin_bytes()
            out["proc_events"] = list(patch.spawned[0].events)
        return out

    res, loop = run_virtual(main, tie_seed=tie_seed, max_iterations=3_000_000)
    res["iterations"] = loop.iterations
    return res




def run_multi_stdio(script: List[Any], *, tie_seed: Optional[int] = None) -> Dict[str, Any]:
    """Several StdioClient objects in one process / one loop, alive at the same time or one after the other,
    each owned by its own task (as independent sessions of an application would be).
    script ops: ("open", name) ("feed", name, chunk) ("send", name, obj) ("version", name, v) ("settle",) ("close", name).
    Returns {name: {"read": [...], "notes": [...], "stdin": bytes}}."""
    import importlib
    SC = importlib.import_module("chuk_mcp.transports.stdio.stdio_client")
    from chuk_mcp.transports.stdio.parameters import StdioParameters

    out: Dict[str, Any] = {}

    async def drain(stream, sink):
        try:
            async for m in stream:
                sink.append(m)
        except (anyio.ClosedResourceError, anyio.EndOfStream, anyio.BrokenResourceError):
            pass

    async def owner(name, q, ready):
        rec = {"read": [], "notes": [], "stdin": b""}
        out[name] = rec
        holder = {}

        def factory(command, **kw):
            holder["proc"] = ScriptedProcess([], hold_open=True)
            return holder["proc"]
        try:
            with OpenProcessPatch(factory):
                client = SC.StdioClient(StdioParameters(command=f"scripted-{name}", args=[], env=None))
                cm = client.__aenter__()
                await cm
            proc = holder["proc"]
            try:
                read, write = client.get_streams()
                tasks = [asyncio.create_task(drain(read, rec["read"])),
                         asyncio.create_task(drain(client.notifications, rec["notes"]))]
                ready.set()
                while True:
                    op, arg, ack = await q.get()
                    if op == "feed":
                        proc.feed(arg)
                    elif op == "send":
                        await write.send(arg)
                    elif op == "version":
                        client.set_protocol_version(arg)
                    elif op == "close":
                        await settle()
                        for t in tasks:
                            t.cancel()
                        rec["stdin"] = proc.stdin_bytes()
                        ack.set()
                        break
                    ack.set()
            finally:
                await client.__aexit__(None, None, None)
        except BaseException as e:  # noqa
            rec["owner_error"] = repr(e)
            ready.set()
            raise

    async def main():
        live: Dict[str, Any] = {}

        async def tell(name, op, arg=None):
            ack = asyncio.Event()
            live[name][0].put_nowait((op, arg, ack))
            await ack.wait()

        for st in script:
            op = st[0]
            if op == "open":
                q: asyncio.Queue = asyncio.Queue()
                ready = asyncio.Event()
                t = asyncio.create_task(owner(st[1], q, ready), name=f"owner-{st[1]}")
                live[st[1]] = (q, t)
                await ready.wait()
                await settle()
            elif op in ("feed", "send", "version"):
                await tell(st[1], op, st[2])
            elif op == "settle":
                await settle()
            elif op == "close":
                await tell(st[1], "close")
                await live.pop(st[1])[1]
            else:
                raise ValueError(op)
        await settle()
        for name in list(live):
            await tell(name, "close")
            await live.pop(name)[1]
        return out

    res, loop = run_virtual(main, tie_seed=tie_seed, max_iterations=3_000_000)
    return res
