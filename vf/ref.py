"""Independent reference pieces: JSON-RPC 2.0 validator, type-strict equality,
message normalisation, WHATWG SSE parser.  Nothing here imports chuk_mcp."""
from __future__ import annotations

import json
import math
from typing import Any, Dict, List, Optional, Tuple


# --------------------------------------------------------------------------
# type-strict JSON value comparison
# --------------------------------------------------------------------------
class _TooDeep(Exception):
    pass


_DEEP = 150


def tagged(v: Any) -> Any:
    """Canonical type-tagged form: 1 != 1.0 != True, -0.0 != 0.0, dict order ignored.
    Values nested deeper than _DEEP levels get a flat (iteratively built) canonical form instead, so that
    neither building nor comparing them recurses; which form is used depends on the value alone."""
    try:
        return _tagged(v, 0)
    except _TooDeep:
        return ("deep", _flat(v))


def _tagged(v: Any, d: int) -> Any:
    if v is None:
        return ("null",)
    if isinstance(v, bool):
        return ("bool", v)
    if isinstance(v, int):
        return ("int", v)
    if isinstance(v, float):
        if v != v:
            return ("float", "nan")
        return ("float", repr(v))
    if isinstance(v, str):
        return ("str", v)
    if d > _DEEP:
        raise _TooDeep
    if isinstance(v, (list, tuple)):
        return ("list", tuple(_tagged(x, d + 1) for x in v))
    if isinstance(v, dict):
        return ("dict", tuple(sorted(((str(k), _tagged(x, d + 1)) for k, x in v.items()))))
    return ("other", type(v).__name__, repr(v))


def _flat(v: Any) -> Tuple:
    out: List[Any] = []
    stack: List[Any] = [("v", v)]
    while stack:
        kind, x = stack.pop()
        if kind == "t":
            out.append(x)
            continue
        if isinstance(x, (list, tuple)):
            out.append(("[", len(x)))
            stack.append(("t", ("]",)))
            for item in reversed(x):
                stack.append(("v", item))
        elif isinstance(x, dict):
            keys = sorted(x, key=str)
            out.append(("{", len(keys)))
            stack.append(("t", ("}",)))
            for k in reversed(keys):
                stack.append(("v", x[k]))
                stack.append(("t", ("key", str(k))))
        elif x is None or isinstance(x, (bool, int, float, str)):
            out.append(_tagged(x, 0))
        else:
            out.append(("other", type(x).__name__))
    return tuple(out)


def strict_eq(a: Any, b: Any) -> bool:
    return tagged(a) == tagged(b)


def num_eq(a: Any, b: Any) -> bool:
    """Like strict_eq but an int and a float of equal value are the same number
    (used where a model declares a float field and the wire carried an int)."""
    if isinstance(a, bool) or isinstance(b, bool):
        return isinstance(a, bool) and isinstance(b, bool) and a == b
    if isinstance(a, (int, float)) and isinstance(b, (int, float)):
        return a == b
    if isinstance(a, dict) and isinstance(b, dict):
        return a.keys() == b.keys() and all(num_eq(a[k], b[k]) for k in a)
    if isinstance(a, (list, tuple)) and isinstance(b, (list, tuple)):
        return len(a) == len(b) and all(num_eq(x, y) for x, y in zip(a, b))
    return strict_eq(a, b)


# --------------------------------------------------------------------------
# JSON-RPC 2.0 validator
# --------------------------------------------------------------------------
def _valid_id(v: Any) -> bool:
    return (isinstance(v, str) or (isinstance(v, int) and not isinstance(v, bool)))


def classify(obj: Any, allow_null_id_error: bool = False) -> Tuple[Optional[str], str]:
    """Return (kind, reason).  kind in request/notification/response/error or None."""
    if not isinstance(obj, dict):
        return None, "not an object"
    if obj.get("jsonrpc") != "2.0":
        return None, f"jsonrpc member is {obj.get('jsonrpc')!r}"
    has_id = "id" in obj
    if "method" in obj:
        if not isinstance(obj["method"], str):
            return None, "method is not a string"
        if "result" in obj or "error" in obj:
            return None, "request/notification carries result/error"
        if "params" in obj and not isinstance(obj["params"], (dict, list)):
            return None, "params is not structured"
        if has_id:
            if not _valid_id(obj["id"]):
                return None, f"request id {obj['id']!r} is not a string or integer"
            return "request", ""
        return "notification", ""
    # response
    has_r, has_e = "result" in obj, "error" in obj
    if has_r == has_e:
        return None, "response must carry exactly one of result/error"
    if not has_id:
        return None, "response without id"
    if has_e:
        err = obj["error"]
        if not isinstance(err, dict):
            return None, "error is not an object"
        code = err.get("code")
        if not isinstance(code, int) or isinstance(code, bool):
            return None, f"error.code {code!r} is not an integer"
        if not isinstance(err.get("message"), str):
            return None, "error.message is not a string"
        if obj["id"] is None:
            if allow_null_id_error:
                return "error", ""
            return None, "error response with null id"
        if not _valid_id(obj["id"]):
            return None, "error id invalid"
        return "error", ""
    if not _valid_id(obj["id"]):
        return None, f"response id {obj['id']!r} invalid"
    return "response", ""


def norm_wire(obj: Dict[str, Any]) -> Dict[str, Any]:
    """Normalised view of a wire dict for transcript comparison."""
    kind, _ = classify(obj, allow_null_id_error=True)
    return {
        "kind": kind,
        "id": tagged(obj.get("id")) if "id" in obj else None,
        "method": obj.get("method"),
        "params": tagged(obj.get("params")) if "params" in obj else None,
        "result": tagged(obj.get("result")) if "result" in obj else None,
        "error": tagged(obj.get("error")) if "error" in obj else None,
    }


def msg_to_wire(msg: Any) -> Any:
    """Library message object -> wire dict the way transports serialise (exclude_none)."""
    if isinstance(msg, list):
        return [msg_to_wire(m) for m in msg]
    if isinstance(msg, dict):
        return msg
    if hasattr(msg, "model_dump"):
        return msg.model_dump(exclude_none=True)
    raise TypeError(f"cannot convert {type(msg)}")


# --------------------------------------------------------------------------
# WHATWG server-sent-events reference parser
# --------------------------------------------------------------------------
def sse_events(text: str) -> List[Dict[str, str]]:
    """Parse an event stream per the HTML spec (9.2.6).  Returns dispatched events
    as {"event": type, "data": data}.  Lines end with CRLF, LF or CR."""
    if text.startswith("﻿"):
        text = text[1:]
    lines: List[str] = []
    cur = []
    i = 0
    n = len(text)
    while i < n:
        ch = text[i]
        if ch == "\r":
            lines.append("".join(cur)); cur = []
            if i + 1 < n and text[i + 1] == "\n":
                i += 1
        elif ch == "\n":
            lines.append("".join(cur)); cur = []
        else:
            cur.append(ch)
        i += 1
    # an unterminated last line is discarded together with its pending event
    events: List[Dict[str, str]] = []
    data: List[str] = []
    etype = ""
    have_data = False
    for line in lines:
        if line == "":
            if have_data:
                events.append({"event": etype or "message", "data": "\n".join(data)})
            data, etype, have_data = [], "", False
            continue
        if line.startswith(":"):
            continue
        if ":" in line:
            field, value = line.split(":", 1)
            if value.startswith(" "):
                value = value[1:]
        else:
            field, value = line, ""
        if field == "event":
            etype = value
        elif field == "data":
            data.append(value); have_data = True
        # id / retry / others ignored
    return events


def sse_jsonrpc_messages(text: str) -> List[Any]:
    """JSON-RPC messages carried by 'message' events of an SSE body."""
    out = []
    for ev in sse_events(text):
        if ev["event"] != "message":
            continue
        try:
            obj = json.loads(ev["data"])
        except Exception:
            continue
        out.append(obj)
    return out


# --------------------------------------------------------------------------
# inbound acceptance classes
# --------------------------------------------------------------------------
def inbound_class(obj: Any) -> str:
    """'valid'   - a well-formed JSON-RPC 2.0 message: must be delivered
       'lenient' - structurally a request/notification/response but with a missing or
                   non-"2.0" jsonrpc member: the statement does not say whether the library may
                   tolerate these (its own tests pin that it does), so either outcome is accepted
       'invalid' - everything else: must never be delivered"""
    if classify(obj)[0] is not None:
        return "valid"
    if isinstance(obj, dict) and obj.get("jsonrpc", "2.0") != "2.0" or \
            (isinstance(obj, dict) and "jsonrpc" not in obj):
        probe = dict(obj)
        probe["jsonrpc"] = "2.0"
        if classify(probe)[0] is not None:
            return "lenient"
    return "invalid"


def seq_match(got: List[Any], items: List[Tuple[Any, bool]], eq=None) -> Tuple[bool, str]:
    """got must equal `items` with every required item present, optional ones present or not,
    in order.  items: (value, required)."""
    eq = eq or (lambda a, b: a == b)
    p = 0
    for val, required in items:
        if p < len(got) and eq(got[p], val):
            p += 1
        elif required:
            return False, f"missing or out of order: {val!r} (next delivered: {got[p] if p < len(got) else None!r})"
    if p != len(got):
        return False, f"unexpected delivery: {got[p]!r}"
    return True, ""


def norm_any(m: Any) -> Any:
    """Normalised (kind, id, method, params, result, error) of a library message object or a wire
    dict; absent and null members are identified (result:null responses stay responses)."""
    if isinstance(m, list):
        return ("list", tuple(norm_any(x) for x in m))
    if isinstance(m, dict):
        g = m.get
    else:
        def g(k, _m=m):
            return getattr(_m, k, None)
    mid, method, params, result, error = g("id"), g("method"), g("params"), g("result"), g("error")
    if method is not None:
        kind = "request" if mid is not None else "notification"
    elif error is not None:
        kind = "error"
    else:
        kind = "response"
    return (kind, tagged(mid), method, tagged(params), tagged(result), tagged(error))
