"""Shared generators: JSON values (bounded-exhaustive grammar + seeded deep), ids."""
from __future__ import annotations

import random
from typing import Any, Dict, List

ATOMS: List[Any] = [
    None, True, False, 0, -1, 1, 2**53 + 1, 2**63 - 1, 2**63, 2**64 - 1, -2**63, -(2**53) - 1,
    1.5, -0.0, 0.0, 1e308, 5e-324, 2.2250738585072014e-308, 1e-7, 123456789.123456789, -1.7976931348623157e308,
    "", "a", "\n", "\r", "\r\n", "\u0000", "\u001f", "\u007f", "\u0085", "\u2028", "\u2029", " ", "\t",
    "\u00e9", "\u20ac", "\U0001f600", "\"\\", "\ud7ff", "\ue000", "\ufffe", "\uffff", "\U0010ffff", "a\nb",
    "</script>", "\\n", "\ufeff", "null", "None", "NaN", "Infinity", "undefined", "true",
    # text that a normalisation step (NFC/NFKC, case folding, strip) would change
    "e\u0301", "\u212b", "\ufb01", "\u0130", "\u00df", " padded ", "MiXeD", "\u1e9e",
]
# members named like the envelope's own members / like attributes of the model classes
COLLIDERS: List[Any] = [
    {"id": 5, "method": "m", "jsonrpc": "1.0", "result": 1, "error": {"code": 1, "message": "x"}, "params": [1]},
    {"_meta": {"progressToken": "t"}, "meta": 1, "schema": 2, "schema_": 3},
    {"__class__": "x", "__dict__": {}, "model_config": 1, "model_fields": 2, "self": None, "cls": None},
]
SMALL_ATOMS: List[Any] = [None, True, 0, 2**63, 1.5, "", "\n", "\u2028", "\U0001f600"]
KEYS = ["k", "", "\u00e9\n", "\u2028\U0001f600"]

C0 = [chr(i) for i in range(0x20)]


def grammar(depth: int) -> List[Any]:
    """Bounded-exhaustive value set V_depth (see DESIGN 1.3)."""
    v0 = list(ATOMS)
    if depth <= 0:
        return v0
    v1 = list(v0) + [[], {}]
    v1 += [[a] for a in v0]
    v1 += [{k: a} for a in v0 for k in KEYS[:3]]
    v1 += [[a, b] for a in SMALL_ATOMS for b in SMALL_ATOMS]
    v1 += [dict(c) for c in COLLIDERS] + [[dict(c)] for c in COLLIDERS] + [{"k": dict(c)} for c in COLLIDERS]
    v1 += [{"x": a, "é": b} for a in SMALL_ATOMS[:4] for b in SMALL_ATOMS[:4]]
    cur = v1
    for _ in range(depth - 1):
        nxt = list(cur)
        nxt += [[x] for x in cur]
        nxt += [{"k": x} for x in cur]
        cur = nxt
    return cur


def rand_string(rng: random.Random) -> str:
    pools = [
        lambda: chr(rng.randint(0x20, 0x7e)),
        lambda: rng.choice(C0),
        lambda: rng.choice(["\u0085", "\u2028", "\u2029", "\u007f", "\u00a0", "\ufeff"]),
        lambda: chr(rng.randint(0xa0, 0x7ff)),
        lambda: chr(rng.choice([rng.randint(0x800, 0xd7ff), rng.randint(0xe000, 0xffff)])),
        lambda: chr(rng.randint(0x10000, 0x10ffff)),
        lambda: rng.choice(['"', "\\", "/", "\\u0041", "\\n"]),
    ]
    n = rng.choice([0, 1, 1, 2, 3, 5, 8, 13, 40])
    return "".join(rng.choice(pools)() for _ in range(n))


def rand_int(rng: random.Random) -> int:
    c = rng.random()
    if c < 0.3:
        return rng.randint(-1000, 1000)
    if c < 0.5:
        return rng.choice([2**31, 2**32, 2**53, 2**63, 2**64]) + rng.randint(-2, 1) - (1 if c < 0.35 else 0)
    if c < 0.75:
        return rng.randint(-2**63, 2**64 - 1)
    return rng.choice([-1, 1]) * rng.randint(2**52, 2**63 - 1)


def clamp64(i: int) -> int:
    return max(-2**63, min(2**64 - 1, i))


def rand_float(rng: random.Random) -> float:
    import struct
    c = rng.random()
    if c < 0.3:
        return rng.uniform(-1e6, 1e6)
    if c < 0.5:
        return rng.choice([-0.0, 0.0, 5e-324, 1e308, -1e308, 2.2250738585072014e-308, 1.7976931348623157e308, 0.1, 1e21, 1e-7])
    while True:
        bits = rng.getrandbits(64)
        f = struct.unpack("<d", struct.pack("<Q", bits))[0]
        if f == f and f not in (float("inf"), float("-inf")):
            return f


def rand_json(rng: random.Random, depth: int = 4, allow_float: bool = True) -> Any:
    c = rng.random()
    if depth <= 0 or c < 0.35:
        k = rng.random()
        if k < 0.1:
            return None
        if k < 0.2:
            return rng.choice([True, False])
        if k < 0.45:
            return clamp64(rand_int(rng))
        if k < 0.6 and allow_float:
            return rand_float(rng)
        return rand_string(rng)
    if c < 0.65:
        return [rand_json(rng, depth - 1, allow_float) for _ in range(rng.choice([0, 1, 2, 3, 5]))]
    if c < 0.69:
        return dict(rng.choice(COLLIDERS))
    return {rand_string(rng): rand_json(rng, depth - 1, allow_float) for _ in range(rng.choice([0, 1, 2, 3, 5]))}


def rand_json_object(rng: random.Random, depth: int = 3) -> Dict[str, Any]:
    return {rand_string(rng) or "k": rand_json(rng, depth) for _ in range(rng.choice([0, 1, 2, 4]))}


def nest(value: Any, depth: int, rng: random.Random) -> Any:
    for _ in range(depth):
        value = [value] if rng.random() < 0.5 else {rand_string(rng): value}
    return value


INT_IDS = [0, -1, 1, 2**53, 2**53 + 1, 2**63 - 1, 2**63, 2**64 - 1, -2**63]
STR_IDS = ["", "0", "123", "007", "-5", "550e8400-e29b-41d4-a716-446655440000", "a b", "\u00fcn\u00ef-\U0001f600", "null", "1.0", "\n"]
ALL_IDS = INT_IDS + STR_IDS
