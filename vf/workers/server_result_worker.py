"""Worker for C10 (part C): what the server handler puts on the wire for typed objects it was given.
argv: <in.pkl> <out.pkl>; backend selected by MCP_FORCE_FALLBACK in the environment."""
import asyncio
import pickle
import sys

from chuk_mcp.protocol import mcp_pydantic_base as B
from chuk_mcp.protocol.messages.json_rpc_message import parse_message
from chuk_mcp.protocol.types.capabilities import ServerCapabilities
from chuk_mcp.protocol.types.info import ServerInfo
from chuk_mcp.server.protocol_handler import ProtocolHandler
from chuk_mcp.server.server import MCPServer

data = pickle.load(open(sys.argv[1], "rb"))
out = {"pydantic_available": B.PYDANTIC_AVAILABLE, "init": [], "tools": [], "resources": []}


def wire(resp):
    return resp.model_dump(by_alias=True, exclude_none=True) if resp is not None else None


async def main():
    for caps_wire, info_wire in data["init"]:
        try:
            caps = ServerCapabilities.model_validate(caps_wire)
            info = ServerInfo.model_validate(info_wire)
            h = ProtocolHandler(info, caps)
            resp, _sid = await h.handle_message(parse_message({
                "jsonrpc": "2.0", "id": 1, "method": "initialize",
                "params": {"protocolVersion": "2025-06-18", "clientInfo": {"name": "c", "version": "1"}, "capabilities": {}}}))
            out["init"].append(("ok", wire(resp)))
        except BaseException as e:  # noqa
            out["init"].append(("err", repr(e)[:200]))
    # a server configured through the typed attributes (as application code does), every declared capability switched on
    try:
        import inspect
        import typing
        kwargs = {}
        for fname, ann in typing.get_type_hints(ServerCapabilities).items():
            if fname.startswith("_") or fname == "model_config":
                continue
            for a in (typing.get_args(ann) or (ann,)):
                if inspect.isclass(a) and issubclass(a, B.McpPydanticBase):
                    kwargs[fname] = a()
        h = ProtocolHandler(ServerInfo(name="typed", version="1"), ServerCapabilities(**kwargs))
        resp, _sid = await h.handle_message(parse_message({
            "jsonrpc": "2.0", "id": 9, "method": "initialize",
            "params": {"protocolVersion": "2025-06-18", "clientInfo": {"name": "c", "version": "1"}, "capabilities": {}}}))
        out["init_typed"] = ("ok", sorted(kwargs), wire(resp), resp.model_dump_json(exclude_none=True))
    except BaseException as e:  # noqa
        out["init_typed"] = ("err", repr(e)[:200])
    for tools in data["tools"]:
        try:
            srv = MCPServer("s", "1")

            async def fn(**kw):
                return "x"
            for t in tools:
                srv.register_tool(t["name"], fn, t["schema"], t["description"])
            resp, _ = await srv.protocol_handler.handle_message(parse_message({"jsonrpc": "2.0", "id": 2, "method": "tools/list"}))
            out["tools"].append(("ok", wire(resp)))
        except BaseException as e:  # noqa
            out["tools"].append(("err", repr(e)[:200]))
    for ress in data["resources"]:
        try:
            srv = MCPServer("s", "1")

            async def rd():
                return "x"
            for r in ress:
                srv.register_resource(r["uri"], rd, r["name"], r["description"], r["mime_type"])
            resp, _ = await srv.protocol_handler.handle_message(parse_message({"jsonrpc": "2.0", "id": 3, "method": "resources/list"}))
            out["resources"].append(("ok", wire(resp)))
        except BaseException as e:  # noqa
            out["resources"].append(("err", repr(e)[:200]))

asyncio.run(main())
pickle.dump(out, open(sys.argv[2], "wb"))
