"""One C16 case in its own process.  argv[1] = JSON case.  Prints one JSON line with the observations."""
import asyncio
import gc
import json
import os
import signal
import sys
import time
import warnings

import anyio

case = json.loads(sys.argv[1])
ROOT = os.path.dirname(os.path.dirname(os.path.dirname(os.path.abspath(__file__))))
obs = {"pids": [], "events": []}
warn_log = []


def fd_table():
    out = {}
    for f in os.listdir("/proc/self/fd"):
        try:
            out[f] = os.readlink(f"/proc/self/fd/{f}")
        except OSError:
            pass
    return out


def my_children():
    """(pid, state) of every process whose parent is this one - found in /proc, not through any bookkeeping."""
    me, out = os.getpid(), []
    for d in os.listdir("/proc"):
        if not d.isdigit():
            continue
        try:
            with open(f"/proc/{d}/stat") as f:
                data = f.read()
            rest = data[data.rindex(")") + 2:].split()
            if int(rest[1]) == me:
                out.append((int(d), rest[0]))
        except (OSError, ValueError, IndexError):
            pass
    return out


def proc_state(pid):
    try:
        with open(f"/proc/{pid}/stat") as f:
            data = f.read()
        return data[data.rindex(")") + 2]
    except (FileNotFoundError, ProcessLookupError):
        return None


async def main():
    from chuk_mcp.transports.stdio.stdio_client import stdio_client
    from chuk_mcp.transports.stdio.parameters import StdioParameters
    from chuk_mcp.protocol.messages.send_message import send_message

    orig = anyio.open_process

    async def spy(*a, **kw):
        p = await orig(*a, **kw)
        obs["pids"].append(p.pid)
        procs.append(p)
        return p
    procs = []
    anyio.open_process = spy

    if case["behaviour"] == "unstartable":
        params = StdioParameters(command="/nonexistent/definitely-not-a-command", args=["x"])
    elif case["behaviour"] == "not_executable":
        params = StdioParameters(command=os.path.join(ROOT, "children", "misbehave.py"), args=[])
    else:
        env = None
        if case.get("env"):
            # a caller-supplied server environment (non-default): e.g. LOG_LEVEL=ERROR, which makes the client
            # silence the server's stderr
            env = dict(os.environ)
            env.update(case["env"])
        params = StdioParameters(command=sys.executable,
                                 args=["-B", os.path.join(ROOT, "children", "misbehave.py"), case["behaviour"]], env=env)
    shared_client = None
    if case.get("prior_uses"):
        # the same client object has been used (entered and left) before: each earlier child must be gone too
        from chuk_mcp.transports.stdio.stdio_client import StdioClient
        shared_client = StdioClient(params)
        obs["prior"] = []
        for u in range(int(case["prior_uses"])):
            rec = {}
            try:
                async with shared_client:
                    r0, w0 = shared_client.get_streams()
                    try:
                        rec["ping"] = repr(await send_message(r0, w0, "ping", timeout=1.5))[:40]
                    except BaseException as e:  # noqa
                        rec["ping"] = "ERR " + type(e).__name__
            except BaseException as e:  # noqa
                rec["error"] = repr(e)[:100]
            rec["state_at_exit"] = proc_state(obs["pids"][-1]) if obs["pids"] else "no-child"
            obs["prior"].append(rec)
    companion = {}
    if case.get("companion"):
        # another, healthy stdio client of the same process, opened earlier and still in use afterwards
        c_ready, c_release, c_check = asyncio.Event(), asyncio.Event(), asyncio.Event()

        async def companion_owner():
            cparams = StdioParameters(command=sys.executable,
                                      args=["-B", os.path.join(ROOT, "children", "misbehave.py"), "well_behaved"])
            async with stdio_client(cparams) as (cr, cw):
                companion["pid"] = obs["pids"].pop()
                try:
                    companion["before"] = repr(await send_message(cr, cw, "ping", timeout=2.0))[:60]
                except BaseException as e:  # noqa
                    companion["before"] = "ERR " + repr(e)[:80]
                c_ready.set()
                await c_check.wait()
                companion["state_after"] = proc_state(companion["pid"])
                try:
                    companion["after"] = repr(await send_message(cr, cw, "tools/list", timeout=2.0))[:60]
                except BaseException as e:  # noqa
                    companion["after"] = "ERR " + repr(e)[:80]
                companion["checked"] = True
                await c_release.wait()
        companion["task"] = asyncio.create_task(companion_owner())
        await c_ready.wait()
    gc.collect()
    obs["fds_before"] = fd_table()
    pending = {}
    marks = {}

    from contextlib import asynccontextmanager

    @asynccontextmanager
    async def open_client():
        api = case.get("api", "stdio_client")
        if shared_client is not None:
            async with shared_client:
                yield shared_client.get_streams()
        elif api == "client_object_pending_stream":
            # the per-request API: a request registered and written, its answer never comes (or comes late)
            from chuk_mcp.transports.stdio.stdio_client import StdioClient
            from chuk_mcp.protocol.messages.json_rpc_message import create_request
            async with StdioClient(params) as client:
                obs["pending_stream"] = client.new_request_stream("p-1")
                await client.send_json(create_request("tools/call", {"name": "slow"}, id="p-1"))
                if case.get("second_pending_id") is not None:
                    # a second request is pending as well, under an id of the other JSON type
                    obs["pending_stream_2"] = client.new_request_stream(case["second_pending_id"])
                    await client.send_json(create_request("tools/call", {"name": "slow"}, id=case["second_pending_id"]))
                yield client.get_streams()
        elif api == "client_object_versioned":
            # the connection has settled on a revision (as a tracked handshake records it on the client)
            from chuk_mcp.transports.stdio.stdio_client import StdioClient
            async with StdioClient(params) as client:
                client.set_protocol_version(case.get("version", "2025-06-18"))
                yield client.get_streams()
        elif api == "transport":
            from chuk_mcp.transports.stdio.transport import StdioTransport
            async with StdioTransport(params) as tr:
                yield await tr.get_streams()
        elif api == "connect_to_server":
            from chuk_mcp.client.connection import connect_to_server
            async with connect_to_server(params) as client:
                yield client._streams
        else:
            async with stdio_client(params) as (r, w):
                yield r, w

    async def body():
        async with open_client() as (r, w):
            obs["entered"] = True
            moment = case["moment"]
            if moment != "before_first":
                await asyncio.sleep(0.15)
            if moment == "after_response":
                try:
                    obs["first_response"] = repr(await send_message(r, w, "ping", timeout=1.5))[:80]
                except BaseException as e:  # noqa
                    if isinstance(e, asyncio.CancelledError):
                        raise
                    obs["first_response_error"] = repr(e)[:120]
            if moment == "in_flight":
                async def call():
                    try:
                        res = await send_message(r, w, "tools/call",
                                                 {"name": "slow", "blob": "x" * int(case.get("payload_bytes", 0))},
                                                 timeout=2.0)
                        pending["outcome"] = ("return", repr(res)[:120])
                    except BaseException as e:  # noqa
                        pending["outcome"] = ("raise", type(e).__name__, repr(e)[:120])
                        if isinstance(e, asyncio.CancelledError):
                            raise
                pending["task"] = asyncio.create_task(call())
                await asyncio.sleep(case.get("flight_time", 0.2))
            if case.get("idle"):
                await asyncio.sleep(case["idle"])   # the application does something else and reads nothing meanwhile
            ex = case["exit"]
            if ex in ("normal", "native_cancel_at_child_death"):
                marks["exit_start"] = time.monotonic()
                return
            if ex == "exception":
                marks["exit_start"] = time.monotonic()
                raise RuntimeError("body failed")
            if ex in ("deadline_during_exit", "exception_deadline_during_exit", "native_deadline_during_exit"):
                # leave the body a little before the enclosing deadline: it fires during the grace periods
                await asyncio.sleep(max(0.0, marks["deadline"] - time.monotonic() - case.get("lead", 0.3)))
                marks["exit_start"] = time.monotonic()
                if ex.startswith("exception"):
                    raise RuntimeError("body failed")
                return
            await asyncio.sleep(3600)  # cancel / fail_after paths

    ex = case["exit"]
    t_enter = time.monotonic()
    try:
        if ex == "native_cancel_at_child_death":
            # the body leaves normally; a native cancellation of the task arrives the moment the child is known to have
            # died - inside the shutdown, between the end of the grace period and the release of the pipes
            t = asyncio.create_task(body())
            while not procs and not t.done():
                await asyncio.sleep(0)
            while procs and procs[-1].returncode is None and not t.done():
                await asyncio.sleep(0)
            obs["cancel_landed_in_shutdown"] = not t.done()
            marks["exit_start"] = time.monotonic()
            t.cancel()
            try:
                await t
                obs["body_outcome"] = "returned"
            except asyncio.CancelledError:
                obs["body_outcome"] = "cancelled"
        elif ex == "cancel":
            t = asyncio.create_task(body())
            due = time.monotonic() + case.get("cancel_after", 0.6)
            await asyncio.sleep(case.get("cancel_after", 0.6))
            # counted from the moment the cancellation was due (like the deadline of fail_after): a library task that
            # keeps the loop to itself delays this very timer, and that delay is part of what leaving costs
            marks["exit_start"] = min(due, time.monotonic())
            t.cancel()
            try:
                await t
            except asyncio.CancelledError:
                obs["body_outcome"] = "cancelled"
        elif ex in ("deadline_during_exit", "exception_deadline_during_exit"):
            marks["deadline"] = time.monotonic() + case.get("cancel_after", 1.0)
            with anyio.move_on_after(case.get("cancel_after", 1.0)) as scope:
                try:
                    await body()
                    obs["body_outcome"] = "returned"
                except RuntimeError as e:
                    obs["body_outcome"] = "runtime_error:" + str(e)[:60]
            obs["outer_deadline_fired"] = scope.cancel_called
        elif ex == "native_deadline_during_exit":
            # the same with asyncio's own deadline (asyncio.timeout / wait_for cancel the task natively)
            marks["deadline"] = time.monotonic() + case.get("cancel_after", 1.0)
            try:
                async with asyncio.timeout(case.get("cancel_after", 1.0)):
                    await body()
                obs["body_outcome"] = "returned"
                obs["outer_deadline_fired"] = False
            except TimeoutError:
                obs["body_outcome"] = "returned"
                obs["outer_deadline_fired"] = True
        elif ex == "fail_after":
            try:
                marks["deadline"] = time.monotonic() + case.get("cancel_after", 0.6)
                with anyio.fail_after(case.get("cancel_after", 0.6)):
                    await body()
            except TimeoutError:
                obs["body_outcome"] = "timeout"
            marks["exit_start"] = marks["deadline"]
        else:
            await body()
            obs["body_outcome"] = "returned"
    except RuntimeError as e:
        obs["body_outcome"] = "runtime_error:" + str(e)[:60]
    except BaseException as e:  # noqa
        obs["body_outcome"] = "raised:" + type(e).__name__ + ":" + str(e)[:100]
    # synchronously, before the loop gets another turn: the property speaks of the moment the context is left
    obs.pop("pending_stream", None)
    obs.pop("pending_stream_2", None)
    obs["states_at_exit"] = {str(p): proc_state(p) for p in obs["pids"]}
    comp_pid = companion.get("pid") if companion else None
    obs["unknown_children_at_exit"] = [[p_, s_] for p_, s_ in my_children() if p_ not in obs["pids"] and p_ != comp_pid]
    at_exit = fd_table()
    obs["fd_new_at_exit"] = sorted(v for k, v in at_exit.items() if k not in obs["fds_before"])
    marks["exit_end"] = time.monotonic()
    if "exit_start" in marks:
        obs["exit_duration"] = marks["exit_end"] - marks["exit_start"]
    obs["total"] = marks["exit_end"] - t_enter
    # pending request
    if "task" in pending:
        try:
            await asyncio.wait_for(asyncio.shield(pending["task"]), 3.0)
        except BaseException:  # noqa
            pass
        if "outcome" not in pending:
            pending["task"].cancel()
            pending["outcome"] = ("still_pending",)
        obs["pending_outcome"] = pending["outcome"]
    await asyncio.sleep(0.3)
    obs["states"] = {str(p): proc_state(p) for p in obs["pids"]}
    # first without the collector's help: a descriptor that only a garbage collection closes is still a leak
    early = fd_table()
    obs["fd_new_before_gc"] = sorted(v for k, v in early.items() if k not in obs["fds_before"])
    obs["fd_delta_before_gc"] = len(early) - len(obs["fds_before"])
    gc.collect()
    await asyncio.sleep(0)
    gc.collect()
    after = fd_table()
    before = obs.pop("fds_before")
    obs["fd_new"] = sorted(v for k, v in after.items() if k not in before)
    obs["fd_delta"] = len(after) - len(before)
    if companion:
        c_check.set()
        for _ in range(60):
            if companion.get("checked") or companion["task"].done():
                break
            await asyncio.sleep(0.1)
        c_release.set()
        try:
            await asyncio.wait_for(companion["task"], 5.0)
        except BaseException as e:  # noqa
            companion["close_error"] = repr(e)[:100]
        await asyncio.sleep(0.2)
        companion["state_end"] = proc_state(companion["pid"]) if "pid" in companion else "never-started"
        companion.pop("task", None)
        obs["companion"] = companion
    anyio.open_process = orig


with warnings.catch_warnings(record=True) as wl:
    warnings.simplefilter("always")
    try:
        asyncio.run(main())
    finally:
        for p in obs["pids"]:
            try:
                os.killpg(p, signal.SIGKILL)
            except Exception:
                try:
                    os.kill(p, signal.SIGKILL)
                except Exception:
                    pass
    obs["warnings"] = [str(w.message)[:140] for w in wl if issubclass(w.category, ResourceWarning)][:10]
print("RESULT " + json.dumps(obs))
