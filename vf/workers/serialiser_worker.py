"""Worker for C10 part B: drive every library-side serialiser that accepts a model with aliased
fields and report under which key each sentinel leaves.

argv: <backend> <in.pkl> <out.pkl>;  in = {class path: sentinel wire object}"""
import asyncio
import importlib
import inspect
import os
import pickle
import pkgutil
import sys
import typing

backend, inp, outp = sys.argv[1:4]
if backend == "fallback":
    os.environ["MCP_FORCE_FALLBACK"] = "1"
else:
    os.environ.pop("MCP_FORCE_FALLBACK", None)

import chuk_mcp  # noqa: E402
from chuk_mcp.protocol import mcp_pydantic_base as B  # noqa: E402

wires = pickle.load(open(inp, "rb"))
SENT = "__vf_sentinel__"


def load(path):
    mod, name = path.split(":")
    return getattr(importlib.import_module(mod), name)


classes = {p: load(p) for p in wires}


def ann_classes(ann, acc=None):
    acc = acc if acc is not None else set()
    if inspect.isclass(ann):
        acc.add(ann)
    for a in typing.get_args(ann):
        ann_classes(a, acc)
    return acc


def find_sentinels(obj, path=()):
    out = []
    if isinstance(obj, dict):
        if SENT in obj:
            out.append((path, obj[SENT]))
            return out
        for k, v in obj.items():
            out += find_sentinels(v, path + (k,))
    elif isinstance(obj, (list, tuple)):
        for i, v in enumerate(obj):
            out += find_sentinels(v, path + (i,))
    elif hasattr(obj, "model_dump"):
        # a model object leaving a serialiser is not wire data yet; skip
        pass
    return out


results = []
discovered = []
for mi in pkgutil.walk_packages(chuk_mcp.__path__, "chuk_mcp."):
    if mi.name.endswith("__main__") or ".transports." in mi.name:
        continue
    try:
        m = importlib.import_module(mi.name)
    except Exception:
        continue
    for n, f in list(vars(m).items()):
        cands = []
        if inspect.isfunction(f) and f.__module__ == m.__name__:
            cands = [(n, f, None)]
        elif inspect.isclass(f) and f.__module__ == m.__name__ and not issubclass(f, B.McpPydanticBase):
            cands = [(f"{n}.{k}", v, f) for k, v in vars(f).items() if inspect.isfunction(v) and not k.startswith("__")]
        for name, fn, owner in cands:
            try:
                hints = typing.get_type_hints(fn)
            except Exception:
                continue
            for pname, h in hints.items():
                if pname == "return":
                    continue
                for path, cls in classes.items():
                    if cls in ann_classes(h):
                        discovered.append(f"{m.__name__}.{name}({pname}: {cls.__name__})")
                        rec = {"fn": f"{m.__name__}.{name}", "param": pname, "cls": path}
                        try:
                            inst = cls.model_validate(wires[path])
                        except Exception as e:  # noqa
                            rec["error"] = "instance: " + repr(e)[:200]
                            results.append(rec)
                            continue
                        captured = []

                        async def cap(msg, *a, **kw):
                            captured.append(msg)

                        sig = inspect.signature(fn)
                        kwargs = {pname: [inst] if typing.get_origin(h) in (list, typing.List) else inst}
                        skip = False
                        for q, qp in sig.parameters.items():
                            if q in ("self", pname) or qp.default is not inspect.Parameter.empty:
                                continue
                            if qp.kind in (qp.VAR_KEYWORD, qp.VAR_POSITIONAL):
                                continue
                            skip = True  # needs further required arguments we do not know how to build
                        if skip:
                            rec["error"] = "needs other required arguments"
                            results.append(rec)
                            continue
                        if "timeout" in sig.parameters:
                            kwargs["timeout"] = 0.01
                        try:
                            if owner is not None:
                                init_params = [p for p in inspect.signature(owner.__init__).parameters if p != "self"]
                                if len(init_params) == 1:
                                    target = owner(cap)
                                elif not init_params:
                                    target = owner()
                                else:
                                    rec["error"] = "owner needs arguments"
                                    results.append(rec)
                                    continue
                                call = getattr(target, name.split(".")[-1])
                            else:
                                call = fn
                            if inspect.iscoroutinefunction(fn):
                                async def runit():
                                    try:
                                        return await asyncio.wait_for(call(**kwargs), 0.2)
                                    except Exception as e:  # noqa
                                        return ("EXC", repr(e)[:100])
                                ret = asyncio.run(runit())
                            else:
                                ret = call(**kwargs)
                        except Exception as e:  # noqa
                            rec["error"] = "call: " + repr(e)[:200]
                            results.append(rec)
                            continue
                        outs = []
                        if isinstance(ret, (dict, list)):
                            outs.append(ret)
                        outs += [c for c in captured if isinstance(c, (dict, list))]
                        for c in captured:
                            if hasattr(c, "model_dump"):
                                outs.append(c.model_dump(exclude_none=True))
                        rec["outputs"] = len(outs)
                        rec["sentinels"] = [(list(p), s) for o in outs for p, s in find_sentinels(o)]
                        results.append(rec)
pickle.dump({"pydantic_available": B.PYDANTIC_AVAILABLE, "results": results, "discovered": discovered}, open(outp, "wb"))
