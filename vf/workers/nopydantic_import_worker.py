"""Worker for C09: import every module of the library in a process where Pydantic cannot be imported at all
(not merely switched off by MCP_FORCE_FALLBACK).  argv: <out.json>"""
import importlib
import json
import pkgutil
import sys

sys.modules["pydantic"] = None        # `import pydantic` raises ImportError from here on
sys.modules["pydantic_core"] = None
import chuk_mcp  # noqa: E402
from chuk_mcp.protocol import mcp_pydantic_base as B  # noqa: E402

out = {"pydantic_available": B.PYDANTIC_AVAILABLE, "failed": {}, "imported": 0}
for mi in pkgutil.walk_packages(chuk_mcp.__path__, "chuk_mcp."):
    if mi.name.endswith("__main__"):
        continue
    try:
        importlib.import_module(mi.name)
        out["imported"] += 1
    except BaseException as e:  # noqa
        out["failed"][mi.name] = f"{type(e).__name__}: {e}"[:200]
# and the transports' parameter models can be built
try:
    from chuk_mcp.transports.http.parameters import StreamableHTTPParameters
    from chuk_mcp.transports.sse.parameters import SSEParameters
    out["params"] = [StreamableHTTPParameters(url="http://h.test/mcp").url, SSEParameters(url="http://s.test").url]
except BaseException as e:  # noqa
    out["params_error"] = f"{type(e).__name__}: {e}"[:200]
json.dump(out, open(sys.argv[1], "w"))
