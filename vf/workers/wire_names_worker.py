"""Worker for C10 (part D): messages that hold typed models (an application answering a server request with a typed
result, a request whose params hold a typed object) written through the three client transports; reports the JSON that
reached the peer.  argv: <out.pkl>; backend selected by MCP_FORCE_FALLBACK in the environment."""
import asyncio
import json
import pickle
import sys

import httpx

from chuk_mcp.protocol import mcp_pydantic_base as B
from chuk_mcp.protocol.messages import json_rpc_message as J
from vf.http_harness import ScriptedHTTP, TimedByteStream
from vf.stdio_harness import run_stdio_script
from vf.vloop import run_virtual

out = {"pydantic_available": B.PYDANTIC_AVAILABLE, "cases": []}


def build():
    """(label, message, expected wire value of the part that holds the model)"""
    from chuk_mcp.protocol.messages.resources.resource import Resource
    from chuk_mcp.protocol.messages.tools.tool import Tool
    from chuk_mcp.protocol.messages.tools.send_messages import ListToolsResult
    from chuk_mcp.protocol.types.tools import StructuredContent
    res = Resource(uri="file:///a", name="a", meta={"k": [None, 1]})
    res_w = {"uri": "file:///a", "name": "a", "_meta": {"k": [None, 1]}}
    tool = Tool(name="n", inputSchema={"type": "object"}, meta={"a": 1})
    tool_w = {"name": "n", "inputSchema": {"type": "object"}, "_meta": {"a": 1}}
    sc = StructuredContent(data={"x": 1}, schema_={"type": "object"})
    sc_w = {"type": "structured", "data": {"x": 1}, "schema": {"type": "object"}}
    items = []
    for mid in (1, "r-2"):
        items += [
            ("create_response(id, Resource)", J.create_response(mid, res), {"jsonrpc": "2.0", "id": mid, "result": res_w}),
            ("create_response(id, {'resources': [Resource]})", J.create_response(mid, {"resources": [res]}),
             {"jsonrpc": "2.0", "id": mid, "result": {"resources": [res_w]}}),
            ("create_response(id, ListToolsResult)", J.create_response(mid, ListToolsResult(tools=[tool])),
             {"jsonrpc": "2.0", "id": mid, "result": {"tools": [tool_w]}}),
            ("create_response(id, {'structuredContent': [StructuredContent]})", J.create_response(mid, {"structuredContent": [sc]}),
             {"jsonrpc": "2.0", "id": mid, "result": {"structuredContent": [sc_w]}}),
            ("create_request(params={'resource': Resource})", J.create_request("x/y", {"resource": res}, id=mid),
             {"jsonrpc": "2.0", "id": mid, "method": "x/y", "params": {"resource": res_w}}),
            ("create_notification(params={'tool': Tool})", J.create_notification("notifications/x", {"tool": tool}),
             {"jsonrpc": "2.0", "method": "notifications/x", "params": {"tool": tool_w}}),
            ("JSONRPCResponse(result={'t': Tool})", J.JSONRPCResponse(id=mid, result={"t": tool}),
             {"jsonrpc": "2.0", "id": mid, "result": {"t": tool_w}}),
        ]
    return items


items = build()
msgs = [m for _, m, _ in items]
# stdio
try:
    o = run_stdio_script([("send", m) for m in msgs] + [("settle",)])
    lines = [ln for ln in o["stdin_before_exit"].split(b"\n") if ln]
    out["stdio"] = [json.loads(ln) for ln in lines]
except Exception as e:  # noqa
    out["stdio_error"] = repr(e)[:300]


async def http_main():
    from chuk_mcp.transports.http.http_client import http_client
    from chuk_mcp.transports.http.parameters import StreamableHTTPParameters
    from chuk_mcp.transports.sse.sse_client import sse_client
    from chuk_mcp.transports.sse.parameters import SSEParameters
    bodies = {"http": [], "sse": []}
    box = {}

    def handler(request: httpx.Request, rec):
        if request.method == "GET":
            st = TimedByteStream([(None, b"event: endpoint\ndata: /messages/?session_id=s1\n\n")], hold_open=True)
            box["s"] = st
            return httpx.Response(200, headers={"content-type": "text/event-stream"}, stream=st)
        which = "sse" if "/messages/" in str(request.url) else "http"
        bodies[which].append(rec["body"])
        b = rec["body"] if isinstance(rec["body"], dict) else {}
        if b.get("id") is None or "method" not in b:
            return httpx.Response(202)
        return httpx.Response(200, json={"jsonrpc": "2.0", "id": b["id"], "result": {}})

    async def drain(stream):
        try:
            async for _ in stream:
                pass
        except Exception:
            pass
    with ScriptedHTTP(handler):
        async with http_client(StreamableHTTPParameters(url="http://h.test/mcp", timeout=5.0)) as (r, w):
            dt = asyncio.create_task(drain(r))
            for m in msgs:
                await w.send(m)
            await asyncio.sleep(1.0)
            dt.cancel()
        async with sse_client(SSEParameters(url="http://s.test", timeout=5.0)) as (r, w):
            dt = asyncio.create_task(drain(r))
            for m in msgs:
                await w.send(m)
            await asyncio.sleep(1.0)
            dt.cancel()
            box["s"].release()
    return bodies

try:
    bodies, _ = run_virtual(http_main, max_iterations=2_000_000)
    out["http"], out["sse"] = bodies["http"], bodies["sse"]
except Exception as e:  # noqa
    out["http_error"] = repr(e)[:300]
out["cases"] = [(label, exp) for label, _, exp in items]
pickle.dump(out, open(sys.argv[1], "wb"))
