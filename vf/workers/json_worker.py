"""Worker for C17: encode/decode a pickled case list under one JSON backend.

argv: <backend: orjson|stdlib> <in.pkl> <out.pkl>
in:  {"values": [...], "foreign": [str|None, ...] | None}
out: {"has_orjson": bool, "enc": [...], "enc_kw": [...], "self_dec": [...], "foreign_dec": [...]}
Each entry is ("ok", value) or ("err", repr).
"""
import pickle
import sys

backend, inp, outp = sys.argv[1:4]
if backend == "stdlib":
    sys.modules["orjson"] = None  # make `import orjson` fail before fast_json is imported

from chuk_mcp.protocol import fast_json  # noqa: E402

data = pickle.load(open(inp, "rb"))


def attempt(fn, *a, **kw):
    try:
        return ("ok", fn(*a, **kw))
    except BaseException as e:  # noqa
        return ("err", repr(e)[:200])


out = {"has_orjson": fast_json.HAS_ORJSON, "enc": [], "enc_kw": [], "self_dec": [], "foreign_dec": [],
       "self_dec_bytes": [], "foreign_dec_bytes": []}
out["pretty"] = []
for k, v in enumerate(data["values"]):
    # call history: every 5th value is first encoded *pretty* with exactly the keyword names the compact call uses;
    # state kept between calls (encoder caches, option flags) must not leak into the compact encoding that follows
    if k % 5 == 0:
        out["pretty"].append(attempt(fast_json.dumps, v, indent=2, separators=(",", ": "), default=str))
        attempt(fast_json.dumps, v, indent=4)
    else:
        out["pretty"].append(None)
    e = attempt(fast_json.dumps, v)
    out["enc"].append(e)
    # the keyword form the fallback model_dump_json uses
    out["enc_kw"].append(attempt(fast_json.dumps, v, indent=None, separators=(",", ":"), default=str))
    if e[0] == "ok":
        out["self_dec"].append(attempt(fast_json.loads, e[1]))
        out["self_dec_bytes"].append(attempt(fast_json.loads, e[1].encode("utf-8")) if isinstance(e[1], str) else ("err", "not str"))
    else:
        out["self_dec"].append(("err", "no encoding"))
        out["self_dec_bytes"].append(("err", "no encoding"))
# file API: dump()/load() on text and on binary files (every 7th value keeps the cost low)
import io  # noqa: E402
out["file_text"], out["file_binary"] = [], []
for k, v in enumerate(data["values"]):
    if k % 7:
        out["file_text"].append(None)
        out["file_binary"].append(None)
        continue
    for key, mk in (("file_text", io.StringIO), ("file_binary", io.BytesIO)):
        def roundtrip(mk=mk, v=v):
            fp = mk()
            fast_json.dump(v, fp)
            raw = fp.getvalue()
            fp.seek(0)
            return (raw if isinstance(raw, str) else raw.decode("utf-8"), fast_json.load(fp))
        out[key].append(attempt(roundtrip))
if data.get("foreign") is not None:
    for s in data["foreign"]:
        out["foreign_dec"].append(attempt(fast_json.loads, s) if s is not None else ("err", "no encoding"))
        out["foreign_dec_bytes"].append(attempt(fast_json.loads, s.encode("utf-8")) if isinstance(s, str) else ("err", "no encoding"))
pickle.dump(out, open(outp, "wb"))
