"""Worker for C17: encode/decode a pickled case list under one JSON backend.

argv: <backend: orjson|stdlib> <in.pkl> <out.pkl>
in:  {"values": [...], "foreign": [str|None, ...] | None}
out: {"has_orjson": bool, "enc": [...], "enc_kw": [...], "self_dec": [...], "foreign_dec": [...]}
Each entry is ("ok", value) or ("err", repr).
"""
import pickle
import sys

backend, inp, outp = sys.argv[1:4]
if backend == "stdlib":
    sys.modules["orjson"] = None  # make `import orjson` fail before fast_json is imported

from chuk_mcp.protocol import fast_json  # noqa: E402

data = pickle.load(open(inp, "rb"))


def attempt(fn, *a, **kw):
    try:
        return ("ok", fn(*a, **kw))
    except BaseException as e:  # noqa
        return ("err", repr(e)[:200])


out = {"has_orjson": fast_json.HAS_ORJSON, "enc": [], "enc_kw": [], "self_dec": [], "foreign_dec": [],
       "self_dec_bytes": [], "foreign_dec_bytes": []}
out["pretty"] = []
for k, v in enumerate(data["values"]):
    # call history: every 5th value is first encoded *pretty* with exactly the keyword names the compact call uses;
    # state kept between calls (encoder caches, option flags) must not leak into the compact encoding that follows
    if k % 5 == 0:
        out["pretty"].append(attempt(fast_json.dumps, v, indent=2, separators=(",", ": "), default=str))
        attempt(fast_json.dumps, v, indent=4)
    else:
        out["pretty"].append(None)
    e = attempt(fast_json.dumps, v)
    out["enc"].append(e)
    # the keyword form the fallback model_dump_json uses
    out["enc_kw"].append(attempt(fast_json.dumps, v, indent=None, separators=(",", ":"), default=str))
    if e[0] == "ok":
        out["self_dec"].append(attempt(fast_json.loads, e[1]))
        out["self_dec_bytes"].append(attempt(fast_json.loads, e[1].encode("utf-8")) if isinstance(e[1], str) else ("err", "not str"))
    else:
        out["self_dec"].append(("err", "no encoding"))
        out["self_dec_bytes"].append(("err", "no encoding"))
# call history on the decode side: decode, scribble on every nested container of what came back, decode the very same
# text again - the second value must be the encoded one (nothing decoded earlier may be shared with later results)
def scribble(x, depth=0):
    if depth > 8:
        return
    if isinstance(x, list):
        for item in x:
            scribble(item, depth + 1)
        x.append("scribbled")
    elif isinstance(x, dict):
        for item in list(x.values()):
            scribble(item, depth + 1)
        x["scribbled"] = True


out["redecode"] = []
for k, v in enumerate(data["values"]):
    e = out["enc"][k]
    if k % 3 or e[0] != "ok" or not isinstance(v, (list, dict)):
        out["redecode"].append(None)
        continue
    def twice(text=e[1]):
        first_val = fast_json.loads(text)
        scribble(first_val)
        again = fast_json.loads(text)
        first_b = fast_json.loads(text.encode("utf-8"))
        scribble(first_b)
        return again, fast_json.loads(text.encode("utf-8"))
    out["redecode"].append(attempt(twice))
    # and on the encode side: encode, edit the object in place, encode again - the second text must describe the
    # object as it is now
    def reencode(v=v):
        import copy
        w = copy.deepcopy(v)
        fast_json.dumps(w)
        scribble(w)
        return fast_json.loads(fast_json.dumps(w)) == w
    r = attempt(reencode)
    if r != ("ok", True):
        out["redecode"][-1] = ("err", "encode after in-place edit: " + repr(r)[:150])
# file API: dump()/load() on text and on binary files (every 7th value keeps the cost low)
import io  # noqa: E402
out["file_text"], out["file_binary"] = [], []
for k, v in enumerate(data["values"]):
    if k % 7:
        out["file_text"].append(None)
        out["file_binary"].append(None)
        continue
    for key, mk in (("file_text", io.StringIO), ("file_binary", io.BytesIO)):
        def roundtrip(mk=mk, v=v):
            fp = mk()
            fast_json.dump(v, fp)
            raw = fp.getvalue()
            fp.seek(0)
            return (raw if isinstance(raw, str) else raw.decode("utf-8"), fast_json.load(fp))
        out[key].append(attempt(roundtrip))
# ... and on text handles that are not UTF-8 (what open(path, "w") gives on some platforms): what reading the file back
# through a handle configured the same way gives, and the bytes that ended up in the file
HANDLES = (("cp1252", "strict"), ("latin-1", "strict"), ("ascii", "replace"), ("ascii", "backslashreplace"), ("utf-16", "strict"))
out["file_handles"] = []
for k, v in enumerate(data["values"]):
    if k % 7:
        out["file_handles"].append(None)
        continue
    rec = {}
    for enc, err in HANDLES:
        def handle_rt(enc=enc, err=err, v=v):
            buf = io.BytesIO()
            fp = io.TextIOWrapper(buf, encoding=enc, errors=err, newline="")
            fast_json.dump(v, fp)
            fp.flush()
            raw = buf.getvalue()
            back = io.TextIOWrapper(io.BytesIO(raw), encoding=enc, errors=err, newline="")
            return raw, fast_json.load(back)
        rec[f"{enc}/{err}"] = attempt(handle_rt)
    out["file_handles"].append(rec)
if data.get("foreign") is not None:
    for s in data["foreign"]:
        out["foreign_dec"].append(attempt(fast_json.loads, s) if s is not None else ("err", "no encoding"))
        out["foreign_dec_bytes"].append(attempt(fast_json.loads, s.encode("utf-8")) if isinstance(s, str) else ("err", "no encoding"))
# ---- very deep values (built here: neither pickle nor a recursive comparator is involved) -----------------
def build_deep(kind, depth, leaf):
    v = leaf
    for i in range(depth):
        as_list = kind == "l" or (kind == "m" and i % 2 == 0)
        v = [v] if as_list else {"k": v}
    return v


def expected_text(kind, depth, leaf, ascii_only=True):
    import json as _j
    opens, closes = [], []
    for i in range(depth):
        as_list = kind == "l" or (kind == "m" and i % 2 == 0)
        opens.append("[" if as_list else '{"k":')
        closes.append("]" if as_list else "}")
    return "".join(reversed(opens)) + _j.dumps(leaf, separators=(",", ":"), ensure_ascii=ascii_only) + "".join(closes)


def walk_down(v, kind, depth):
    for i in reversed(range(depth)):
        as_list = kind == "l" or (kind == "m" and i % 2 == 0)
        if as_list:
            if not (isinstance(v, list) and len(v) == 1):
                return ("bad", i)
            v = v[0]
        else:
            if not (isinstance(v, dict) and list(v) == ["k"]):
                return ("bad", i)
            v = v["k"]
    return ("leaf", v)


out["deep"] = []
for kind, depth, leaf in data.get("deep") or []:
    rec = {}
    v = build_deep(kind, depth, leaf)
    exp = expected_text(kind, depth, leaf)
    exp_raw = expected_text(kind, depth, leaf, ascii_only=False)
    for form, kw in (("enc", {}), ("enc_kw", dict(indent=None, separators=(",", ":"), default=str))):
        r = attempt(fast_json.dumps, v, **kw)
        if r[0] == "ok":
            txt = r[1]
            rec[form] = ("ok", isinstance(txt, str) and txt.replace(" ", "") in (exp, exp_raw), isinstance(txt, str) and ("\n" in txt or "\r" in txt))
        else:
            rec[form] = r
    for form, text in (("dec_compact", exp), ("dec_spaced", exp.replace(":", ": ")), ("dec_bytes", exp.encode("utf-8"))):
        r = attempt(fast_json.loads, text)
        rec[form] = ("ok", walk_down(r[1], kind, depth)) if r[0] == "ok" else r
    def file_rt(v=v):
        fp = io.StringIO()
        fast_json.dump(v, fp)
        fp.seek(0)
        return walk_down(fast_json.load(fp), kind, depth)
    rec["file"] = attempt(file_rt)
    # the document is not the first thing in the file: a first line has been read already, load() gets the rest
    def file_positioned(mk, text):
        fp = mk(text)
        fp.readline()
        return walk_down(fast_json.load(fp), kind, depth)
    rec["file_positioned_text"] = attempt(file_positioned, io.StringIO, "# first line\n" + exp)
    rec["file_positioned_binary"] = attempt(file_positioned, io.BytesIO, b'{"first": "document"}\n' + exp.encode("utf-8"))
    out["deep"].append(rec)
    del v
pickle.dump(out, open(outp, "wb"))
