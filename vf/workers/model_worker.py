"""Worker for C09/C10: validate + dump the same cases under one validation backend.

argv: <backend: pydantic|fallback> <in.pkl> <out.pkl>
Per case the report holds: ok/err, the class-name tree at every model-typed position, and
model_dump(by_alias=True, exclude_none=True) (raw python values, pickled so int/float/bool survive)."""
import os
import pickle
import sys

backend, inp, outp = sys.argv[1:4]
if backend == "fallback":
    os.environ["MCP_FORCE_FALLBACK"] = "1"
else:
    os.environ.pop("MCP_FORCE_FALLBACK", None)

import importlib  # noqa: E402

from chuk_mcp.protocol import mcp_pydantic_base as B  # noqa: E402

cases = pickle.load(open(inp, "rb"))

if os.environ.get("VF_APP_MODULE") == "1":
    # an unrelated module of the application that happens to use the same names as some of the library's model
    # classes for its own generic aliases (Tool = Dict[str, Any], Root = List[int], ...)
    import types
    import typing
    app = types.ModuleType("aaa_application_types")
    for c in cases:
        if "cls" in c:
            nm = c["cls"].split(":")[1]
            setattr(app, nm, typing.List[int] if len(nm) % 2 else typing.Dict[str, int])
    sys.modules["aaa_application_types"] = app


def tree(v, depth=0):
    """Class names at model-typed positions."""
    if depth > 8:
        return "..."
    if isinstance(v, B.McpPydanticBase):
        d = getattr(v, "__dict__", {})
        sub = {}
        for k, x in d.items():
            if k.startswith("__"):
                continue
            t = tree(x, depth + 1)
            if t is not None:
                sub[k] = t
        return {"__class__": type(v).__name__, **sub}
    if isinstance(v, (list, tuple)):
        ts = [tree(x, depth + 1) for x in v]
        return ts if any(t is not None for t in ts) else None
    if isinstance(v, dict):
        ts = {k: tree(x, depth + 1) for k, x in v.items()}
        ts = {k: t for k, t in ts.items() if t is not None}
        return ts or None
    return None


def load(path):
    mod, name = path.split(":")
    return getattr(importlib.import_module(mod), name)


out = {"pydantic_available": B.PYDANTIC_AVAILABLE, "reports": []}


N_THREADS = int(os.environ.get("VF_THREADS", "0") or 0)
PREV = {}


CASE_NO = [0]


def process(c):
    CASE_NO[0] += 1
    rep = {}
    try:
        if c["kind"] in ("model", "invariant", "spec_example"):
            cls = load(c["cls"])
            obj = cls.model_validate(c["wire"])
            rep["ok"] = True
            rep["tree"] = tree(obj)
            rep["attrs"] = {a: getattr(obj, a) for a in ("meta", "schema_") if a in getattr(cls, "__annotations__", {})
                            or any(a in getattr(k, "__annotations__", {}) for k in cls.__mro__)}
            try:
                rep["dump"] = obj.model_dump(by_alias=True, exclude_none=True)
            except Exception as e:  # noqa
                rep["dump_err"] = repr(e)[:200]
            try:
                rep["dump_full"] = obj.model_dump(by_alias=True)
            except Exception as e:  # noqa
                rep["dump_full_err"] = repr(e)[:200]
            try:
                rep["dump_plain"] = obj.model_dump(exclude_none=True)
            except Exception as e:  # noqa
                rep["dump_plain_err"] = repr(e)[:200]
            # the JSON-text form with the method's own defaults (no argument at all), parsed back
            try:
                import json as _json
                rep["json_default"] = _json.loads(obj.model_dump_json())
            except Exception as e:  # noqa
                rep["json_default_err"] = type(e).__name__
            if N_THREADS <= 1:
                # what an application sees when it compares two objects: the same wire object validated twice gives
                # equal objects, and this object against the previous one of its class gives whatever it gives -
                # under both backends alike
                try:
                    import copy
                    eq = {"same_wire_twice": bool(obj == cls.model_validate(copy.deepcopy(c["wire"])))}
                    prev = PREV.get(c["cls"])
                    if prev is not None:
                        eq["previous_of_class"] = bool(obj == prev[1])
                        eq["ne_previous_of_class"] = bool(obj != prev[1])
                        rep["eq_prev_keys"] = sorted(prev[0]) if isinstance(prev[0], dict) else []
                        rep["eq_prev_case"] = prev[2]
                    rep["eq"] = eq
                except Exception as e:  # noqa
                    rep["eq"] = {"err": type(e).__name__}
                PREV[c["cls"]] = (c["wire"], obj, CASE_NO[0])
        elif c["kind"] == "envelope":
            from chuk_mcp.protocol.messages import json_rpc_message as J
            m = J.parse_message(c["wire"])
            rep["ok"] = True
            rep["cls"] = type(m).__name__
            mid = getattr(m, "id", None)
            rep["id"] = mid
            rep["id_type"] = type(mid).__name__
            rep["method"] = getattr(m, "method", None)
            rep["kind"] = ("request" if rep["method"] is not None and mid is not None else
                           "notification" if rep["method"] is not None else
                           "error" if getattr(m, "error", None) is not None else "response")
            rep["dump"] = m.model_dump(exclude_none=True)
            # the four typed classes directly
            typed = {"request": J.JSONRPCRequest, "notification": J.JSONRPCNotification,
                     "response": J.JSONRPCResponse, "error": J.JSONRPCError}[c["expect"]]
            try:
                t = typed.model_validate(c["wire"])
                rep["typed_ok"] = True
                rep["typed_id"] = getattr(t, "id", None)
                rep["typed_id_type"] = type(getattr(t, "id", None)).__name__
                rep["typed_dump"] = t.model_dump(exclude_none=True)
            except Exception as e:  # noqa
                rep["typed_ok"] = False
                rep["typed_err"] = repr(e)[:200]
    except Exception as e:  # noqa
        rep["ok"] = False
        rep["err"] = f"{type(e).__name__}: {str(e)[:200]}"
    return rep


if N_THREADS > 1:
    # several threads validate the same case at the same moment (for a class this is its first use in the process): a
    # server dispatching from a thread pool. Every thread must see what a single thread sees; the report handed back is
    # one that differs from the first thread's, if there is any
    import threading
    sys.setswitchinterval(1e-6)
    out["threads"] = N_THREADS
    out["thread_disagreements"] = 0
    for c in cases:
        barrier = threading.Barrier(N_THREADS)
        reps = [None] * N_THREADS

        def work(i, c=c):
            try:
                barrier.wait(timeout=10)
            except Exception:  # noqa
                pass
            reps[i] = process(c)
        ths = [threading.Thread(target=work, args=(i,)) for i in range(N_THREADS)]
        for t in ths:
            t.start()
        for t in ths:
            t.join()
        chosen = reps[0]
        for r in reps[1:]:
            if repr(r) != repr(reps[0]):
                chosen = r if (r or {}).get("ok") or not (reps[0] or {}).get("ok") else reps[0]
                out["thread_disagreements"] += 1
                chosen = dict(chosen or {}, thread_disagreement=[repr(reps[0])[:300], repr(r)[:300]])
                break
        out["reports"].append(chosen)
else:
    for c in cases:
        out["reports"].append(process(c))
pickle.dump(out, open(outp, "wb"))
