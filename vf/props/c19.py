"""C19 - server session bookkeeping behaves like a map from unique ids to records."""
from __future__ import annotations

import asyncio
import itertools
from typing import Any, Dict, List, Optional, Tuple

ID = "C19"
LEVEL = "exploration"
BACKENDS = ["pydantic", "fallback"]   # every case is executed under both validation backends
LOGLEVELS = ["default", "debug"]   # every case also runs with the root logger at DEBUG (as --verbose does)
SHARDS = {"quick": 4, "thorough": 16}
BUDGET_S = {"quick": 90.0, "thorough": 600.0}
TECHNIQUE = ("runtime monitoring: lock-step reference-model (dict) comparison after every operation on the real "
             "SessionManager/ProtocolHandler under a controlled clock; id-uniqueness monitor over 10^5 draws")
LEVEL_TEXT = ("Operation sequences over {create, get, update, delete, cleanup(max_age), list+mutate, clear, initialize, "
              "request-with-session, advance clock} are executed on the real store with time.time replaced by a "
              "controlled clock; after every operation the return value, every known id, the listing and the count are "
              "compared with a reference dict. Exhaustive to length 3 (quick) / breadth-first over abstract states to "
              "depth 8 (thorough) on a 3-session universe, plus seeded sequences to length 200."
              " Two neighbour handlers of the same process perform their own session operations between every step."
              ' The id monitor also re-seeds the random module between draws.'
              ' Also an initialize without an id.'
              ' Every case also runs under the dependency-free validation backend.'
              ' Also requests in flight on a session while the expiry sweep runs, under both validation backends.'
              ' Also client info carrying newer schema members and vendor extensions.'
              ' Also several clients sending the very same clientInfo; the controlled clock covers every server-side module that reads time.')
LEVEL_NOTE = ("Trusted: the reference model (30 lines) and the clock patch on chuk_mcp.server.session.memory.time. "
              "Only the in-memory manager shipped with the library is exercised.")
RULE = ("sequence of operations; non-trivial = contains at least one creating op followed by another op; distinct = "
        "hash(sequence)+hash(final model state).")
ASSUMPTIONS = ["controlled clock advancing in steps exactly representable in binary (0.25, 0.5, 1, ...), so the expiry boundary is exact"]


class Clock:
    def __init__(self):
        self.now = 1000.0

    def time(self):
        return self.now

    def __getattr__(self, name):
        # (anything else a module asks of its `time` is the real thing)
        import time as _real
        return getattr(_real, name)


class Harness:
    def __init__(self):
        import chuk_mcp.server.session.memory as mem
        from chuk_mcp.server.protocol_handler import ProtocolHandler
        from chuk_mcp.protocol.types.info import ServerInfo
        from chuk_mcp.protocol.types.capabilities import ServerCapabilities
        self.mem = mem
        self.clock = Clock()
        self._orig_time = mem.time
        mem.time = self.clock
        # the clock is the server side's clock: every module of chuk_mcp.server that consults `time` (now or after a
        # later change) reads the controlled one
        import sys as _sys
        import time as _real_time
        import chuk_mcp.server.protocol_handler as _ph
        self._patched = []
        for mname, mod in list(_sys.modules.items()):
            if mname.startswith("chuk_mcp.server") and mod is not None and mod is not mem and getattr(mod, "time", None) is _real_time:
                self._patched.append(mod)
                mod.time = self.clock
        # two more handlers (one older, one newer) live in the same process and are busy with their own sessions:
        # nothing they do may show in the store under test
        older = ProtocolHandler(ServerInfo(name="older", version="1"), ServerCapabilities())
        self.handler = ProtocolHandler(ServerInfo(name="s", version="1"), ServerCapabilities())
        self.neighbours = [older, ProtocolHandler(ServerInfo(name="newer", version="1"), ServerCapabilities())]
        self.steps = 0
        self.sm = self.handler.session_manager
        self.model: Dict[str, Dict[str, Any]] = {}
        self.known: List[str] = []
        self.n_created = 0
        self.loop = asyncio.new_event_loop()

    def close(self):
        self.mem.time = self._orig_time
        import time as _real_time
        for mod in getattr(self, "_patched", []):
            mod.time = _real_time
        self.loop.close()

    def target(self, i: int) -> str:
        return self.known[i] if i < len(self.known) else f"missing-{i}"

    # -- each op returns a list of violation (mechanism, message) ----------
    def apply(self, op: Tuple) -> List[Tuple[str, str]]:
        from chuk_mcp.protocol.messages.json_rpc_message import parse_message
        v: List[Tuple[str, str]] = []
        name = op[0]
        sm, model, now = self.sm, self.model, self.clock.now
        self.steps += 1
        nb = self.neighbours[self.steps % 2].session_manager
        kind = self.steps % 7
        if kind in (0, 1, 2):
            nsid = nb.create_session({"name": "neighbour"}, "2025-03-26", metadata=None if kind else {"nb": 1})
            rec = nb.get_session(nsid)
            if rec is not None and rec.metadata is not None:
                rec.metadata["neighbour"] = True
        elif kind == 3:
            for nsid in list(nb.list_sessions())[:1]:
                nb.delete_session(nsid)
        elif kind == 4:
            nb.cleanup_expired(0)
        elif kind == 5:
            nb.clear_all_sessions()
        else:
            for known in self.known[:2]:
                nb.delete_session(known)
                nb.update_activity(known)
        if name == "create":
            self.n_created += 1
            ci = {"name": f"client-{self.n_created}", "version": "1"}
            ver = ["2025-06-18", "2025-03-26", "2024-11-05"][self.n_created % 3]
            sid = sm.create_session(ci, ver, metadata=({"m": self.n_created} if self.n_created % 2 else None))
            if not isinstance(sid, str) or not sid:
                v.append(("bad_session_id", f"create_session returned {sid!r}"))
                return v
            if sid in model or sid in self.known:
                v.append(("duplicate_session_id", f"create_session returned an id already issued: {sid!r}"))
            model[sid] = {"client_info": ci, "protocol_version": ver, "created_at": now, "last_activity": now,
                          "metadata": {"m": self.n_created} if self.n_created % 2 else {}}
            self.known.append(sid)
        elif name == "get":
            pass  # probing below covers it
        elif name == "update":
            sid = self.target(op[1])
            r = sm.update_activity(sid)
            exp = sid in model
            if exp:
                model[sid]["last_activity"] = now
            if r is not exp:
                v.append(("update_return", f"update_activity({sid!r}) returned {r!r}, expected {exp}"))
        elif name == "delete":
            sid = self.target(op[1])
            r = sm.delete_session(sid)
            exp = sid in model
            model.pop(sid, None)
            if r is not exp:
                v.append(("delete_return", f"delete_session({sid!r}) returned {r!r}, expected {exp}"))
        elif name == "cleanup":
            max_age = op[1]
            r = sm.cleanup_expired(max_age) if max_age is not None else sm.cleanup_expired()
            lim = 3600 if max_age is None else max_age
            gone = [s for s, rec in model.items() if now - rec["last_activity"] > lim]
            for s in gone:
                del model[s]
            if r != len(gone):
                v.append(("cleanup_return", f"cleanup_expired({max_age}) returned {r!r}, expected {len(gone)}"))
        elif name == "list_mutate":
            listing = sm.list_sessions()
            if listing is getattr(sm, "sessions", None):
                v.append(("listing_is_store", "list_sessions returned the store itself"))
            try:
                listing["intruder"] = None
                for k in list(listing):
                    if k != "intruder":
                        del listing[k]
                        break
            except Exception as e:  # noqa
                v.append(("listing_not_mutable", f"mutating the listing raised {e!r}"))
        elif name == "clear":
            r = sm.clear_all_sessions()
            exp = len(model)
            model.clear()
            if r != exp:
                v.append(("clear_return", f"clear_all_sessions returned {r!r}, expected {exp}"))
        elif name == "init":
            self.n_created += 1
            # (clientInfo names the application, not the client: several clients running the same application send the
            # very same object - each of their handshakes is a session of its own)
            self.n_inits = getattr(self, "n_inits", 0) + 1
            if self.n_inits % 3:
                # (first and second of every three: the very same object, newer schema members included)
                ci = {"name": "same-app", "version": "9", "websiteUrl": "https://example.test/app", "x-vendor": {"build": None}}
            else:
                ci = {"name": f"init-client-{self.n_created}", "version": "9"}
                ci.update([{}, {"title": "Client \u00e9"}, {"icons": [{"src": "data:,x", "sizes": ["48x48"]}]},
                           {"x-vendor": {"n": [1, 2.5]}, "description": ""}][(self.n_inits // 3) % 4])
            req_ver = op[1] if len(op) > 1 else "2025-03-26"
            msg = parse_message({"jsonrpc": "2.0", "id": self.n_created, "method": "initialize",
                                 "params": {"protocolVersion": req_ver, "clientInfo": ci, "capabilities": {}}})
            before = set(sm.list_sessions())
            on_session = self.target(op[2]) if len(op) > 2 else None
            try:
                resp, sid = self.loop.run_until_complete(
                    self.handler.handle_message(msg, session_id=on_session) if on_session is not None
                    else self.handler.handle_message(msg))
            except Exception as e:  # noqa
                v.append(("initialize_raised", f"handle_message(initialize) raised {e!r}"))
                return v
            after = set(sm.list_sessions())
            added = after - before
            answered = None
            if resp is not None and getattr(resp, "result", None):
                answered = resp.result.get("protocolVersion")
            if len(added) != 1 or sid not in added or before - after:
                v.append(("initialize_session_count", f"initialize changed sessions by +{sorted(added)} "
                          f"-{sorted(before - after)}, returned {sid!r}"))
            if on_session is not None and on_session in model:
                model[on_session]["last_activity"] = now   # any message on a live session counts as activity
            if sid:
                if sid in self.known:
                    v.append(("duplicate_session_id", f"initialize returned an id already issued: {sid!r}"))
                model[sid] = {"client_info": ci, "protocol_version": answered, "created_at": now,
                              "last_activity": now, "metadata": {}}
                self.known.append(sid)
        elif name == "init_noid":
            # an initialize that arrives without an id cannot be answered, hence is not a successful initialize:
            # it must not leave a session behind that nobody was told about
            msg = parse_message({"jsonrpc": "2.0", "method": "initialize",
                                 "params": {"protocolVersion": "2025-06-18", "clientInfo": {"name": "anon", "version": "0"}, "capabilities": {}}})
            try:
                r = self.loop.run_until_complete(self.handler.handle_message(msg))
                if r[0] is not None:
                    v.append(("response_to_notification", f"id-less initialize answered with {r[0]!r}"))
            except Exception as e:  # noqa
                v.append(("request_raised", f"handle_message(id-less initialize) raised {e!r}"))
        elif name == "request":
            sid = self.target(op[1])
            msg = parse_message({"jsonrpc": "2.0", "id": 77, "method": op[2] if len(op) > 2 else "ping"})
            try:
                self.loop.run_until_complete(self.handler.handle_message(msg, session_id=sid))
            except Exception as e:  # noqa
                v.append(("request_raised", f"handle_message raised {e!r}"))
            if sid in model:
                model[sid]["last_activity"] = now
        elif name == "notify":
            sid = self.target(op[1])
            msg = parse_message({"jsonrpc": "2.0", "method": op[2] if len(op) > 2 else "notifications/cancelled",
                                 "params": {"requestId": 1}})
            try:
                r = self.loop.run_until_complete(self.handler.handle_message(msg, session_id=sid))
                if r[0] is not None:
                    v.append(("response_to_notification", f"notification answered with {r[0]!r}"))
            except Exception as e:  # noqa
                v.append(("request_raised", f"handle_message(notification) raised {e!r}"))
            if sid in model:
                model[sid]["last_activity"] = now
        elif name == "touch_meta":
            sid = self.target(op[1])
            rec = sm.get_session(sid)
            if rec is not None and sid in model:
                rec.metadata["touched"] = self.clock.now
                model[sid]["metadata"] = dict(model[sid]["metadata"], touched=self.clock.now)
        elif name == "advance":
            self.clock.now += op[1]
        else:
            raise ValueError(name)
        v += self.compare()
        return v

    def compare(self) -> List[Tuple[str, str]]:
        v = []
        sm, model = self.sm, self.model
        cnt = sm.get_session_count()
        if cnt != len(model):
            v.append(("count_mismatch", f"get_session_count()={cnt}, model has {len(model)}"))
        listing = sm.list_sessions()
        if set(listing) != set(model):
            extra, missing = set(listing) - set(model), set(model) - set(listing)
            mech = "phantom_session" if extra else "session_lost"
            v.append((mech, f"listing has extra={sorted(extra)} missing={sorted(missing)}"))
        for sid in self.known + ["missing-0", "missing-1", "missing-2", "intruder"]:
            rec = sm.get_session(sid)
            exp = model.get(sid)
            if (rec is None) != (exp is None):
                v.append(("phantom_session" if rec is not None else "session_lost",
                          f"get_session({sid!r}) -> {rec!r}, model -> {exp!r}"))
                continue
            if rec is None:
                continue
            got = {"client_info": rec.client_info, "protocol_version": rec.protocol_version,
                   "created_at": rec.created_at, "last_activity": rec.last_activity, "metadata": rec.metadata}
            if rec.session_id != sid:
                v.append(("record_mismatch", f"record for {sid!r} carries session_id {rec.session_id!r}"))
            if got != exp:
                diff = {k: (got[k], exp[k]) for k in got if got[k] != exp[k]}
                v.append(("record_mismatch", f"session {sid!r}: (impl, model) differ on {diff!r}"))
        return v

    def abstract(self) -> Tuple:
        now = self.clock.now
        return tuple((min(int(now - self.model[s]["last_activity"]), 3) if s in self.model else -1)
                     for s in self.known) + (len(self.known),)


TARGETS = [0, 1, 2]
OPS: List[Tuple] = ([("create",), ("list_mutate",), ("clear",), ("init",), ("get",), ("init", "2025-06-18", 0), ("init_noid",)]
                    + [("update", t) for t in TARGETS] + [("delete", t) for t in TARGETS]
                    + [("request", t) for t in TARGETS] + [("touch_meta", 0), ("notify", 0)]
                    + [("cleanup", a) for a in (0, 1, 2)] + [("advance", d) for d in (1, 2, 0.5)])


def run_sequence(ctx, seq: List[Tuple], cls: str) -> Optional[Tuple]:
    h = Harness()
    try:
        for i, op in enumerate(seq):
            viol = h.apply(tuple(op))
            ctx.count("ops_compared")
            if viol:
                seen = set()
                for mech, msg in viol:
                    if mech in seen:
                        continue
                    seen.add(mech)
                    ctx.violation(mech, f"after op #{i} {op!r}: {msg}", {"seq": [list(o) for o in seq[:i + 1]]})
                break
        final = h.abstract()
        created = sum(1 for o in seq if o[0] in ("create", "init"))
        ctx.record({"seq": [list(o) for o in seq]}, shape=list(final), nontrivial=created > 0 and len(seq) > 1, cls=cls,
                   sample={"seq": [list(o) for o in seq], "final_abstract_state": list(final),
                           "sessions_alive": len(h.model)})
        return final
    finally:
        h.close()


def inflight_tier(ctx):
    """A sweep that runs while a request of the session is still being handled: the request's arrival was activity, so a
    session whose last request arrived no longer than the limit ago is not idle and must survive the sweep."""
    from chuk_mcp.protocol.messages.json_rpc_message import parse_message
    for t_arrive, t_sweep, max_age in ((40.0, 60.0, 50.0), (10.0, 100.0, 95.0), (40.0, 60.0, 15.0), (0.5, 1.0, 0.75), (40.0, 60.0, 20.0)):
        for how in ("request", "notification"):
            h = Harness()
            case = {"inflight": True, "arrive": t_arrive, "sweep": t_sweep, "max_age": max_age, "message": how}
            try:
                ph, sm = h.handler, h.sm

                async def main():
                    resp, sid = await ph.handle_message(parse_message({
                        "jsonrpc": "2.0", "id": 1, "method": "initialize",
                        "params": {"protocolVersion": "2025-06-18", "clientInfo": {"name": "c", "version": "1"}, "capabilities": {}}}))
                    t0 = h.clock.now
                    gate = asyncio.Event()

                    async def slow(message, session_id):
                        await gate.wait()
                        mid = getattr(message, "id", None)
                        return (ph.create_response(mid, {"slow": True}) if mid is not None else None), None
                    ph.register_method("custom/slow" if how == "request" else "notifications/custom-slow", slow)
                    h.clock.now = t0 + t_arrive
                    wire = {"jsonrpc": "2.0", "method": "custom/slow" if how == "request" else "notifications/custom-slow"}
                    if how == "request":
                        wire["id"] = 2
                    task = asyncio.ensure_future(ph.handle_message(parse_message(wire), session_id=sid))
                    for _ in range(5):
                        await asyncio.sleep(0)
                    h.clock.now = t0 + t_sweep
                    rec = sm.get_session(sid)
                    seen_activity = getattr(rec, "last_activity", None)
                    removed = sm.cleanup_expired(max_age)
                    alive = sm.get_session(sid) is not None
                    gate.set()
                    await task
                    return t0, seen_activity, removed, alive, sm.get_session(sid) is not None
                t0, seen_activity, removed, alive, alive_after = h.loop.run_until_complete(main())
            finally:
                h.close()
            ctx.count("ops_compared")
            ctx.count("inflight_sweeps")
            idle = t_sweep - t_arrive
            should_survive = idle <= max_age
            if should_survive and (removed != 0 or not alive):
                ctx.violation("active_session_expired", f"session created at t0, {how} arrived at t0+{t_arrive} and is still being "
                              f"handled; cleanup_expired({max_age}) at t0+{t_sweep} removed {removed} session(s) (session alive: {alive}; "
                              f"last_activity seen {None if seen_activity is None else seen_activity - t0} after t0) - idle for {idle} only", case)
            if not should_survive and (removed != 1 or alive):
                ctx.violation("expired_session_kept", f"session idle for {idle} > {max_age} at the sweep: removed {removed}, alive {alive}", case)
            ctx.record(case, shape=[removed, alive, alive_after], nontrivial=True, cls="inflight_sweep",
                       sample={"case": case, "removed": removed, "alive": alive})


def run(ctx):
    if ctx.shard[0] == 0:
        inflight_tier(ctx)
    rng = ctx.sub_rng("c19")
    # ---- id uniqueness (shard 0) -------------------------------------------
    if ctx.shard[0] == 0:
        from chuk_mcp.server.session.memory import SessionManager
        sm = SessionManager()
        ids = [sm.generate_session_id() for _ in range(100_000)]
        ctx.count("ids_drawn", len(ids))
        if len(set(ids)) != len(ids) or not all(isinstance(i, str) and i for i in ids):
            ctx.violation("duplicate_session_id", f"{len(ids) - len(set(ids))} duplicates among 100000 generated ids "
                          f"(sample {ids[:3]!r})", {"ids": "100000 draws"})
        created = [sm.create_session({"n": i}, "2025-06-18") for i in range(10_000)]
        if len(set(created)) != 10_000 or sm.get_session_count() != 10_000:
            ctx.violation("duplicate_session_id", f"10000 create_session calls produced {len(set(created))} distinct ids, "
                          f"count={sm.get_session_count()}", {"ids": "10000 creates"})
        # ids must not follow the state of a generator the application can reset: a handler (or a test fixture)
        # calling random.seed(...) between two sessions must not make ids repeat
        import random as _random
        state = _random.getstate()
        try:
            reseeded = []
            for r in range(200):
                _random.seed(1234 if r % 2 else r // 50)
                reseeded.append(sm.generate_session_id())
                reseeded.append(sm.create_session({"n": r}, "2025-06-18"))
            try:
                import numpy  # noqa: F401 - only if the application could have it
                numpy.random.seed(7)
            except Exception:
                pass
        finally:
            _random.setstate(state)
        ctx.count("ids_drawn", len(reseeded))
        if len(set(reseeded)) != len(reseeded) or set(reseeded) & set(ids):
            ctx.violation("duplicate_session_id", f"{len(reseeded) - len(set(reseeded))} duplicates among {len(reseeded)} ids drawn "
                          f"while the application re-seeds the random module between draws (sample {reseeded[:4]!r})",
                          {"ids": "reseeded draws"})
        ctx.record({"ids": 100000}, shape=len(set(ids)), cls="id_uniqueness")

    # ---- exhaustive short sequences ----------------------------------------
    maxlen = 3 if ctx.tier == "quick" else 4
    for L in range(1, maxlen + 1):
        for seq in itertools.product(OPS, repeat=L):
            if sum(1 for o in seq if o[0] in ("create", "init")) > 3:
                continue
            if not ctx.mine():
                continue
            if ctx.out_of_time("exhaustive sequences"):
                ctx.exhaustive = False
                break
            run_sequence(ctx, list(seq), f"exh{L}")
    if ctx.exhaustive is None:
        ctx.exhaustive = True
    ctx.extra["exhaustive_bounds"] = {"alphabet": len(OPS), "max_len": maxlen, "max_creations": 3}

    # ---- breadth-first over abstract states (thorough) ----------------------
    if ctx.tier == "thorough" and ctx.shard[0] == 0:
        frontier = [[]]
        seen = {()}
        depth = 0
        states = 1
        transitions = 0
        while frontier and depth < 8 and not ctx.out_of_time("bfs"):
            nxt = []
            for prefix in frontier:
                for op in OPS:
                    seq = prefix + [op]
                    if sum(1 for o in seq if o[0] in ("create", "init")) > 3:
                        continue
                    transitions += 1
                    st = run_sequence(ctx, seq, f"bfs{depth + 1}")
                    if st is not None and st not in seen:
                        seen.add(st)
                        states += 1
                        nxt.append(seq)
            frontier = nxt
            depth += 1
        ctx.extra["bfs"] = {"depth": depth, "abstract_states": states, "transitions": transitions}

    # ---- seeded sequences ---------------------------------------------------
    n_short, n_long = (3000, 60) if ctx.tier == "quick" else (60000, 2000)
    extra_ops = OPS + [("cleanup", None), ("advance", 3600), ("advance", 1800), ("advance", 0.25), ("advance", 1.5),
                       ("advance", 3600.5), ("request", 0, "tools/list"),
                       ("init", "1999-01-01"), ("init", "2025-06-18"), ("update", 5), ("delete", 7), ("touch_meta", 1),
                       ("notify", 1), ("notify", 0, "notifications/initialized"), ("init", "2024-11-05", 1), ("init", "1999-01-01", 0),
                       ("init", "2025-03-26", 9)]
    for k in range(n_short + n_long):
        L = rng.randint(4, 12) if k < n_short else 200
        seq = []
        for _ in range(L):
            op = rng.choice(extra_ops)
            if op[0] in ("update", "delete", "request", "touch_meta", "notify") and rng.random() < 0.7:
                op = (op[0], rng.randint(0, 12)) + tuple(op[2:])
            seq.append(op)
        if not ctx.mine():
            continue
        if ctx.out_of_time("seeded sequences"):
            break
        run_sequence(ctx, seq, "seeded_short" if k < n_short else "seeded_200")
    ctx.require_reached("ops_compared")


def replay(ctx, case):
    if case.get("inflight"):
        inflight_tier(ctx)
        return
    run_sequence(ctx, [tuple(o) for o in case["seq"]], "replay")
    ctx.record({"x": 1}, shape=1)
