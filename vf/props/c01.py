"""C01 - a request completes only with the response that bears its own id.

Events: every receive()/send() at the (read, write) stream boundary, with
virtual time; the call's outcome and completion time.
Oracle: reference model over the arrival script (see DESIGN.md C01).
"""
from __future__ import annotations

import asyncio
import inspect
import itertools
from typing import Any, Dict, List, Optional, Tuple

from vf.recorders import Pipe
from vf.ref import strict_eq, tagged
from vf.vloop import run_virtual, vsleep_until, HangDetected

ID = "C01"
LEVEL = "exploration"
BACKENDS = ["pydantic", "fallback"]   # every case is executed under both validation backends
LOGLEVELS = ["default", "debug"]   # every case also runs with the root logger at DEBUG (as --verbose does)
SHARDS = {"quick": 4, "thorough": 16}
BUDGET_S = {"quick": 90.0, "thorough": 600.0}
RULE = ("Histories of incoming messages (kinds x virtual arrival times around the 0.5 s poll "
        "boundaries and the deadline x id shapes x params shapes x message construction path), "
        "bounded-exhaustive for short histories plus seeded longer ones; thorough adds every "
        "discovered typed send_* helper. A case is non-trivial when at least one message arrives; "
        "distinct = hash(case) + hash(observed receive/outcome shape).")
TECHNIQUE = "runtime monitoring: stream-boundary event recorder + reference-model oracle over virtual-time arrival histories"
LEVEL_TEXT = ("Every generated history is executed against the real send_message / typed helpers on a "
              "virtual-time loop and decided by a reference model of 'first matching response wins'; "
              "bounded-exhaustive for histories of length <=2-3 over 14 message kinds and a time grid "
              "around poll boundaries and the deadline, seeded beyond. Held = on the histories explored."
              " Also through the real stdio transport: 0-1000 non-matching messages of mixed kinds ahead of the matching response, in 1 or 3 writes."
              ' Also calls with the optional arguments (progress callback, never-triggered token), boundary deadlines (0, 10 ms, 1e6 s) and failing streams.'
              ' Also one-member and empty batches, falsy payloads ({} [] 0 false "").'
              ' Every case also runs under the dependency-free validation backend.'
              ' Also params in which the caller chose its own progress token (no callback) or put other members into _meta.'
              " Also a transport that accepts the request only after part or all of the caller's deadline has gone (the deadline counts from the call)."
              " Also notifications whose params mention the pending request's id (a peer's notifications/cancelled naming it, a progress token equal to it)."
              ' Also matching error responses of other classes (-32001, -32000, -32603, -32002, an application-defined code).')
LEVEL_NOTE = ("Trusted: the virtual-time loop (asyncio SelectorEventLoop subclass), anyio memory streams, "
              "the oracle in vf/props/c01.py. Schedules not generated are not covered.")
ASSUMPTIONS = [
    "virtual-time asyncio loop: deadlines come from loop.time(); the FIFO ready queue is never reordered",
    "arrivals exactly at the deadline accept either outcome (the statement does not order simultaneous events)",
    "for result:null the call may return None or the response's own dump (docstring: 'or full response dict')",
]

TIMEOUT = 2.0
EPS = 0.001

KINDS = ["match_result", "match_null", "match_error", "match_scalar", "same_id_request",
         "same_id_request_params", "other_response", "other_request", "notification",
         "progress", "batch_with_match", "other_error", "int_twin", "match_result2",
         "batch_of_one_match", "batch_of_one_error", "batch_empty",
         "match_empty_obj", "match_empty_list", "match_zero", "match_false", "match_empty_str", "progress_own",
         # notifications whose *params* mention the pending request's id: ids are per direction, so a peer's
         # notifications/cancelled naming that id speaks of one of the peer's own requests, and a progress token that
         # equals the id is a token - neither is the response
         "note_cancelled_names_id", "note_token_is_id",
         "match_error_code_-32001", "match_error_code_-32000", "match_error_code_-32603", "match_error_code_-32002", "match_error_code_7"]


# ids of distractor responses are drawn from the ids that other calls of the same process use as their own
# request id: any state kept between calls and keyed by id (a stash of "unclaimed" responses, a routing table)
# then shows up as a later call completing although nothing with its id arrived on its own stream
REUSED_IDS = ["req-1", "123", "007", "-5", "a b", "0", "reuse-7"]


def _wire(kind: str, rid: Any, n: int) -> Any:
    other = next(i for i in (REUSED_IDS[n % len(REUSED_IDS):] + REUSED_IDS) if i != rid)
    if kind == "match_result":
        return {"jsonrpc": "2.0", "id": rid, "result": {"tag": f"own-{n}", "nested": {"n": None}}}
    if kind == "match_result2":
        return {"jsonrpc": "2.0", "id": rid, "result": {"tag": f"second-{n}"}}
    if kind == "match_null":
        return {"jsonrpc": "2.0", "id": rid, "result": None}
    if kind in ("match_empty_obj", "match_empty_list", "match_zero", "match_false", "match_empty_str"):
        # falsy payloads: still the payload
        return {"jsonrpc": "2.0", "id": rid, "result": {"match_empty_obj": {}, "match_empty_list": [], "match_zero": 0,
                                                        "match_false": False, "match_empty_str": ""}[kind]}
    if kind == "match_scalar":
        return {"jsonrpc": "2.0", "id": rid, "result": [1, "two", None]}
    if kind == "match_error":
        return {"jsonrpc": "2.0", "id": rid, "error": {"code": -32601, "message": f"nope-{n}"}}
    if kind.startswith("match_error_code_"):
        # the matching response is an error of another class: the peer's own "timeout" / "connection closed" / internal /
        # application-defined codes - an answer all the same, reported as the error it is (with its code)
        return {"jsonrpc": "2.0", "id": rid, "error": {"code": int(kind[len("match_error_code_"):]), "message": f"Request timed out? no: answered-{n}"}}
    if kind == "same_id_request":
        return {"jsonrpc": "2.0", "id": rid, "method": "sampling/createMessage"}
    if kind == "same_id_request_params":
        return {"jsonrpc": "2.0", "id": rid, "method": "roots/list", "params": {"x": n}}
    if kind == "other_response":
        return {"jsonrpc": "2.0", "id": other, "result": {"tag": f"foreign-{n}"}}
    if kind == "other_error":
        return {"jsonrpc": "2.0", "id": other, "error": {"code": -32603, "message": "foreign"}}
    if kind == "other_request":
        return {"jsonrpc": "2.0", "id": other, "method": "ping"}
    if kind == "notification":
        return {"jsonrpc": "2.0", "method": "notifications/message", "params": {"level": "info", "data": n}}
    if kind == "note_cancelled_names_id":
        return {"jsonrpc": "2.0", "method": "notifications/cancelled", "params": {"requestId": rid, "reason": f"peer gave up {n}"}}
    if kind == "note_token_is_id":
        return {"jsonrpc": "2.0", "method": "notifications/progress", "params": {"progressToken": rid, "progress": n, "total": 3}}
    if kind in ("progress", "progress_own"):
        return {"jsonrpc": "2.0", "method": "notifications/progress",
                "params": {"progressToken": "tok", "progress": n, "total": 10}}
    if kind == "batch_with_match":
        return [{"jsonrpc": "2.0", "id": rid, "result": {"tag": f"in-batch-{n}"}},
                {"jsonrpc": "2.0", "id": other, "result": {}}]
    if kind == "batch_of_one_match":
        return [{"jsonrpc": "2.0", "id": rid, "result": {"tag": f"single-member-batch-{n}"}}]
    if kind == "batch_of_one_error":
        return [{"jsonrpc": "2.0", "id": rid, "error": {"code": -32601, "message": f"batched-{n}"}}]
    if kind == "batch_empty":
        return []
    if kind == "int_twin":
        # same digits, other JSON type: only meaningful for digit-string ids
        if isinstance(rid, str) and rid.lstrip("-").isdigit():
            return {"jsonrpc": "2.0", "id": int(rid), "result": {"tag": f"twin-{n}"}}
        return {"jsonrpc": "2.0", "id": other, "result": {"tag": f"twin-{n}"}}
    raise KeyError(kind)


def _build(wire: Any, how: str):
    from chuk_mcp.protocol.messages import json_rpc_message as J

    if isinstance(wire, list):
        return [_build(w, how) for w in wire]
    if how == "validate":
        try:
            return J.JSONRPCMessage.model_validate(wire)
        except Exception:
            return J.parse_message(wire)
    return J.parse_message(wire)


def _is_matching_response(wire: Any, rid: Any) -> bool:
    return (isinstance(wire, dict) and "method" not in wire and "id" in wire
            and strict_eq(wire["id"], rid) and (("result" in wire) != ("error" in wire)))


async def _drive(case: Dict[str, Any], call) -> Dict[str, Any]:
    """Run one history.  `call(read, write)` is the coroutine issuing the request."""
    pipe = Pipe()
    loop = asyncio.get_running_loop()
    obs: Dict[str, Any] = {"sent": [], "arrived": []}

    async def server():
        first = await pipe.srv_recv.receive()
        obs["sent"].append(first)
        rid = getattr(first, "id", None)
        obs["rid"] = rid
        n = 0
        groups: Dict[float, List[Any]] = {}
        for t, kind in case["arrivals"]:
            if case.get("inject") != "timer":
                await vsleep_until(t)
            n += 1
            wire = _wire(kind, rid, n)
            if kind == "progress_own":
                # a progress update for *this* request (the token the call put into its _meta, if it asked for progress)
                meta = (getattr(first, "params", None) or {}).get("_meta") or {}
                wire["params"]["progressToken"] = meta.get("progressToken", "no-token-requested")
            try:
                obj = _build(wire, case.get("build", "parse"))
            except Exception as e:  # the library cannot even represent it
                obs["arrived"].append({"t": t, "kind": kind, "wire": wire, "unbuildable": repr(e)})
                continue
            obs["arrived"].append({"t": t, "kind": kind, "wire": wire})
            if case.get("inject") == "timer":
                # the message is put on the stream by a callback of the same loop iteration in which other timers
                # (a poll slice ending, the deadline) are due - as when a transport reader is resumed by I/O in that
                # iteration; together with the seeded tie order this explores both orders of the two events
                # arrivals with the same arrival time keep their scripted order: one callback per instant
                groups.setdefault(t, []).append(obj)
            else:
                pipe.srv_send.send_nowait(obj)
        for gt, objs in groups.items():
            loop.call_at(max(gt, loop.time()), lambda objs=objs: [pipe.srv_send.send_nowait(o) for o in objs])
        if case.get("inject") == "timer":
            await vsleep_until(max([t for t, _ in case["arrivals"]] + [0]) + 0.001)
        # keep draining further writes
        while True:
            try:
                m = await pipe.srv_recv.receive()
            except Exception:
                return
            obs["sent"].append(m)

    st = asyncio.create_task(server(), name="server")
    t_start = loop.time()
    try:
        res = await call(pipe.read, pipe.write)
        obs["outcome"] = ("return", res)
    except BaseException as e:  # noqa
        if isinstance(e, (KeyboardInterrupt, SystemExit)):
            raise
        obs["outcome"] = ("raise", e)
    obs["t_done"] = loop.time() - t_start
    # let the server finish recording late arrivals it has already scheduled? no: stop it
    st.cancel()
    try:
        await st
    except BaseException:
        pass
    obs["trace"] = pipe.trace
    pipe.close()
    return obs


def _expected_payload_ok(wire: Dict[str, Any], outcome, req_dump_ok=True) -> Tuple[bool, str]:
    kind, val = outcome
    if "error" in wire:
        if kind != "raise":
            return False, f"matching error response completed normally with {val!r}"
        code = wire["error"].get("code")
        if getattr(val, "code", None) != code:
            return False, f"exception {val!r} does not carry code {code}"
        return True, ""
    if kind != "return":
        return False, f"matching result response ended with {val!r}"
    res = wire["result"]
    if res is None:
        if val is None:
            return True, ""
        if isinstance(val, dict) and val.get("id") == wire["id"] and val.get("result") is None \
                and not val.get("method"):
            return True, ""
        return False, f"result:null response produced {val!r}"
    if strict_eq(val, res):
        return True, ""
    return False, f"returned {val!r}, response carried {res!r}"


def check_history(ctx, case: Dict[str, Any], obs: Dict[str, Any], *, timeout: float,
                  expect_request: Optional[Dict[str, Any]], typed_helper: bool = False) -> str:
    """Oracle.  Returns a short observed-shape string; reports violations on ctx."""
    trace = obs["trace"]
    rid = obs.get("rid")
    outcome = obs.get("outcome")
    sends = [e for e in trace.events if e["op"] == "send"]
    recvs = [e for e in trace.events if e["op"] == "receive"]
    ctx.count("receive_events", len(recvs))
    ctx.count("send_events", len(sends))

    # --- exactly one request written, before waiting starts -------------
    reqs = [e for e in sends if getattr(e["obj"], "method", None) is not None
            and getattr(e["obj"], "id", None) is not None]
    if len(reqs) != 1:
        ctx.violation("request_write_count", f"{len(reqs)} requests written (expected exactly 1)",
                      case, [e["item"] for e in sends])
    elif recvs and reqs[0]["seq"] > recvs[0]["seq"]:
        ctx.violation("request_after_wait", "request written after waiting started", case)
    if reqs and expect_request is not None:
        o = reqs[0]["obj"]
        dump = o.model_dump(exclude_none=True)
        if dump.get("jsonrpc") != "2.0" or dump.get("method") != expect_request["method"]:
            ctx.violation("request_content", f"request written as {dump!r}", case)
        if expect_request.get("id") is not None and not strict_eq(dump.get("id"), expect_request["id"]):
            ctx.violation("request_content", f"request id {dump.get('id')!r} != given "
                          f"{expect_request['id']!r}", case)
        if not isinstance(dump.get("id"), (str, int)) or isinstance(dump.get("id"), bool):
            ctx.violation("request_content", f"request id {dump.get('id')!r} is not str/int", case)
        ep = expect_request.get("params")
        gp = dump.get("params")
        if expect_request.get("meta_added") and isinstance(gp, dict) and isinstance(gp.get("_meta"), dict):
            # with a progress callback the library puts its own progress token into _meta (replacing a caller's): the
            # token aside, _meta is the caller's
            gmeta = {k: v for k, v in gp["_meta"].items() if k != "progressToken"}
            emeta = {k: v for k, v in ((ep or {}).get("_meta") or {}).items() if k != "progressToken"} if isinstance(ep, dict) else {}
            gp = {k: v for k, v in gp.items() if k != "_meta"}
            ep = {k: v for k, v in ep.items() if k != "_meta"} if isinstance(ep, dict) else ep
            if not strict_eq(gmeta, emeta):
                ctx.violation("request_content", f"request _meta {gmeta!r} (token aside) != given {emeta!r}", case)
        if not (strict_eq(gp, ep) or (ep is None and gp in (None, {})) ):
            ctx.violation("request_content", f"request params {gp!r} != given {ep!r}", case)
    extra = [e for e in sends if e not in reqs]
    if extra:
        ctx.violation("unexpected_write", f"unexpected extra writes {[e['item'] for e in extra]}", case)

    # --- which response should win --------------------------------------
    arrived = [a for a in obs["arrived"] if "unbuildable" not in a]
    R = None
    R_amb = None
    for a in arrived:
        if _is_matching_response(a["wire"], rid):
            if a["t"] < timeout - EPS / 2:
                R = a
                break
            if abs(a["t"] - timeout) <= EPS / 2 and R_amb is None:
                R_amb = a
    shape = []
    if outcome is None:
        ctx.violation("no_outcome", "call produced no outcome", case)
        return "none"
    okind, oval = outcome
    t_done = obs["t_done"]

    def is_timeout(v):
        return isinstance(v, TimeoutError)

    # never later than the deadline
    if t_done > timeout + EPS:
        ctx.violation("deadline_overrun", f"call ended at {t_done} > timeout {timeout}", case, repr(oval))

    def foreign_payload_check():
        # independently of R: the returned object must not be (the dump of) any other message
        if okind != "return":
            return
        # a value that is exactly what the winning response carried is not attributed to a foreign message that happens
        # to carry an equal payload (two messages may both hold {} or [])
        for cand in (R, R_amb):
            if cand is not None and _expected_payload_ok(cand["wire"], outcome)[0]:
                return
        for a in arrived:
            w = a["wire"]
            wl = w if isinstance(w, list) else [w]
            for ww in wl:
                if R is not None and ww is R["wire"]:
                    continue
                if R_amb is not None and ww is R_amb["wire"]:
                    continue
                if _is_matching_response(ww, rid) and not isinstance(w, list):
                    continue  # a later matching response: handled by "first" rule below
                payload = ww.get("result") if "result" in ww else None
                hit = False
                if payload is not None and strict_eq(oval, payload):
                    hit = True
                if isinstance(oval, dict) and "method" in ww and oval.get("method") == ww["method"] \
                        and oval.get("id") == ww.get("id"):
                    hit = True
                if isinstance(oval, dict) and oval.get("jsonrpc") == "2.0" and \
                        "id" in ww and oval.get("id") == ww.get("id") and not strict_eq(ww.get("id"), rid):
                    hit = True
                if hit:
                    mech = "returned_foreign_message"
                    if isinstance(w, list):
                        mech = "returned_batch_member"
                    elif "method" in ww and strict_eq(ww.get("id"), rid):
                        mech = "same_id_request_returned_as_result"
                    elif "id" in ww and not strict_eq(ww["id"], rid) and tagged(str(ww["id"])) == tagged(str(rid)):
                        mech = "id_type_confusion"
                    ctx.violation(mech, f"call returned {oval!r}, which is message {ww!r} "
                                  f"(kind {a['kind']}), not a response to id {rid!r}", case)
                    return

    foreign_payload_check()

    if R is not None:
        ok, why = _expected_payload_ok(R["wire"], outcome)
        if not ok:
            # classify
            if okind == "raise" and is_timeout(oval):
                ctx.violation("matching_response_lost", f"response {R['wire']!r} arrived at t={R['t']} "
                              f"but the call timed out", case)
            elif okind == "return" and typed_helper:
                pass  # typed helpers wrap the payload; checked by caller
            elif okind == "raise" and typed_helper and "error" not in R["wire"]:
                pass  # typed helper may reject a payload it cannot validate; caller checks
            else:
                # was it a later matching response?
                later = [a for a in arrived if a is not R and _is_matching_response(a["wire"], rid)
                         and _expected_payload_ok(a["wire"], outcome)[0]]
                if later:
                    ctx.violation("not_first_matching_response", f"completed with a later matching "
                                  f"response instead of the first: {why}", case)
                else:
                    ctx.violation("wrong_completion", why, case)
        else:
            # completion time: must not complete before the response arrived
            if t_done + EPS < R["t"]:
                ctx.violation("completed_before_response", f"done at {t_done} < arrival {R['t']}", case)
        shape.append("R@" + R["kind"])
    elif R_amb is not None:
        ok, _ = _expected_payload_ok(R_amb["wire"], outcome)
        if not (ok or (okind == "raise" and is_timeout(oval))):
            ctx.violation("wrong_completion", f"deadline-simultaneous response: outcome {oval!r}", case)
        shape.append("R~deadline")
    else:
        if not (okind == "raise" and is_timeout(oval)):
            if okind == "return":
                ctx.violation("returned_without_response",
                              f"no matching response arrived, yet the call returned {oval!r}", case)
            else:
                ctx.violation("wrong_exception_without_response",
                              f"no matching response arrived; expected TimeoutError, got {oval!r}", case)
        elif abs(t_done - timeout) > EPS:
            ctx.violation("timeout_at_wrong_time", f"TimeoutError at {t_done}, timeout={timeout}", case)
        shape.append("timeout")
    shape.append(type(oval).__name__ if okind == "raise" else "ret")
    shape.append(f"rx{len([e for e in recvs if e.get('done')])}")
    return ",".join(shape)


# ---------------------------------------------------------------------------
def _time_grid(timeout: float, fine: bool) -> List[float]:
    g = [0.0, 0.25, 0.5 - EPS, 0.5, 0.5 + EPS, 0.75, 1.0 - EPS, 1.0, 1.0 + EPS,
         timeout - 0.5, timeout - EPS, timeout, timeout + EPS]
    if fine:
        g += [0.1, 0.49, 0.51, 0.99, 1.01, 1.5 - EPS, 1.5 + EPS, timeout - 0.25, timeout + 0.3]
    return sorted(set(round(x, 6) for x in g))


ID_SHAPES = [None, "req-1", "123", "007", "-5", "a b", "ünï-😀", "0", "reuse-7"]
PARAMS_SHAPES = [None, {}, {"name": "t", "arguments": {"a": None, "b": [1, {"c": None}]}},
                 # a caller that chooses its own progress token (and follows the progress itself), other _meta members
                 {"name": "slow", "arguments": {}, "_meta": {"progressToken": "caller-tok-1"}},
                 {"name": "slow", "_meta": {"progressToken": 7, "trace": {"id": None}}},
                 {"_meta": {}}, {"_meta": {"only": "this"}}]


def gen_cases(ctx):
    tier = ctx.tier
    rng = ctx.sub_rng("c01")
    grid = _time_grid(TIMEOUT, fine=(tier == "thorough"))
    coarse = [0.0, 0.5, 0.75, TIMEOUT - EPS, TIMEOUT + EPS]
    # 1. every single kind at every grid time, both construction paths, a few id shapes
    for kind in KINDS:
        for t in grid:
            for build in ("parse", "validate"):
                for mid in (None, "123"):
                    yield {"mid": mid, "params": None, "build": build, "arrivals": [[t, kind]]}
            if abs(t * 2 - round(t * 2)) < 1e-9 and kind.startswith("match"):
                # arrival at the instant a poll slice (or the deadline) ends: both orders of the two timers
                for tie in (1, 2, 3, 4):
                    yield {"mid": None, "params": None, "build": "parse", "arrivals": [[t, kind]], "tie": tie}
                    yield {"mid": None, "params": None, "build": "parse", "arrivals": [[t, kind]], "tie": tie,
                           "inject": "timer"}
    # 1b. deadlines that do not fall on a poll boundary: arrivals around the deadline and up to the next poll boundary
    for T in (0.3, 0.7, 1.3, 1.05):
        nxt = (int(T / 0.5) + 1) * 0.5
        for t in sorted({0.0, T - 0.1, T - EPS, T, T + EPS, T + 0.05, round((T + nxt) / 2, 3), nxt - EPS, nxt, nxt + EPS, 0.5 - EPS, 0.5}):
            if t < 0:
                continue
            for kind in ("match_result", "match_error", "same_id_request", "other_response", "notification"):
                for inject in ("task", "timer"):
                    yield {"mid": None, "params": None, "build": "parse", "arrivals": [[round(t, 6), kind]], "timeout": T,
                           "inject": inject, "tie": 1 if inject == "timer" else None}
        # a distractor shifts the poll phase, then the response comes late
        for shift in (0.2, 0.45):
            yield {"mid": None, "params": None, "build": "parse", "timeout": T,
                   "arrivals": [[shift, "notification"], [round(T + 0.1, 3), "match_result"]]}
            yield {"mid": None, "params": None, "build": "parse", "timeout": T,
                   "arrivals": [[shift, "other_response"], [round(T - 0.05, 3), "match_result"]]}
    # 1b'. boundary deadlines: zero, tiny, huge
    for T, times in ((0.0, [0.0, 0.2]), (0.01, [0.0, 0.005, 0.2]), (1e6, [0.0, 3.0, 60.25]), (86400.0 * 365, [12.5])):
        for t in times:
            for kind in ("match_result", "match_error", "notification", "same_id_request"):
                if T > 100 and not kind.startswith("match"):
                    continue   # nothing ever matches: the call would poll for the whole (huge) deadline
                yield {"mid": None, "params": None, "build": "parse", "arrivals": [[t, kind]], "timeout": T}
            yield {"mid": None, "params": None, "build": "parse", "timeout": T,
                   "arrivals": [[t, "other_response"], [t, "match_result"]]}
    # 1c. the optional arguments of the call switch on other code paths in the wait loop: every kind, alone and
    #     followed by a matching response, with a progress callback and/or a (never triggered) cancellation token
    for optset in (["progress_cb"], ["cancel_token"], ["progress_cb", "cancel_token"]):
        for kind in KINDS:
            for t in (0.0, 0.5, 0.75):
                yield {"mid": None, "params": None, "build": "parse", "arrivals": [[t, kind]], "opts": optset}
                yield {"mid": "123", "params": {"a": 1}, "build": "validate", "opts": optset,
                       "arrivals": [[t, kind], [round(t + 0.3, 3), "match_result2"]]}
    # 1d. progress for the request itself keeps arriving, the response comes after the deadline (or never): the deadline
    #     is the deadline
    for T in (1.0, 2.0):
        for late in (None, T + 0.4):
            arr = [[round(0.3 * k, 3), "progress_own"] for k in range(1, int(T / 0.3) + 3)]
            if late:
                arr.append([late, "match_result"])
            yield {"mid": None, "params": {"a": 1}, "build": "parse", "timeout": T, "opts": ["progress_cb"],
                   "arrivals": sorted(arr, key=lambda a: a[0])}
    # 2. all ordered pairs of kinds on coarse slots (t1<=t2)
    for k1, k2 in itertools.product(KINDS, repeat=2):
        for i, t1 in enumerate(coarse):
            for t2 in coarse[i:]:
                yield {"mid": "123" if "twin" in (k1 + k2) else None, "params": {},
                       "build": "parse", "arrivals": [[t1, k1], [t2, k2]]}
    # 3. id shapes x params shapes
    for mid in ID_SHAPES:
        for p in PARAMS_SHAPES:
            for kind in ("match_result", "same_id_request", "int_twin", "other_response"):
                yield {"mid": mid, "params": p, "build": "parse", "arrivals": [[0.3, kind]]}
    # 4. triples (quick: distractor kinds then a match)
    kinds3 = KINDS if tier == "thorough" else ["match_result", "match_error", "same_id_request",
                                              "other_response", "notification", "batch_with_match"]
    slots = [0.0, 0.5, 1.0 + EPS]
    for ks in itertools.product(kinds3, repeat=3):
        yield {"mid": None, "params": None, "build": "validate",
               "arrivals": [[slots[i], k] for i, k in enumerate(ks)]}
    # 5. seeded longer histories
    n_seeded = 1500 if tier == "quick" else 40000
    for _ in range(n_seeded):
        L = rng.randint(3, 8 if tier == "quick" else 12)
        ts = sorted(rng.choice(grid) if rng.random() < 0.7 else round(rng.uniform(0, TIMEOUT + 0.4), 3)
                    for _ in range(L))
        yield {"mid": rng.choice(ID_SHAPES), "params": rng.choice(PARAMS_SHAPES),
               "build": rng.choice(["parse", "validate"]),
               "arrivals": [[t, rng.choice(KINDS)] for t in ts], "tie": rng.randint(0, 3),
               "inject": rng.choice(["task", "task", "timer"]),
               "opts": rng.choice([[], [], ["progress_cb"], ["cancel_token"], ["progress_cb", "cancel_token"]])}


def exec_case(ctx, case: Dict[str, Any]) -> None:
    from chuk_mcp.protocol.messages.send_message import send_message
    import copy

    params = copy.deepcopy(case["params"])

    T = case.get("timeout", TIMEOUT)

    opts = case.get("opts") or []
    kw: Dict[str, Any] = {}
    if "progress_cb" in opts:
        async def _cb(progress, total, message):
            return None
        kw["progress_callback"] = _cb
    if "cancel_token" in opts:
        from chuk_mcp.protocol.messages.send_message import CancellationToken
        kw["cancellation_token"] = CancellationToken()   # never triggered

    async def call(r, w):
        return await send_message(r, w, "tools/call", params, timeout=T,
                                  message_id=case["mid"], **kw)

    async def main():
        return await _drive(case, call)

    try:
        obs, loop = run_virtual(main, tie_seed=case.get("tie"), max_iterations=20_000)
    except HangDetected as e:
        ctx.violation("hang", f"virtual loop hang: {e}", case)
        ctx.record(case, shape="hang")
        return
    mid = case["mid"]
    expect = {"method": "tools/call", "id": mid if mid else None, "params": case["params"],
              "meta_added": "progress_cb" in opts}
    shape = check_history(ctx, case, obs, timeout=T, expect_request=expect)
    ctx.record(case, shape=shape, nontrivial=bool(case["arrivals"]),
               cls=case["arrivals"][0][1] if len(case["arrivals"]) == 1 else f"len{min(len(case['arrivals']), 4)}",
               sample={"case": case, "observed": shape,
                       "receives": [(e.get("vt_done"), e.get("item")) for e in obs["trace"].events
                                    if e["op"] == "receive" and e.get("done")][:6],
                       "t_done": obs["t_done"]})


# ---------------------------------------------------------------------------
# typed helpers (thorough + a small quick sample)
# ---------------------------------------------------------------------------
HELPER_RESULTS = {
    "tools/list": {"tools": []},
    "tools/call": {"content": [{"type": "text", "text": "x"}], "isError": False},
    "resources/list": {"resources": []},
    "resources/read": {"contents": [{"uri": "file:///a", "text": "x"}]},
    "resources/templates/list": {"resourceTemplates": []},
    "resources/subscribe": {},
    "resources/unsubscribe": {},
    "prompts/list": {"prompts": []},
    "prompts/get": {"messages": []},
    "ping": {},
    "logging/setLevel": {},
    "roots/list": {"roots": []},
    "completion/complete": {"completion": {"values": ["a"]}},
    "sampling/createMessage": {"role": "assistant", "content": {"type": "text", "text": "x"},
                               "model": "m"},
    "initialize": None,  # covered by C03
}


def discover_helpers():
    """Every coroutine function f(read_stream, write_stream, ...) under chuk_mcp.protocol.messages."""
    import importlib
    import pkgutil
    import chuk_mcp.protocol.messages as M

    found = {}
    for mi in pkgutil.walk_packages(M.__path__, M.__name__ + "."):
        try:
            mod = importlib.import_module(mi.name)
        except Exception:
            continue
        for name, fn in vars(mod).items():
            if not name.startswith("send_") or not inspect.iscoroutinefunction(fn):
                continue
            if getattr(fn, "__module__", None) != mod.__name__:
                continue
            ps = list(inspect.signature(fn).parameters)
            if ps[:2] == ["read_stream", "write_stream"]:
                found[f"{mod.__name__}.{name}"] = fn
    return found


def synth_args(fn) -> Dict[str, Any]:
    """Type-directed arguments for a helper's required parameters."""
    import typing
    out = {}
    sig = inspect.signature(fn)
    try:
        hints = typing.get_type_hints(fn)
    except Exception:
        hints = {}
    for name, p in sig.parameters.items():
        if name in ("read_stream", "write_stream"):
            continue
        if name == "timeout":
            out[name] = TIMEOUT
            continue
        if p.default is not inspect.Parameter.empty:
            continue
        if p.kind in (p.VAR_KEYWORD, p.VAR_POSITIONAL):
            continue
        h = hints.get(name, str)
        out[name] = _synth_value(name, h)
    return out


def _synth_value(name: str, h) -> Any:
    import typing
    origin = typing.get_origin(h)
    if h is str:
        if name == "uri":
            return "file:///x"
        if name == "level":
            return "info"
        return f"{name}-v"
    if h is int:
        return 1
    if h is float:
        return 1.0
    if h is bool:
        return True
    if origin in (list, typing.List):
        (a,) = typing.get_args(h) or (str,)
        if name == "messages":
            return [{"role": "user", "content": {"type": "text", "text": "hi"}}]
        return []
    if origin in (dict, typing.Dict) or h is dict:
        if name == "ref":
            return {"type": "ref/prompt", "name": "p"}
        if name == "argument":
            return {"name": "a", "value": "v"}
        return {}
    if origin is typing.Union:
        for a in typing.get_args(h):
            if a is not type(None):
                return _synth_value(name, a)
    if name == "ref":
        return {"type": "ref/prompt", "name": "p"}
    if name == "argument":
        return {"name": "a", "value": "v"}
    return {}


def exec_helper_case(ctx, hname: str, fn, case: Dict[str, Any]) -> None:
    """Drive a typed helper: the oracle is the same, plus 'never returns a foreign payload'."""
    kwargs = synth_args(fn)

    async def call(r, w):
        return await fn(r, w, **kwargs)

    # helper-specific wire: the matching result must be a valid payload for the helper
    async def main():
        pipe = Pipe()
        loop = asyncio.get_running_loop()
        obs: Dict[str, Any] = {"sent": [], "arrived": []}

        async def server():
            first = await pipe.srv_recv.receive()
            obs["sent"].append(first)
            rid = getattr(first, "id", None)
            method = getattr(first, "method", None)
            obs["rid"], obs["method"] = rid, method
            n = 0
            for t, kind in case["arrivals"]:
                await vsleep_until(t)
                n += 1
                wire = _wire(kind, rid, n)
                if kind == "match_result":
                    valid = HELPER_RESULTS.get(method)
                    if valid is not None:
                        wire = {"jsonrpc": "2.0", "id": rid, "result": dict(valid)}
                try:
                    obj = _build(wire, case.get("build", "parse"))
                except Exception as e:
                    obs["arrived"].append({"t": t, "kind": kind, "wire": wire, "unbuildable": repr(e)})
                    continue
                obs["arrived"].append({"t": t, "kind": kind, "wire": wire})
                pipe.srv_send.send_nowait(obj)
            while True:
                try:
                    m = await pipe.srv_recv.receive()
                except Exception:
                    return
                obs["sent"].append(m)

        st = asyncio.create_task(server(), name="server")
        t0 = loop.time()
        try:
            obs["outcome"] = ("return", await call(pipe.read, pipe.write))
        except BaseException as e:  # noqa
            if isinstance(e, (KeyboardInterrupt, SystemExit)):
                raise
            obs["outcome"] = ("raise", e)
        obs["t_done"] = loop.time() - t0
        st.cancel()
        try:
            await st
        except BaseException:
            pass
        obs["trace"] = pipe.trace
        pipe.close()
        return obs

    timeout = kwargs.get("timeout", 60.0)
    try:
        obs, loop = run_virtual(main, max_iterations=50_000)
    except HangDetected as e:
        ctx.violation("hang", f"{hname}: virtual loop hang: {e}", case)
        return
    full = {"helper": hname, **case}
    okind, oval = obs["outcome"]
    rid = obs.get("rid")
    arrived = [a for a in obs["arrived"] if "unbuildable" not in a]
    R = next((a for a in arrived if _is_matching_response(a["wire"], rid) and a["t"] < timeout - EPS), None)
    bool_helper = hname.endswith(("send_ping", "send_resources_subscribe", "send_resources_unsubscribe"))
    # requests written
    sends = [e for e in obs["trace"].events if e["op"] == "send"]
    reqs = [e for e in sends if getattr(e["obj"], "id", None) is not None]
    if len(reqs) != 1 or len(sends) != 1:
        ctx.violation("request_write_count", f"{hname}: writes {[e['item'] for e in sends]}", full)
    if obs["t_done"] > timeout + EPS:
        ctx.violation("deadline_overrun", f"{hname}: ended at {obs['t_done']} > {timeout}", full)

    def dumped(v):
        if hasattr(v, "model_dump"):
            return v.model_dump(by_alias=True, exclude_none=True)
        return v

    if R is None:
        # no response: must not return a value (bool helpers report False)
        if okind == "return" and not (bool_helper and oval is False):
            ctx.violation("returned_without_response",
                          f"{hname}: no matching response, returned {oval!r}", full)
        if okind == "raise" and not isinstance(oval, TimeoutError) and not bool_helper:
            ctx.violation("wrong_exception_without_response",
                          f"{hname}: no matching response; got {oval!r}", full)
        shape = "noR:" + (type(oval).__name__ if okind == "raise" else repr(oval)[:20])
    else:
        w = R["wire"]
        if "error" in w:
            if bool_helper:
                if not (okind == "return" and oval is False):
                    ctx.violation("bool_helper_error", f"{hname}: error response gave {oval!r}", full)
            elif okind != "raise" or getattr(oval, "code", None) != w["error"]["code"]:
                ctx.violation("error_not_raised", f"{hname}: error response gave {okind} {oval!r}", full)
            shape = "R:error"
        else:
            res = w["result"]
            if okind == "return":
                got = dumped(oval)
                # the typed result must be a view of *this* response: every member of the
                # response's result must be present in the dump (losslessness is C10); here we
                # only demand that nothing from a foreign message leaked in
                for a in arrived:
                    ww = a["wire"]
                    if a is R or isinstance(ww, list):
                        continue
                    foreign = ww.get("result") if isinstance(ww, dict) else None
                    if isinstance(foreign, dict) and "tag" in foreign and isinstance(got, dict) \
                            and got.get("tag") == foreign["tag"]:
                        ctx.violation("returned_foreign_message",
                                      f"{hname}: returned {got!r} carrying foreign tag", full)
                shape = "R:ret"
            else:
                if isinstance(oval, TimeoutError):
                    ctx.violation("matching_response_lost",
                                  f"{hname}: response at t={R['t']} but timed out", full)
                shape = "R:raise:" + type(oval).__name__
    ctx.count("helper:" + hname.rsplit(".", 1)[-1])
    ctx.record(full, shape=shape, cls="helper")


def helper_histories(tier: str):
    base = [
        [[0.2, "match_result"]],
        [[0.2, "match_error"]],
        [],
        [[0.1, "same_id_request"], [0.6, "match_result"]],
        [[0.1, "other_response"], [0.5, "notification"], [0.9, "match_result"]],
        [[0.1, "same_id_request"]],
        [[0.3, "batch_with_match"]],
        [[0.0, "other_error"], [0.5, "match_error"]],
    ]
    return base


def exec_stdio_history(ctx, case: Dict[str, Any]) -> None:
    """send_message on the streams of the real stdio transport: the child answers the request with a run of
    non-matching messages (possibly more than a stream buffers) followed by the matching response, in one or
    several writes."""
    import importlib
    import json
    from chuk_mcp.protocol.messages.send_message import send_message
    from chuk_mcp.transports.stdio.parameters import StdioParameters
    from vf.recorders import OpenProcessPatch, ScriptedProcess
    SC = importlib.import_module("chuk_mcp.transports.stdio.stdio_client")
    rid, n, kinds, pieces = case["id"], case["distractors"], case["kinds"], case["writes"]
    final_kind = case["final"]

    def factory(command, **kw):
        p = ScriptedProcess([], hold_open=True)
        orig = p.stdin.send

        async def send(data):
            await orig(data)
            for line in data.split(b"\n"):
                try:
                    req = json.loads(line)
                except Exception:
                    continue
                if not (isinstance(req, dict) and req.get("method") == "tools/call"):
                    continue
                lines = [json.dumps(_wire(kinds[k % len(kinds)], req["id"], k), ensure_ascii=False) for k in range(n)]
                lines.append(json.dumps(_wire(final_kind, req["id"], n), ensure_ascii=False))
                raw = ("\n".join(lines) + "\n").encode("utf-8")
                step = max(1, len(raw) // pieces)
                for off in range(0, len(raw), step):
                    p.feed(raw[off:off + step])
        p.stdin.send = send
        return p

    async def main():
        with OpenProcessPatch(factory):
            async with SC.stdio_client(StdioParameters(command="scripted")) as (read, write):
                try:
                    return ("return", await send_message(read, write, "tools/call", {"name": "t"}, timeout=5.0, message_id=rid))
                except BaseException as e:  # noqa
                    if isinstance(e, (KeyboardInterrupt, SystemExit)):
                        raise
                    return ("raise", e)

    try:
        (kind, val), _ = run_virtual(main, max_iterations=2_000_000)
    except HangDetected as e:
        ctx.violation("hang", f"stdio history: {e}", case)
        ctx.record(case, shape="hang")
        return
    ctx.count("stdio_histories")
    ctx.count("receive_events", n + 1)
    want = _wire(final_kind, rid, n)
    if final_kind == "match_error":
        ok = kind == "raise" and getattr(val, "code", None) == want["error"]["code"]
    else:
        ok = kind == "return" and strict_eq(val, want["result"])
    if not ok:
        mech = "response_lost_behind_other_traffic" if kind == "raise" and "imeout" in type(val).__name__ else "wrong_outcome"
        ctx.violation(mech, f"through the stdio transport: {n} non-matching messages then the matching {final_kind} in "
                      f"{pieces} write(s): the call ended with {kind} {val!r}", case)
    ctx.record(case, shape=[kind, type(val).__name__], nontrivial=n > 0, cls=f"stdio:{'>=100' if n >= 100 else '<100'}",
               sample={"case": case, "outcome": kind})


def exec_stream_fault(ctx, case: Dict[str, Any]) -> None:
    """The caller's streams fail: the request cannot be written, or the read stream ends / breaks while waiting.
    Whatever the call does then, it must not return a result and must not outlive its deadline."""
    import anyio
    from chuk_mcp.protocol.messages.send_message import send_message
    from vf.props.c03 import FaultySend
    fault = case["fault"]

    async def main():
        pipe = Pipe()
        loop = asyncio.get_running_loop()
        if fault == "write:blocks":
            # a write stream nobody drains (the transport's writer is stuck): writing the request never completes
            import anyio as _anyio
            blocked_send, _keep = _anyio.create_memory_object_stream(0)
            pipe._keep = _keep
            write = blocked_send
        else:
            write = FaultySend(pipe.write, 1, fault.split(":")[1]) if fault.startswith("write:") else pipe.write

        async def server():
            try:
                await pipe.srv_recv.receive()
            except Exception:
                return
            await vsleep_until(case["t"])
            if fault == "read:end":
                await pipe.srv_send.aclose()
            elif fault == "read:end_after_distractor":
                pipe.srv_send.send_nowait(_build(_wire("notification", 0, 1), "parse"))
                await pipe.srv_send.aclose()
        st = asyncio.create_task(server(), name="server")
        t0 = loop.time()
        try:
            out = ("return", await send_message(pipe.read, write, "tools/call", {"a": 1}, timeout=TIMEOUT))
        except BaseException as e:  # noqa
            if isinstance(e, (KeyboardInterrupt, SystemExit)):
                raise
            out = ("raise", e)
        dur = loop.time() - t0
        st.cancel()
        return out, dur

    try:
        (out, dur), _ = run_virtual(main, max_iterations=50_000)
    except HangDetected as e:
        ctx.violation("hang", f"stream fault {fault}: {e}", case)
        ctx.record(case, shape="hang")
        return
    ctx.count("stream_fault_calls")
    if out[0] == "return":
        ctx.violation("returned_without_response", f"stream fault {fault}: the call returned {out[1]!r} although no response "
                      f"ever arrived", case)
    if dur > TIMEOUT + EPS:
        ctx.violation("deadline_overrun", f"stream fault {fault}: the call ended after {dur}s (timeout {TIMEOUT})", case)
    ctx.record(case, shape=[out[0], type(out[1]).__name__], nontrivial=True, cls=f"stream_fault:{fault}",
               sample={"case": case, "outcome": [out[0], type(out[1]).__name__], "duration": dur})


def exec_slow_writer(ctx, case: Dict[str, Any]) -> None:
    """The write side is slow but not stuck: the transport takes the request only d seconds into the call. The deadline
    still counts from the call: a response arriving after `timeout` is late whatever d was, and without a response the
    call ends at `timeout`, not at d + timeout."""
    from chuk_mcp.protocol.messages.send_message import send_message
    from vf.props.c14 import StallingSend
    d, r, T = case["taken_at"], case["response_at"], case["timeout"]

    async def main():
        pipe = Pipe(buffer=1000)
        loop = asyncio.get_running_loop()
        write = StallingSend(pipe.write, 0, d, loop)

        async def server():
            req = await pipe.srv_recv.receive()
            if r is None:
                return
            await vsleep_until(r)
            pipe.srv_send.send_nowait(_build({"jsonrpc": "2.0", "id": req.id, "result": {"answered_at": r}}, "parse"))
        st = asyncio.create_task(server(), name="server")
        t0 = loop.time()
        try:
            out = ("return", await send_message(pipe.read, write, "tools/call", {"a": 1}, timeout=T))
        except BaseException as e:  # noqa
            if isinstance(e, (KeyboardInterrupt, SystemExit)):
                raise
            out = ("raise", e)
        dur = loop.time() - t0
        st.cancel()
        return out, dur
    try:
        (out, dur), _ = run_virtual(main, max_iterations=50_000)
    except HangDetected as e:
        ctx.violation("hang", f"slow writer: {e}", case)
        return
    ctx.count("slow_writer_calls")
    in_time = r is not None and r < T - EPS
    ambiguous = r is not None and abs(r - T) <= EPS
    if out[0] == "return" and not in_time and not ambiguous:
        ctx.violation("response_accepted_after_deadline", f"request taken by the transport at {d}, response at {r}, timeout {T}: the "
                      f"call returned {out[1]!r} after {dur}s", case)
    if out[0] == "raise" and in_time:
        ctx.violation("wrong_outcome", f"request taken at {d}, response at {r} (before the deadline {T}): the call raised {out[1]!r}", case)
    if dur > T + EPS:
        ctx.violation("deadline_overrun", f"request taken by the transport at {d}: the call ended after {dur}s (timeout {T})", case)
    ctx.record(case, shape=[out[0], type(out[1]).__name__, round(dur, 3)], nontrivial=True, cls="slow_writer",
               sample={"case": case, "outcome": [out[0], type(out[1]).__name__], "duration": dur})


def stdio_histories(ctx):
    mixes = [["notification"], ["other_response", "notification", "other_request"], ["same_id_request", "progress", "other_error"],
             ["int_twin", "notification"]]
    for n in ((0, 3, 99, 100, 101, 150) if ctx.tier == "quick" else (0, 1, 3, 50, 99, 100, 101, 102, 150, 400, 1000)):
        for j, kinds in enumerate(mixes):
            for rid in (("r-1", 7) if ctx.tier == "quick" else ("r-1", 7, "123", 0)):
                for pieces in (1, 3):
                    yield {"via": "stdio", "id": rid, "distractors": n, "kinds": kinds, "writes": pieces,
                           "final": ("match_result", "match_error", "match_scalar")[(n + j) % 3]}


def run(ctx):
    for T in (0.6, 2.0):
        for d in (0.1, 0.4 * T, 0.9 * T):
            for r in (None, d + 0.05, T - 0.01, T + 0.05, d + T - 0.05, d + T + 0.5):
                case = {"slow_writer": True, "taken_at": round(d, 3), "response_at": None if r is None else round(r, 3), "timeout": T}
                if ctx.mine():
                    exec_slow_writer(ctx, case)
    for fault in ("write:broken", "write:closed", "write:oserror", "read:end", "read:end_after_distractor", "write:blocks"):
        for t in (0.0, 0.3, 0.5, TIMEOUT - 0.01):
            case = {"via": "stream_fault", "fault": fault, "t": t}
            if ctx.mine():
                exec_stream_fault(ctx, case)
    for case in stdio_histories(ctx):
        if ctx.mine():
            exec_stdio_history(ctx, case)
    # --- send_message histories ------------------------------------------
    for case in gen_cases(ctx):
        if not ctx.mine():
            continue
        if ctx.out_of_time("send_message histories"):
            break
        exec_case(ctx, case)
    # --- typed helpers ---------------------------------------------------
    helpers = discover_helpers()
    ctx.extra["helpers_discovered"] = sorted(h.rsplit(".", 1)[-1] for h in helpers)
    for hname, fn in sorted(helpers.items()):
        short = hname.rsplit(".", 1)[-1]
        if short in ("send_initialize", "send_initialize_with_client_tracking"):
            continue  # writes a second message by design; C03 covers it
        for hist in helper_histories(ctx.tier):
            for build in ("parse", "validate"):
                if not ctx.mine():
                    continue
                try:
                    exec_helper_case(ctx, hname, fn, {"arrivals": hist, "build": build})
                except Exception as e:  # harness could not drive it
                    ctx.notes.append(f"helper {short} could not be driven: {e!r}"[:200])
    ctx.require_reached("receive_events")


def replay(ctx, case):
    if case.get("slow_writer"):
        exec_slow_writer(ctx, case)
        return
    if case.get("via") == "stream_fault":
        exec_stream_fault(ctx, case)
        return
    if case.get("via") == "stdio":
        exec_stdio_history(ctx, case)
        return
    if "helper" in case:
        helpers = discover_helpers()
        exec_helper_case(ctx, case["helper"], helpers[case["helper"]],
                         {k: v for k, v in case.items() if k != "helper"})
    else:
        exec_case(ctx, case)
