"""C12 - SSE transport: live-or-raise setup, exactly-once delivery, chunk-independent."""
from __future__ import annotations

import asyncio
import anyio
import gc
import json
import warnings
from typing import Any, Dict, List, Optional

import httpx

from vf.http_harness import ScriptedHTTP, TimedByteStream
from vf.ref import strict_eq, norm_any, tagged
from vf.vloop import run_virtual, HangDetected

ID = "C12"
LEVEL = "fault_enumeration"
BACKENDS = ["pydantic", "fallback"]   # every case is executed under both validation backends
LOGLEVELS = ["default", "debug"]   # every case also runs with the root logger at DEBUG (as --verbose does)
SHARDS = {"quick": 8, "thorough": 16}
BUDGET_S = {"quick": 100.0, "thorough": 900.0}
TECHNIQUE = ("runtime monitoring with fault injection: scripted SSE server (httpx seam, timed byte stream) under the real "
             "sse_client on a virtual clock; entry/read-stream/POST recorder, leftover-task / client / stream inspection "
             "after exit, cancellation injected at every loop iteration of the fault-free run")
LEVEL_TEXT = ("Establishment outcomes x per-request answer modes x relative orders of POST completion and event arrival x "
              "chunkings of the event bytes x exit paths are executed; entry must either raise within the timeout or follow "
              "an announced endpoint, every request must get exactly one terminal message with its id, event-stream messages "
              "must arrive once, in order and identically under every chunking, and after every exit path - including a "
              "cancellation delivered at each loop iteration the fault-free run took - no task, HTTP client or stream may remain."
              " Also 100-400 server messages in one read, and a second healthy SSE connection using the same request ids in the same process."
              ' Also events without an `event:` line carrying endpoint-looking text, a server request reusing a pending id, JSON bodies that are not JSON-RPC, non-object results.'
              " Also every encoding of an event the format allows (no space after the colon, multi-line data, CRLF, comment/id/retry lines) for announcement and messages, relative endpoint references, batches in one event, the application answering the server's requests, quiet spells longer than the timeout with the network layer's read timeout emulated from the request's own timeout setting, and the transport's own stream ends after exit. Every case also runs under the dependency-free validation backend."
              ' Also an answer that precedes the 202 with another message written right behind it (order), malformed answer events, and leaving the context with a pending request after the server ended the event stream.'
              ' Also the tasks, HTTP clients and read stream left by each life of one transport object that is entered again (after a normal exit, after a refused entry).'
              ' Also a request waiting after its 202 while comments or unrelated notifications arrive more often than the timeout.'
              ' Also endpoints announced as relative references without a slash, with and without a query.'
              ' Also every request mode followed by a healthy request and a notification (deterministically), and a 300 kB server message arriving in pieces of 1, 16 and 64 KiB.')
LEVEL_NOTE = ("Trusted: httpx.MockTransport + TimedByteStream behave like a server (chunks at chosen virtual times); "
              "asyncio.all_tasks() and AsyncClient.is_closed as the leak oracle. Event stream uses the canonical "
              "'event: message / data: ...' encoding (encodings are C11's subject).")
RULE = ("case = (establishment, request modes with delays, server messages, chunking, exit path / cancel iteration). "
        "Non-trivial: all; distinct = hash(case)+hash(entry outcome, per-request terminal counts, leftovers).")
ASSUMPTIONS = ["transport timeout 5.0 virtual seconds; entry must finish by timeout + 0.01",
               "cancellation is delivered to the task that owns the context, at the start of a loop iteration"]

BASE = "http://sse.test"
TIMEOUT = 5.0
TEXT = "h\u00e9llo \u20ac \U0001f600 l\u2028s\u0085n\u2029p"


def sse_event(event: Optional[str], data: str, framing: Optional[str] = None) -> bytes:
    """One event in one of the encodings the event-stream format allows for the same (type, data)."""
    sep = "" if framing == "nospace" else " "
    nl = "\r\n" if framing == "crlf" else "\n"
    lines = []
    if framing == "fields":
        lines += [": keep-alive", "id: 7", "retry: 3000"]
    if event:
        lines.append(f"event:{sep}{event}")
    if framing == "multiline" and data[:1] in "{[":
        # the same JSON text spread over several data lines (they are joined with a line feed: white space between tokens)
        pretty = json.dumps(json.loads(data), indent=1, ensure_ascii=False)
        lines += [f"data:{sep}{ln}" for ln in pretty.split("\n")]
    else:
        lines.append(f"data:{sep}{data}")
    return (nl.join(lines) + nl + nl).encode("utf-8")


EST_FORMS = {
    "path": ("endpoint", "/messages/?session_id=abc123"),
    "path_mcp": ("endpoint", "/mcp?session_id=zz"),
    "full_url": ("endpoint", "http://sse.test/messages/?session_id=full1"),
    "query": ("endpoint", "session_id=q77"),
    "untyped_path": (None, "/messages/?session_id=untyped"),
    "relative_path": ("endpoint", "messages/?session_id=rel1"),
    "relative_noslash": ("endpoint", "messages?session_id=rel2"),     # a relative reference whose path has no slash at all
    "relative_bare": ("endpoint", "messages"),                        # ... and no query either
}


class Server:
    def __init__(self, case: Dict[str, Any], base: str = None):
        self.case = case
        self.base = base or BASE
        self.est = case["est"]
        self.bare = bool(case.get("bare"))   # JSON-RPC events written without an `event:` line
        self.framing = case.get("framing")
        self.modes = list(case.get("requests", [])) + list(case.get("late_requests", []))
        self.stream: Optional[TimedByteStream] = None
        self.announced_at: Optional[float] = None
        self.announced_url: Optional[str] = None
        self.log: List[Any] = []
        self.posts: List[Dict[str, Any]] = []
        self.get_count = 0

    def expected_post_url(self) -> Optional[str]:
        k = self.est["kind"]
        if k in ("slow",):
            k = self.est.get("form", "path")
        if k not in EST_FORMS:
            return None
        _, data = EST_FORMS[k]
        if data.startswith("/"):
            return self.base + data
        if data.startswith("http"):
            return data
        if "/" in data.split("?")[0] or ("?" in data and data.split("?")[0]) or ("=" not in data and "?" not in data):
            return f"{self.base}/{data}"     # a relative reference, resolved against <base>/sse
        return f"{self.base}/messages/?{data}"

    async def handle(self, request: httpx.Request, rec):
        loop = asyncio.get_running_loop()
        if request.method == "GET":
            self.get_count += 1
            k = self.est["kind"]
            if k == "connect_error":
                raise httpx.ConnectError("refused", request=request)
            if k in ("404", "500", "204"):
                return httpx.Response(int(k), content=b"nope")
            if k == "empty_200":
                self.stream = TimedByteStream([], hold_open=False, log=self.log)
                return httpx.Response(200, headers={"content-type": "text/event-stream"}, stream=self.stream)
            if k == "connect_slow":
                await asyncio.sleep(self.est["delay"])
            chunks = []
            if k in EST_FORMS or k == "slow":
                form = self.est.get("form", k if k in EST_FORMS else "path")
                ev, data = EST_FORMS[form]
                t = self.est.get("delay")
                raw = sse_event(ev, data, self.framing)
                if self.est.get("preamble"):
                    raw = b": welcome\n\nevent: keepalive\ndata: {}\n\n" + raw
                if self.case.get("msgs_with_announcement") and self.case.get("server_msgs"):
                    # the server's first messages travel in the very chunk that announces the endpoint
                    raw += b"".join(sse_event(None if self.bare else "message", json.dumps(w, ensure_ascii=False), self.framing)
                                    for w in self.case["server_msgs"])
                chunks.append((t, ("ANNOUNCE", raw)))
            # server-initiated messages (after the announcement)
            sm = self.case.get("server_msgs") or []
            if sm and not self.case.get("msgs_with_announcement"):
                if self.case.get("batch_event"):
                    # all of them in one event: a JSON-RPC batch
                    raw = sse_event(None if self.bare else "message", json.dumps(sm, ensure_ascii=False), self.framing)
                else:
                    raw = b"".join(sse_event(None if self.bare else "message", json.dumps(w, ensure_ascii=False), self.framing) for w in sm)
                cuts = self.case.get("cuts") or []
                last = 0
                t0 = self.case.get("server_msgs_at", 0.5)
                for i, c in enumerate(list(cuts) + [len(raw)]):
                    piece = raw[last:c]
                    last = c
                    if piece:
                        chunks.append((t0 + 0.001 * i, piece))
            stream = TimedByteStream([], hold_open=True, log=self.log)
            # what the network layer would do with the read timeout this request was made with
            stream.read_timeout = (request.extensions.get("timeout") or {}).get("read")
            self.stream = stream
            srv = self

            async def feeder():
                for t, item in chunks:
                    if t is not None:
                        now = loop.time()
                        if t > now:
                            await asyncio.sleep(t - now)
                    if isinstance(item, tuple):
                        srv.announced_at = loop.time()
                        srv.announced_url = srv.expected_post_url()
                        stream.feed(item[1])
                    else:
                        stream.feed(item)
            self._feeder = asyncio.create_task(feeder(), name="vf-sse-feeder")
            return httpx.Response(200, headers={"content-type": "text/event-stream"}, stream=stream)
        # ---- POST -------------------------------------------------------------
        body = rec["body"] or {}
        rid = body.get("id")
        self.posts.append({"url": str(request.url), "body": body, "t": loop.time()})
        if rid is None:
            return httpx.Response(202)
        if "method" not in body:
            # the client's answer to a request of ours
            return httpx.Response(202) if self.case.get("answer_ack", 202) == 202 else httpx.Response(200, content=b"")
        mode = next((m for m in self.modes if m["id"] == rid and not m.get("_used")), None)
        if mode is None:
            return httpx.Response(202)
        mode["_used"] = True
        resp = {"jsonrpc": "2.0", "id": rid, "result": {"echo": body.get("method"), "text": TEXT, "server": self.base}}
        rk = mode.get("result_kind")
        if rk:
            # a result that is not an object: still a response
            resp["result"] = {"list": [TEXT, None, 1], "str": TEXT, "zero": 0, "empty_list": []}[rk]
        d = mode.get("delay", 0.1)
        m = mode["mode"]
        if m.endswith("_error"):
            # the answer on the event stream is a JSON-RPC error response
            resp = {"jsonrpc": "2.0", "id": rid, "error": {"code": -32602, "message": "bad " + TEXT, "data": {"k": None}}}
            m = m[:-len("_error")]
        if m == "200_body":
            return httpx.Response(200, json=resp)
        if m == "200_error_body":
            return httpx.Response(200, json={"jsonrpc": "2.0", "id": rid, "error": {"code": -32601, "message": "nope"}})
        if m == "202_then_event":
            async def later():
                await asyncio.sleep(d)
                self.stream.feed(sse_event(None if self.bare else "message", json.dumps(resp, ensure_ascii=False), self.framing))
            asyncio.create_task(later(), name="vf-sse-later")
            return httpx.Response(202)
        if m == "event_then_202":
            self.stream.feed(sse_event(None if self.bare else "message", json.dumps(resp, ensure_ascii=False), self.framing))
            await asyncio.sleep(d)
            return httpx.Response(202)
        if m in ("event_note_then_202", "event_note_later_then_202"):
            # the answer is on the event stream before the 202, and the server writes something else right behind it
            # (same write, or a moment later but still before the 202): what was written first is delivered first
            behind = {"jsonrpc": "2.0", "method": "notifications/message", "params": {"level": "info", "data": f"right-behind-answer-{rid}"}}
            self.behind = getattr(self, "behind", []) + [behind]
            self.stream.feed(sse_event(None if self.bare else "message", json.dumps(resp, ensure_ascii=False), self.framing))
            if m == "event_note_later_then_202":
                await asyncio.sleep(d / 2)
            self.stream.feed(sse_event(None if self.bare else "message", json.dumps(behind, ensure_ascii=False), self.framing))
            await asyncio.sleep(d)
            return httpx.Response(202)
        if m in ("event_then_200_body", "event_then_500", "event_then_exception"):
            # the answer is already on the event stream when the POST completes - and it does not complete with 202
            self.stream.feed(sse_event(None if self.bare else "message", json.dumps(resp, ensure_ascii=False), self.framing))
            await asyncio.sleep(d)
            if m == "event_then_200_body":
                return httpx.Response(200, json=resp)
            if m == "event_then_500":
                return httpx.Response(500, content=b"late failure")
            raise httpx.ReadError("connection reset after the request was handled", request=request)
        if m in ("202_then_malformed_event", "malformed_event_then_202"):
            # what arrives on the event stream under the request's id is not a message (neither result nor error): the
            # request has not been answered - it still has to end in exactly one terminal message
            bad = sse_event(None if self.bare else "message", json.dumps({"jsonrpc": "2.0", "id": rid}), self.framing)
            if m == "malformed_event_then_202":
                self.stream.feed(bad)
                await asyncio.sleep(d)
                return httpx.Response(202)

            async def later_bad():
                await asyncio.sleep(d)
                self.stream.feed(bad)
            asyncio.create_task(later_bad(), name="vf-sse-later")
            return httpx.Response(202)
        if m == "202_silence":
            return httpx.Response(202)
        if m in ("202_silence_comments", "202_silence_notes"):
            # the answer never comes, but the stream is not quiet: keep-alive comments, or notifications about other
            # things, more often than the timeout. The request still ends (synthesised timeout) after the timeout
            async def chatter():
                for k in range(12):
                    await asyncio.sleep(0.3 * TIMEOUT)
                    if self.stream is None or self.stream.closed:
                        return
                    if m == "202_silence_comments":
                        self.stream.feed(b": ping\n\n")
                    else:
                        self.stream.feed(sse_event(None if self.bare else "message", json.dumps(
                            {"jsonrpc": "2.0", "method": "notifications/message", "params": {"level": "info", "data": f"still busy {k}"}}), self.framing))
            asyncio.create_task(chatter(), name="vf-sse-later")
            return httpx.Response(202)
        if m == "202_then_stream_end":
            # the request is acknowledged and then the server ends the event stream (restart, dropped connection)
            self.stream.release()
            return httpx.Response(202)
        if m == "202_event_twice":
            async def later2():
                await asyncio.sleep(d)
                self.stream.feed(sse_event(None if self.bare else "message", json.dumps(resp)))
            asyncio.create_task(later2(), name="vf-sse-later")
            return httpx.Response(202)
        if m == "status_500":
            return httpx.Response(500, content=b"internal")
        if m == "status_404_json":
            return httpx.Response(404, json={"detail": "not found"})
        if m == "status_400_jsonrpc":
            return httpx.Response(400, json={"jsonrpc": "2.0", "id": rid, "error": {"code": -32600, "message": "bad"}})
        if m == "exception":
            raise httpx.ConnectError("connection reset", request=request)
        if m == "read_timeout":
            raise httpx.ReadTimeout("timed out", request=request)
        if m == "200_garbage":
            return httpx.Response(200, content=b"<html>")
        if m == "200_json_object_nonrpc":
            return httpx.Response(200, json={"status": "ok"})
        if m == "200_json_array_nonrpc":
            return httpx.Response(200, json=[1, 2])
        if m == "400_nullid_error":
            return httpx.Response(400, json={"jsonrpc": "2.0", "id": None, "error": {"code": -32000, "message": "Bad Request: no session"}})
        if m == "server_request_same_id_then_200_body":
            # while the POST is in flight the server sends a request of its own that happens to use the same id
            self.stream.feed(sse_event(None if self.bare else "message",
                                       json.dumps({"jsonrpc": "2.0", "id": rid, "method": "sampling/createMessage", "params": {"who": "server"}})))
            await asyncio.sleep(d)
            return httpx.Response(200, json=resp)
        if m == "server_request_same_id_then_202_event":
            self.stream.feed(sse_event(None if self.bare else "message",
                                       json.dumps({"jsonrpc": "2.0", "id": rid, "method": "sampling/createMessage", "params": {"who": "server"}})))

            async def later3():
                await asyncio.sleep(d)
                self.stream.feed(sse_event("message", json.dumps(resp, ensure_ascii=False)))
            asyncio.create_task(later3(), name="vf-sse-later")
            return httpx.Response(202)
        raise KeyError(m)

    def stop(self):
        f = getattr(self, "_feeder", None)
        if f is not None and not f.done():
            f.cancel()


REQUEST_MODES = ["200_body", "200_error_body", "202_then_event", "event_then_202", "202_then_event_error",
                 "event_then_202_error", "202_silence", "status_500",
                 "status_404_json", "status_400_jsonrpc", "exception", "read_timeout", "200_garbage",
                 "200_json_object_nonrpc", "200_json_array_nonrpc", "400_nullid_error",
                 "server_request_same_id_then_200_body", "server_request_same_id_then_202_event",
                 "event_then_500", "event_then_exception", "event_note_then_202", "event_note_later_then_202",
                 "202_then_malformed_event", "malformed_event_then_202",
                 "202_silence_comments", "202_silence_notes"]   # (event + 200 body = a server answering twice: not a stated mode)
IDS = [1, 0, "abc", "123", 2**53 + 1, "", -1]


def gen_cases(ctx):
    rng = ctx.sub_rng("c12")
    # --- establishment outcomes -------------------------------------------------
    for k in list(EST_FORMS) + ["404", "500", "204", "connect_error", "empty_200", "silent_200"]:
        yield {"est": {"kind": k}, "requests": [{"id": 1, "mode": "200_body"}], "exit": "normal"}
        yield {"est": {"kind": k, "preamble": True}, "requests": [{"id": "r", "mode": "202_then_event"}], "exit": "normal"}
    for d in (0.0, 0.5, TIMEOUT - 0.01, TIMEOUT, TIMEOUT + 0.5):
        for form in EST_FORMS:
            yield {"est": {"kind": "slow", "delay": d, "form": form}, "requests": [{"id": 2, "mode": "200_body"}],
                   "exit": "normal"}
    yield {"est": {"kind": "connect_slow", "delay": TIMEOUT + 1}, "requests": [], "exit": "normal"}
    # --- request modes x ids x delays ---------------------------------------------
    for mode in REQUEST_MODES:
        for rid in IDS:
            for d in (0.0, 0.1, TIMEOUT - 0.01):
                if mode not in ("202_then_event", "event_then_202", "202_then_event_error", "event_then_202_error") and d != 0.1:
                    continue
                yield {"est": {"kind": "path"}, "requests": [{"id": rid, "mode": mode, "delay": d}], "exit": "normal"}
    # events without an `event:` line whose JSON text mentions things an endpoint announcement would
    pathy = [{"jsonrpc": "2.0", "method": "notifications/resources/updated", "params": {"uri": "file:///srv/mcp/a.txt"}},
             {"jsonrpc": "2.0", "method": "notifications/message", "params": {"level": "info", "data": "POST /messages/?session_id=zz failed"}},
             {"jsonrpc": "2.0", "id": "srv-1", "method": "roots/list", "params": {"hint": "/mcp"}}]
    for bare in (True, False):
        yield {"est": {"kind": "path"}, "server_msgs": pathy, "cuts": [], "bare": bare, "server_msgs_at": 0.3,
               "requests": [{"id": "after-pathy", "mode": "202_then_event", "delay": 0.6}], "exit": "normal"}
        yield {"est": {"kind": "path_mcp"}, "server_msgs": pathy[:1], "cuts": [7], "bare": bare, "server_msgs_at": 0.2,
               "requests": [{"id": 3, "mode": "200_body"}, {"id": 4, "mode": "event_then_202"}], "exit": "normal"}
    # every request mode followed by a healthy request and a server notification: whatever a request ended with, the
    # connection goes on (deterministic - the seeded sequences further down reach the pairs only by chance)
    after_note = [{"jsonrpc": "2.0", "method": "notifications/message", "params": {"level": "info", "data": "after the first request"}}]
    for mode in REQUEST_MODES:
        if mode in ("202_silence_comments", "202_silence_notes") or mode.startswith(("server_request_same_id", "event_note")):
            continue        # (modes that put messages of their own on the event stream are judged in their own cases)
        late = TIMEOUT + 2.0 if mode in ("202_silence", "202_then_malformed_event", "malformed_event_then_202", "read_timeout") else 2.0
        for second in ("202_then_event", "200_body"):
            yield {"est": {"kind": "path"}, "requests": [{"id": "first", "mode": mode, "delay": 0.1},
                                                         {"id": "second", "mode": second, "delay": 0.1}],
                   "server_msgs": after_note, "cuts": [], "server_msgs_at": late, "exit": "normal"}
    for mode in ("202_then_event", "event_then_202", "202_then_event_error"):
        yield {"est": {"kind": "untyped_path"}, "bare": True, "requests": [{"id": 8, "mode": mode, "delay": 0.1}], "exit": "normal"}
    for rk in ("list", "str", "zero", "empty_list"):
        for mode in ("200_body", "202_then_event", "event_then_202"):
            yield {"est": {"kind": "path"}, "requests": [{"id": 5, "mode": mode, "delay": 0.1, "result_kind": rk},
                                                         {"id": "after", "mode": "202_then_event", "delay": 0.1}], "exit": "normal"}
    # --- the same events in the other encodings the event-stream format allows -------------------------
    sm0 = [{"jsonrpc": "2.0", "method": "notifications/message", "params": {"level": "info", "data": TEXT + str(i), "n": [1, {"k": None}]}}
           for i in range(2)] + [{"jsonrpc": "2.0", "id": "srv-7", "method": "roots/list"}]
    for framing in ("nospace", "multiline", "crlf", "fields"):
        for bare in (False, True):
            for est_kind in ("path", "relative_path"):
                raw_len0 = len(b"".join(sse_event(None if bare else "message", json.dumps(w, ensure_ascii=False), framing) for w in sm0))
                for cuts in ([], sorted(rng.sample(range(1, raw_len0), 5)), list(range(1, raw_len0, 3))):
                    yield {"est": {"kind": est_kind}, "framing": framing, "bare": bare, "server_msgs": sm0, "cuts": cuts,
                           "server_msgs_at": 0.3,
                           "requests": [{"id": "f1", "mode": "202_then_event", "delay": 0.2}, {"id": "f2", "mode": "event_then_202", "delay": 0.1},
                                        {"id": "f3", "mode": "200_body"}], "exit": "normal"}
    # --- server messages right behind the endpoint announcement, in the same chunk -----------------------
    for est_kind in ("path", "untyped_path", "query"):
        for delay in (None, 0.3):
            yield {"est": ({"kind": est_kind} if delay is None else {"kind": "slow", "delay": delay, "form": est_kind}),
                   "server_msgs": sm0, "cuts": [], "msgs_with_announcement": True, "bare": est_kind == "untyped_path",
                   "requests": [{"id": "after-early", "mode": "202_then_event", "delay": 0.1}], "exit": "normal"}
    # --- all the server's messages in one event (a JSON-RPC batch) -------------------------------------
    for bare in (False, True):
        yield {"est": {"kind": "path"}, "bare": bare, "server_msgs": sm0, "cuts": [], "batch_event": True, "server_msgs_at": 0.3,
               "requests": [{"id": "b1", "mode": "202_then_event", "delay": 0.2}], "exit": "normal"}
    # --- the application answers the server's requests (the answers are POSTed; nothing may come back for them) ---
    sreqs = [{"jsonrpc": "2.0", "id": "srv-1", "method": "roots/list"},
             {"jsonrpc": "2.0", "method": "notifications/message", "params": {"level": "info", "data": "between"}},
             {"jsonrpc": "2.0", "id": 77, "method": "sampling/createMessage", "params": {"messages": []}}]
    for ack in (202, 200):
        for est_kind in ("path", "query"):
            yield {"est": {"kind": est_kind}, "server_msgs": sreqs, "cuts": [], "server_msgs_at": 0.3, "answer_server_requests": True,
                   "answer_ack": ack, "requests": [{"id": "before", "mode": "202_then_event", "delay": 0.1}],
                   "late_requests": [{"id": "late-1", "mode": "202_then_event", "delay": 0.1}, {"id": 78, "mode": "200_body"}],
                   "exit": "normal"}
    # --- a quiet event stream: nothing for longer than the configured timeout, then the server speaks ------
    for quiet in (TIMEOUT + 2.0, 3 * TIMEOUT):
        yield {"est": {"kind": "path"}, "server_msgs": sm0, "cuts": [], "server_msgs_at": quiet,
               "requests": [], "late_requests": [{"id": "after-quiet", "mode": "202_then_event", "delay": 0.1}],
               "answer_server_requests": True, "exit": "normal"}
    # --- a second SSE connection (other server, same ids) alive in the same process ------
    for mode in REQUEST_MODES:
        yield {"est": {"kind": "path"}, "requests": [{"id": 7, "mode": mode, "delay": 0.1}], "exit": "normal", "twin": True}
    for k in ("query", "404", "slow"):
        if k in EST_FORMS or k in ("404",):
            yield {"est": {"kind": k}, "requests": [{"id": "t", "mode": "202_then_event"}], "exit": "normal", "twin": True}
    # --- sequences of modes (sender survives) -------------------------------------
    for m1 in REQUEST_MODES:
        for m2 in ("200_body", "202_then_event"):
            yield {"est": {"kind": "path"}, "requests": [{"id": "a", "mode": m1}, {"id": "b", "mode": m2}], "exit": "normal"}
    for j in range(60 if ctx.tier == "quick" else 1500):
        L = rng.randint(2, 4)
        c = {"est": {"kind": rng.choice(list(EST_FORMS))},
             "requests": [{"id": f"s{i}" if rng.random() < 0.5 else i + 10, "mode": rng.choice(REQUEST_MODES),
                           "delay": rng.choice([0.0, 0.05, 0.3])} for i in range(L)], "exit": "normal"}
        if j % 3 == 0:
            c["twin"] = True
        yield c
    # --- server-initiated messages x chunkings --------------------------------------
    sm = [{"jsonrpc": "2.0", "method": "notifications/message", "params": {"level": "info", "data": TEXT + str(i)}}
          for i in range(3)] + [{"jsonrpc": "2.0", "id": "srv-9", "method": "roots/list"}]
    raw_len = len(b"".join(sse_event("message", json.dumps(w, ensure_ascii=False)) for w in sm))
    yield {"est": {"kind": "path"}, "server_msgs": sm, "cuts": [], "requests": [], "exit": "normal"}
    step = 1 if ctx.tier == "thorough" else 3
    for c in range(1, raw_len, step):
        yield {"est": {"kind": "path"}, "server_msgs": sm, "cuts": [c], "requests": [], "exit": "normal"}
    for _ in range(40 if ctx.tier == "quick" else 600):
        k = rng.randint(2, 8)
        yield {"est": {"kind": "path"}, "server_msgs": sm, "cuts": sorted(rng.sample(range(1, raw_len), k)),
               "requests": [{"id": "mix", "mode": rng.choice(["202_then_event", "200_body"])}], "exit": "normal"}
    yield {"est": {"kind": "path"}, "server_msgs": sm, "cuts": list(range(1, raw_len)), "requests": [], "exit": "normal"}
    # one server message far larger than a read (a base64 screenshot in a notification), arriving in pieces of 1, 16 and
    # 64 KiB, with a small message behind it
    for size in ((300_000,) if ctx.tier == "quick" else (70_000, 300_000, 2_000_000)):
        bigm = [{"jsonrpc": "2.0", "method": "notifications/message", "params": {"level": "info", "data": "B" * size}},
                {"jsonrpc": "2.0", "method": "notifications/message", "params": {"level": "info", "data": "after the big one"}}]
        blen = len(b"".join(sse_event("message", json.dumps(w, ensure_ascii=False)) for w in bigm))
        for piece in (1000, 16384, 65536):
            if size > 500_000 and piece == 1000:
                continue
            yield {"est": {"kind": "path"}, "server_msgs": bigm, "cuts": list(range(piece, blen, piece)), "server_msgs_at": 0.2,
                   "requests": [{"id": "after-big", "mode": "202_then_event", "delay": 1.5}], "exit": "normal"}
    # more server messages in one read than the read stream buffers (100), alone and ahead of an answer
    for n in (100, 101, 150, 400):
        big = [{"jsonrpc": "2.0", "method": "notifications/progress", "params": {"progressToken": "p", "progress": i}}
               for i in range(n)]
        yield {"est": {"kind": "path"}, "server_msgs": big, "cuts": [], "requests": [], "exit": "normal"}
        yield {"est": {"kind": "path"}, "server_msgs": big, "cuts": [n * 7], "server_msgs_at": 0.05,
               "requests": [{"id": "after-flood", "mode": "202_then_event", "delay": 0.3}], "exit": "normal"}
    # --- the context is left while a request is pending on a connection whose event stream the server has ended ------
    for ex in ("normal", "exception", "exception_in_flight"):
        for la in (0.0, 0.2, 1.0):
            yield {"est": {"kind": "path"}, "requests": [{"id": "pend", "mode": "202_then_stream_end"}], "exit": ex, "leave_after": la}
            yield {"est": {"kind": "path"}, "requests": [{"id": "pend", "mode": "202_silence"}], "exit": ex, "leave_after": la}
    # --- exit paths -----------------------------------------------------------------
    for mode in ("202_then_event", "202_silence", "200_body"):
        yield {"est": {"kind": "path"}, "requests": [{"id": 1, "mode": mode}], "exit": "exception"}
        yield {"est": {"kind": "path"}, "requests": [{"id": 1, "mode": mode}], "exit": "exception_in_flight"}
    # cancellation at every loop iteration of the fault-free run (fault enumeration)
    for base in ({"est": {"kind": "path"}, "requests": [{"id": 1, "mode": "202_then_event", "delay": 0.2}]},
                 {"est": {"kind": "slow", "delay": 1.0, "form": "path"}, "requests": [{"id": "x", "mode": "200_body"}]},
                 {"est": {"kind": "silent_200"}, "requests": []},
                 {"est": {"kind": "path"}, "requests": [{"id": 3, "mode": "202_silence"}]}):
        yield dict(base, exit="cancel_sweep")


TWIN_BASE = "http://twin.test"


def twin_case(case: Dict[str, Any]) -> Dict[str, Any]:
    """A healthy second SSE connection in the same process, using the same request ids as the first."""
    ids = [r["id"] for r in case.get("requests", [])] or [1]
    return {"est": {"kind": "path"}, "exit": "normal",
            "requests": [{"id": i, "mode": ("202_then_event", "200_body")[k % 2], "delay": 0.25} for k, i in enumerate(ids)]}


async def scenario(case: Dict[str, Any], srv: Server, obs: Dict[str, Any]):
    from chuk_mcp.transports.sse.sse_client import sse_client
    from chuk_mcp.transports.sse.parameters import SSEParameters
    from chuk_mcp.protocol.messages.json_rpc_message import create_request, JSONRPCRequest

    loop = asyncio.get_running_loop()
    params = SSEParameters(url=srv.base, timeout=TIMEOUT)
    obs["t_enter0"] = loop.time()
    got: List[Any] = []
    obs["got"] = got
    try:
        async with sse_client(params) as (read, write):
            obs["entered_at"] = loop.time()
            obs["announced_at_entry"] = srv.announced_at

            answered = obs.setdefault("answered", [])

            async def drain():
                try:
                    async for m in read:
                        got.append((loop.time(), m))
                        if case.get("answer_server_requests") and getattr(m, "method", None) and getattr(m, "id", None) is not None:
                            # the application answers the server's request (typed and plain forms alternate)
                            ans = {"jsonrpc": "2.0", "id": m.id, "result": {"roots": [], "text": TEXT}}
                            if len(answered) % 2 == 0:
                                from chuk_mcp.protocol.messages.json_rpc_message import create_response
                                await write.send(create_response(m.id, {"roots": [], "text": TEXT}))
                            else:
                                await write.send(ans)
                            answered.append(ans)
                except Exception:
                    pass
            dt = asyncio.create_task(drain(), name="vf-drain")
            try:
                for k_req, req in enumerate(case.get("requests", [])):
                    if k_req % 2:
                        # the envelope class instantiated directly, relying on its declared defaults
                        msg = JSONRPCRequest(id=req["id"], method="tools/call", params={"name": "t", "arguments": {"x": TEXT}})
                    else:
                        msg = create_request("tools/call", {"name": "t", "arguments": {"x": TEXT}}, id=req["id"])
                    await write.send(msg)
                    if case["exit"] == "exception_in_flight":
                        await asyncio.sleep(0.01)
                        raise RuntimeError("body failed while request in flight")
                    if case.get("leave_after") is not None:
                        await asyncio.sleep(case["leave_after"])     # the application leaves while the request is pending
                        break
                    await asyncio.sleep(TIMEOUT + 1.5 if req["mode"] in ("202_silence", "202_silence_comments", "202_silence_notes", "202_then_malformed_event", "malformed_event_then_202", "202_then_event", "event_then_202",
                                                                         "202_then_event_error", "event_then_202_error")
                                        and (req["mode"] in ("202_silence", "202_silence_comments", "202_silence_notes", "202_then_malformed_event", "malformed_event_then_202") or req.get("delay", 0) > 1) else 1.5)
                if case.get("server_msgs"):
                    await asyncio.sleep(2.0 + max(0.0, case.get("server_msgs_at", 0.5) - 0.5))
                if case.get("answer_server_requests"):
                    await asyncio.sleep(TIMEOUT + 1.0)   # an answer wrongly treated as a request would "time out" here
                    for k_req, req in enumerate(case.get("late_requests", [])):
                        await write.send(create_request("tools/call", {"name": "t", "arguments": {"x": TEXT}}, id=req["id"]))
                        await asyncio.sleep(1.5)
                if any("202" in r["mode"] for r in case.get("requests", [])) and case.get("leave_after") is None:
                    await asyncio.sleep(TIMEOUT + 1.0)   # a wrongly pending request would time out here
                if case["exit"] == "exception":
                    raise RuntimeError("body failed")
            finally:
                dt.cancel()
                obs["caller_ends"] = (read, write)
        obs["exit"] = "normal"
    except RuntimeError as e:
        if "body failed" in str(e):
            obs["exit"] = "body_exception"
        else:
            obs["entry_error"] = e
            obs["entry_error_at"] = loop.time()
    except BaseException as e:  # noqa
        if isinstance(e, asyncio.CancelledError):
            obs["cancelled"] = True
            raise
        if "entered_at" in obs:
            obs["exit_error"] = e
        else:
            obs["entry_error"] = e
            obs["entry_error_at"] = loop.time()


def run_once(case: Dict[str, Any], cancel_at: Optional[int] = None, cancel_mode: str = "task"):
    srv = Server(case)
    obs: Dict[str, Any] = {}
    holder: Dict[str, Any] = {}
    twin = Server(twin_case(case), TWIN_BASE) if case.get("twin") else None
    twin_obs: Dict[str, Any] = {}

    async def route(request: httpx.Request, rec):
        if twin is not None and request.url.host == "twin.test":
            return await twin.handle(request, rec)
        return await srv.handle(request, rec)

    async def main():
        with warnings.catch_warnings():
            warnings.simplefilter("ignore")
            gc.collect()     # garbage of earlier runs is not this run's
        with warnings.catch_warnings(record=True) as wlist:
            warnings.simplefilter("always")
            with ScriptedHTTP(route) as http:
                async def scoped():
                    import anyio
                    with anyio.CancelScope() as scope:
                        holder["scope"] = scope
                        await scenario(case, srv, obs)
                    if scope.cancelled_caught:
                        obs["cancelled"] = True
                tt = asyncio.create_task(scenario(twin.case, twin, twin_obs), name="vf-twin-scenario") if twin else None
                t = asyncio.create_task(scoped() if cancel_mode == "scope" else scenario(case, srv, obs), name="vf-scenario")
                holder["task"] = t
                try:
                    await t
                except asyncio.CancelledError:
                    if not t.cancelled() and not obs.get("cancelled"):
                        raise
                except BaseException as e:  # noqa
                    obs["scenario_error"] = e
                if tt is not None:
                    try:
                        await tt
                    except BaseException as e:  # noqa
                        twin_obs["scenario_error"] = e
                    twin.stop()
                    obs["twin"] = twin_obs
                    obs["twin_posts"] = twin.posts
                    obs["twin_expected_post_url"] = twin.expected_post_url()
                srv.stop()
                # settle, then look for leftovers
                await asyncio.sleep(0.05)
                me = asyncio.current_task()
                left = [x for x in asyncio.all_tasks() if x is not me and not x.done()
                        and not x.get_name().startswith("vf-")]
                obs["leftover_tasks"] = [f"{x.get_name()}:{getattr(x.get_coro(), '__qualname__', x.get_coro())}" for x in left]
                obs["clients_open"] = sum(1 for c in http.clients if not c.is_closed)
                obs["clients_total"] = len(http.clients)
                obs["stream_open"] = bool(srv.stream is not None and srv.stream.delivered >= 0 and not srv.stream.closed
                                          and srv.get_count > 0 and srv.est["kind"] not in ("404", "500", "204", "connect_error"))
                for x in left:
                    x.cancel()
                await asyncio.sleep(0.01)
                # the caller closes the two ends it was given; what is still reported un-closed after that is the transport's own
                for o in (obs, twin_obs):
                    for end in o.pop("caller_ends", ()):
                        try:
                            end.close()
                        except Exception:
                            pass
                obs["context_was_entered"] = "entered_at" in obs
                gc.collect()
            obs["warnings"] = [str(w.message)[:160] for w in wlist
                               if issubclass(w.category, (ResourceWarning, RuntimeWarning))]
        return obs

    hooks = None
    if cancel_at is not None:
        def fire():
            t = holder.get("task")
            if cancel_mode == "scope":
                sc = holder.get("scope")
                if sc is not None and t is not None and not t.done():
                    sc.cancel()
            elif t is not None and not t.done():
                t.cancel()
        hooks = {cancel_at: fire}
    obs_out, loop = run_virtual(main, hooks=hooks, max_iterations=300_000)
    obs_out["iterations"] = loop.iterations
    obs_out["posts"] = srv.posts
    obs_out["announced_at"] = srv.announced_at
    obs_out["expected_post_url"] = srv.expected_post_url()
    return obs_out


def exec_reentry(ctx, case: Dict[str, Any]) -> None:
    """The same SSETransport object entered a second time: whatever the first connection left behind, the second
    entry is judged by what the server does *now* (it must not be taken for established on stale state)."""
    from chuk_mcp.transports.sse.transport import SSETransport
    from chuk_mcp.transports.sse.parameters import SSEParameters
    second = case["second"]
    state = {"gets": 0}

    async def handler(request: httpx.Request, rec):
        if request.method == "GET":
            state["gets"] += 1
            if state["gets"] == 1 or second == "ok":
                st = TimedByteStream([(None, sse_event("endpoint", f"/messages/?session_id=g{state['gets']}"))], hold_open=True)
                state["stream"] = st
                return httpx.Response(200, headers={"content-type": "text/event-stream"}, stream=st)
            if second == "404":
                return httpx.Response(404, content=b"gone")
            if second == "connect_error":
                raise httpx.ConnectError("refused", request=request)
            st = TimedByteStream([], hold_open=True)       # silent: never announces
            state["stream"] = st
            return httpx.Response(200, headers={"content-type": "text/event-stream"}, stream=st)
        state.setdefault("posts", []).append(str(request.url))
        return httpx.Response(202)

    async def main():
        outs = []
        loop = asyncio.get_running_loop()
        with ScriptedHTTP(handler) as http:
            tr = SSETransport(SSEParameters(url=BASE, timeout=TIMEOUT))
            # (first_failed: the first entry is refused - the server is not up yet - and the object is entered again)
            if case.get("first") == "failed":
                state["gets"] = -1

                async def refuse(request, rec, _h=handler):
                    if state["gets"] == -1 and request.method == "GET":
                        state["gets"] = 0
                        return httpx.Response(503, content=b"starting")
                    return await _h(request, rec)
                http.handler = refuse
                try:
                    async with tr:
                        outs.append(("entered_on_503", -1, tr._message_url, 0.0))
                except BaseException as e:  # noqa
                    if isinstance(e, (KeyboardInterrupt, SystemExit)):
                        raise
            for k in range(2):
                t0 = loop.time()
                read_end = None
                try:
                    async with tr:
                        outs.append(("entered", k, tr._message_url, loop.time() - t0))
                        read_end = (await tr.get_streams())[0]
                        await asyncio.sleep(0.2)
                        state["stream"].release()
                except BaseException as e:  # noqa
                    if isinstance(e, (KeyboardInterrupt, SystemExit)):
                        raise
                    outs.append(("raised", k, repr(e)[:100], loop.time() - t0))
                if "stream" in state:
                    state["stream"].release()
                # what this life of the object leaves behind once its context was left
                await asyncio.sleep(0.05)
                me = asyncio.current_task()
                left = [x for x in asyncio.all_tasks() if x is not me and not x.done() and not x.get_name().startswith("vf-")]
                after = {"life": k, "tasks": [f"{x.get_name()}:{getattr(x.get_coro(), '__qualname__', x.get_coro())}" for x in left],
                         "clients_open": sum(1 for c in http.clients if not c.is_closed), "clients_total": len(http.clients),
                         "read_stream": None}
                if read_end is not None:
                    try:
                        with anyio.move_on_after(0.5) as scope:
                            while True:
                                await read_end.receive()
                        after["read_stream"] = "still open (receive() blocks)" if scope.cancelled_caught else "?"
                    except (anyio.EndOfStream, anyio.ClosedResourceError, anyio.BrokenResourceError):
                        after["read_stream"] = "ended"
                for x in left:
                    x.cancel()
                outs.append(("after_exit", k, after, 0.0))
        return outs

    try:
        outs, _ = run_virtual(main, max_iterations=300_000)
    except HangDetected as e:
        ctx.violation("hang", f"re-entry: {e}", case)
        return
    ctx.count("scenarios")
    ctx.count("reentry_scenarios")
    for o in outs:
        if o[0] == "entered_on_503":
            ctx.violation("entered_without_endpoint", "the transport was entered although the server answered 503", case)
        if o[0] == "after_exit":
            a = o[2]
            if a["tasks"]:
                ctx.violation("task_leaked", f"life {a['life'] + 1} of one SSETransport object: tasks still running after the context "
                              f"was left: {a['tasks']}", case)
            if a["clients_open"]:
                ctx.violation("http_client_leaked", f"life {a['life'] + 1} of one SSETransport object: {a['clients_open']} of "
                              f"{a['clients_total']} httpx clients not closed after the context was left", case)
            if a["read_stream"] not in (None, "ended"):
                ctx.violation("read_stream_not_ended", f"life {a['life'] + 1} of one SSETransport object: the read stream is "
                              f"{a['read_stream']} after the context was left", case)
    outs = [o for o in outs if o[0] in ("entered", "raised")]
    first, again = outs[0], outs[1]
    if first[0] != "entered":
        ctx.violation("entry_failed_despite_announcement", f"first entry of a fresh transport: {first}", case)
    if second == "ok":
        if again[0] != "entered" or not str(again[2]).endswith("session_id=g2"):
            ctx.violation("stale_endpoint_after_reentry", f"second entry announced session g2; transport uses {again}", case)
    else:
        if again[0] == "entered":
            ctx.violation("entered_without_endpoint", f"second entry of the same transport object was taken for established "
                          f"although this time the server answered {second!r} (endpoint in use: {again[2]!r})", case)
        elif again[3] > TIMEOUT + 0.01:
            ctx.violation("entry_raise_too_late", f"second entry raised after {again[3]}s", case)
    ctx.record(case, shape=[first[0], again[0]], cls=f"reentry:{second}", sample={"case": case, "outcomes": [first[0], again[0]]})


def check_clean(ctx, case, obs, label=""):
    if obs.get("leftover_tasks"):
        ctx.violation("task_leaked", f"{label}tasks still running after the context was left: {obs['leftover_tasks']}", case)
    if obs.get("clients_open"):
        ctx.violation("http_client_leaked", f"{label}{obs['clients_open']} of {obs['clients_total']} httpx clients not closed", case)
    if obs.get("stream_open"):
        ctx.violation("event_stream_not_closed", f"{label}event byte stream never closed", case)
    # anyio warns about un-closed *memory* object streams when they are garbage collected; they hold no OS
    # resource and the read stream belongs to the caller, so only transport/socket/coroutine warnings count
    bad = [w for w in obs.get("warnings", []) if ("never awaited" in w or "unclosed" in w.lower() or "was destroyed" in w)
           and "MemoryObject" not in w]
    if bad:
        ctx.violation("resource_warning", f"{label}{bad[:3]}", case)
    # ... but once the context was entered and left and the caller has closed the two ends it was given, an un-closed
    # memory stream end is one the transport created for itself and did not release
    own = [w for w in obs.get("warnings", []) if "MemoryObject" in w and "unclosed" in w.lower()]
    if own and obs.get("context_was_entered") and not obs.get("cancelled"):
        ctx.violation("own_stream_end_left_open", f"{label}after the context was left (and the caller closed its own two ends): {own[:3]}", case)


def exec_case(ctx, case: Dict[str, Any]) -> None:
    if case["exit"] == "cancel_sweep":
        return exec_cancel_sweep(ctx, case)
    try:
        obs = run_once(case)
    except HangDetected as e:
        ctx.violation("hang", str(e), case)
        ctx.record(case, shape="hang")
        return
    ctx.count("scenarios")
    est = case["est"]
    k = est["kind"]
    will_announce = (k in EST_FORMS) or (k == "slow" and est["delay"] < TIMEOUT - 0.001)
    ambiguous = k == "slow" and abs(est["delay"] - TIMEOUT) <= 0.001
    shape: List[Any] = []
    if "entered_at" in obs:
        shape.append("entered")
        t_entry = obs["entered_at"] - obs["t_enter0"]
        if obs["announced_at_entry"] is None:
            mech = {"404": "entered_after_http_error", "500": "entered_after_http_error", "204": "entered_after_http_error",
                    "connect_error": "entered_after_connect_error", "empty_200": "entered_on_ended_stream"}.get(
                        k, "entered_without_endpoint")
            ctx.violation(mech, f"sse_client() was entered at t={t_entry} although the server never announced a message "
                          f"endpoint (establishment: {est})", case)
        if t_entry > TIMEOUT + 0.01:
            ctx.violation("entry_too_late", f"entry completed at {t_entry} > timeout", case)
        # every request: POST to announced URL + exactly one terminal message
        for req in case.get("requests", []):
            rid = req["id"]
            posts = [p for p in obs["posts"] if p["body"].get("id") == rid and type(p["body"].get("id")) is type(rid)]
            if obs["announced_at_entry"] is not None:
                if len(posts) != 1:
                    ctx.violation("post_count", f"request {rid!r} produced {len(posts)} POSTs", case)
                elif obs["expected_post_url"] and posts[0]["url"] != obs["expected_post_url"]:
                    ctx.violation("post_url", f"POST went to {posts[0]['url']!r}, announced {obs['expected_post_url']!r}", case)
                if len(posts) == 1:
                    want_body = {"jsonrpc": "2.0", "id": rid, "method": "tools/call", "params": {"name": "t", "arguments": {"x": TEXT}}}
                    if not strict_eq(posts[0]["body"], want_body):
                        ctx.violation("post_body_differs", f"POST body {posts[0]['body']!r} is not the message {want_body!r}", case)
            if case["exit"] != "normal" or case.get("leave_after") is not None:
                continue      # the application left while the request was pending: only the exit is judged
            msgs = [norm_any(m) for _, m in obs["got"]]
            mine = [g for g in msgs if g[0] in ("response", "error") and g[1] == tagged(rid)]
            twins = [g for g in msgs if g[0] in ("response", "error") and g[1] != tagged(rid)
                     and g[1][1:] and str(g[1][1]) == str(rid)]
            if len(mine) != 1:
                if not mine and twins:
                    mech = "terminal_id_type_changed"
                elif not mine:
                    mech = "no_terminal_message" if obs["announced_at_entry"] is not None else "request_vanished_on_dead_connection"
                else:
                    mech = "duplicate_terminal_message"
                ctx.violation(mech, f"request id {rid!r} mode {req['mode']}: {len(mine)} terminal messages on the read stream "
                              f"(all: {[g[:2] for g in msgs]})", case)
            if req["mode"].startswith("event_note"):
                marker = f"right-behind-answer-{rid}"
                pos_note = [k for k, (_, m_) in enumerate(obs["got"]) if getattr(m_, "method", None) == "notifications/message"
                            and (getattr(m_, "params", None) or {}).get("data") == marker]
                pos_ans = [k for k, g in enumerate(msgs) if g[0] in ("response", "error") and g[1] == tagged(rid)]
                if len(pos_note) != 1:
                    ctx.violation("event_stream_message_lost" if not pos_note else "event_stream_message_duplicated",
                                  f"the notification written right behind the answer to {rid!r} was delivered {len(pos_note)} times", case)
                elif pos_ans and pos_note[0] < pos_ans[0]:
                    ctx.violation("event_stream_message_altered_or_reordered", f"request {rid!r} ({req['mode']}): the server wrote the "
                                  f"answer and then a notification; the read stream delivered the notification first "
                                  f"({[g[:3] for g in msgs]})", case)
            if req["mode"].startswith("server_request_same_id"):
                sreq = [g for g in msgs if g[0] == "request" and g[1] == tagged(rid)]
                if len(sreq) != 1:
                    ctx.violation("server_request_with_pending_id_not_delivered_once", f"the server's own request with id {rid!r} "
                                  f"(same id as the client request in flight) was delivered {len(sreq)} times", case)
            shape.append(len(mine))
        if case.get("answer_server_requests") and case["exit"] == "normal":
            ctx.count("server_requests_answered", len(obs.get("answered", [])))
            for ans in obs.get("answered", []):
                aposts = [p for p in obs["posts"] if "method" not in p["body"] and strict_eq(p["body"].get("id"), ans["id"])]
                if len(aposts) != 1 or not strict_eq(aposts[0]["body"], ans):
                    ctx.violation("answer_to_server_request_not_posted_once", f"the application's answer {ans!r} to the server's "
                                  f"request was POSTed {len(aposts)} time(s): {[p['body'] for p in aposts]!r}", case)
            for req in case.get("late_requests", []):
                lp = [p for p in obs["posts"] if p["body"].get("id") == req["id"]]
                mine = [g for g in [norm_any(m) for _, m in obs["got"]] if g[0] in ("response", "error") and g[1] == tagged(req["id"])]
                if len(lp) != 1 or len(mine) != 1:
                    ctx.violation("request_after_answer_disturbed", f"request {req['id']!r} written after the application had answered a "
                                  f"server request: {len(lp)} POSTs, {len(mine)} terminal messages", case)
        # server messages: once, in order
        if case.get("server_msgs"):
            msgs = [norm_any(m) for _, m in obs["got"]]
            exp = [norm_any(w) for w in case["server_msgs"]]
            rids = {tagged(r["id"]) for r in case.get("requests", []) + case.get("late_requests", [])}
            got_srv = [g for g in msgs if g[1] not in rids or g[0] in ("request", "notification")]
            if got_srv != exp:
                if len(got_srv) < len(exp):
                    mech = "event_stream_message_lost"
                elif len(got_srv) > len(exp):
                    mech = "event_stream_message_duplicated"
                else:
                    mech = "event_stream_message_altered_or_reordered"
                ctx.violation(mech, f"cuts {case.get('cuts')}: got {len(got_srv)} server messages, expected {len(exp)}: "
                              f"{[g[:3] for g in got_srv]}", case)
            shape.append(f"srv{len(got_srv)}")
    else:
        shape.append("raised")
        err = obs.get("entry_error")
        t_err = obs.get("entry_error_at", 0) - obs["t_enter0"]
        if err is None:
            ctx.violation("entry_no_outcome", f"neither entered nor raised: {obs.get('scenario_error')!r}", case)
        else:
            if will_announce and not ambiguous:
                ctx.violation("entry_failed_despite_announcement", f"server announced the endpoint but entry raised {err!r}", case)
            if t_err > TIMEOUT + 0.01:
                ctx.violation("entry_raise_too_late", f"entry raised at {t_err} > timeout {TIMEOUT}", case)
    if case.get("twin"):
        tobs = obs.get("twin") or {}
        ctx.count("twin_connections")
        tmsgs = [norm_any(m) for _, m in tobs.get("got", [])]
        problems = []
        if "entered_at" not in tobs:
            problems.append(f"never entered: {tobs.get('entry_error') or tobs.get('scenario_error')!r}")
        for req in twin_case(case)["requests"]:
            mine = [g for g in tmsgs if g[0] == "response" and g[1] == tagged(req["id"])]
            if len(mine) != 1:
                problems.append(f"request {req['id']!r}: {len(mine)} responses")
            tp = [p for p in obs.get("twin_posts", []) if p["body"].get("id") == req["id"]]
            if len(tp) != 1 or tp[0]["url"] != obs.get("twin_expected_post_url"):
                problems.append(f"request {req['id']!r}: POSTs {[p['url'] for p in tp]}")
        for label, stream_msgs, base in (("first", obs.get("got", []), BASE), ("second", tobs.get("got", []), TWIN_BASE)):
            for _, m in stream_msgs:
                res = getattr(m, "result", None)
                if isinstance(res, dict) and res.get("server") not in (None, base):
                    problems.append(f"{label} connection read a response produced by {res.get('server')}")
        if problems:
            ctx.violation("connections_interfere", f"second healthy SSE connection in the same process: {problems[:4]}", case)
    check_clean(ctx, case, obs)
    ctx.record(case, shape=shape, cls=(f"est:{k}:{case['exit']}" + (":twin" if case.get("twin") else "")) if not case.get("server_msgs") else "chunking",
               sample={"case": {kk: vv for kk, vv in case.items() if kk != "server_msgs"}, "observed": shape,
                       "announced_at": obs.get("announced_at"), "posts": len(obs["posts"])})


def exec_cancel_sweep(ctx, case: Dict[str, Any]) -> None:
    base = dict(case, exit="normal")
    try:
        ref = run_once(base)
    except HangDetected as e:
        ctx.violation("hang", str(e), case)
        return
    n = ref["iterations"]
    ctx.extra.setdefault("cancel_points", 0)
    ks = list(range(1, n + 1))
    if ctx.tier == "quick" and len(ks) > 120:
        rng = ctx.sub_rng("sweep", json.dumps(case, sort_keys=True))
        ks = sorted(set(ks[:60] + rng.sample(ks[60:], 60)))
    for mode, k in [(m, k) for m in ("task", "scope") for k in ks]:
        c = dict(base, exit=f"{'cancel' if mode == 'task' else 'scopecancel'}@{k}")
        try:
            obs = run_once(base, cancel_at=k, cancel_mode=mode)
        except HangDetected as e:
            ctx.violation("hang_after_cancel", f"cancel at iteration {k}: {e}", c)
            continue
        except BaseException as e:  # noqa
            if isinstance(e, (KeyboardInterrupt, SystemExit)):
                raise
            ctx.violation("cancel_crashed", f"cancel at iteration {k}: {e!r}", c)
            continue
        ctx.count("cancel_points")
        ctx.extra["cancel_points"] += 1
        check_clean(ctx, c, obs, label=f"{'task.cancel()' if mode == 'task' else 'anyio scope cancel'} at loop iteration {k}/{n}: ")
        ctx.record(c, shape=[bool(obs.get("cancelled")), len(obs.get("leftover_tasks", []))], cls="cancel_sweep:" + mode,
                   sample={"case": c, "cancelled": bool(obs.get("cancelled")), "leftovers": obs.get("leftover_tasks")})


def _reentry_cases():
    return [{"reentry": True, "second": k} for k in ("ok", "404", "connect_error", "silent")] + \
        [{"reentry": True, "second": k, "first": "failed"} for k in ("ok", "404")]


def run(ctx):
    for case in _reentry_cases():
        if ctx.mine():
            exec_reentry(ctx, case)
    for case in gen_cases(ctx):
        if not ctx.mine():
            continue
        if ctx.out_of_time():
            break
        exec_case(ctx, case)
    ctx.require_reached("scenarios")


def replay(ctx, case):
    if case.get("reentry"):
        exec_reentry(ctx, case)
        return
    if "cancel@" in str(case.get("exit", "")):
        k = int(case["exit"].split("@")[1])
        base = dict(case, exit="normal")
        obs = run_once(base, cancel_at=k, cancel_mode="scope" if case["exit"].startswith("scope") else "task")
        check_clean(ctx, case, obs, label=f"cancel at loop iteration {k}: ")
        ctx.record(case, shape=1)
    else:
        exec_case(ctx, case)
    ctx.record({"x": 1}, shape=1)
