"""C20 - every host entry point launches exactly the server the configuration names."""
from __future__ import annotations

import concurrent.futures as cf
import glob
import json
import os
import shutil
import subprocess
import tempfile
from typing import Any, Dict, List, Optional

from vf.core import PY, ROOT, child_env

ID = "C20"
LEVEL = "exploration"
SHARDS = {"quick": 1, "thorough": 1}
BUDGET_S = {"quick": 150.0, "thorough": 1200.0}
TECHNIQUE = ("runtime monitoring: a witness child process records the exact argv/environment it was launched with (from "
             "/proc) and the arrival of notifications/initialized; observed per host entry point and compared with the "
             "generated configuration")
LEVEL_TEXT = ("Generated configuration files (1-4 servers; args with spaces, quotes, Unicode and empty strings; env absent / "
              "empty / with values; timeout absent/int/float/numeric string; extra keys) are run through the three host "
              "entry points - load_config+stdio_client+send_initialize, `python -m chuk_mcp`, run_command - each in its own "
              "interpreter; a per-case witness executable must be launched exactly once per requested server with exactly "
              "the configured arguments and environment and must see the initialized notification. Malformed configurations "
              "must raise the documented exception types."
              " Unknown names are placed first, last and between known ones in the runner's list."
              ' Also bare commands resolved through the configured PATH with a same-named decoy on the host PATH, and a load preceded by a caller editing the previously returned parameters.'
              ' Also names differing only by case/space/normalisation, unknown names that re-spell a configured one, whitespace at the edges of args and env values.'
              ' Also programs installed under paths with spaces and quotes with no arguments, and a UTF-8 configuration read under a C locale with UTF-8 mode off.'
              ' Also arguments and environment values that are not NFC-stable or hold format characters (ZWJ, ZWNJ, soft hyphen, word joiner).')
LEVEL_NOTE = ("Trusted: the witness (children/witness.py) reading /proc/self/cmdline and /proc/self/environ; the harness "
              "environment passed to each entry-point process is known, so the documented inherited subset is computable.")
RULE = ("case = (config, requested servers, entry point) or (malformed class). Non-trivial: all (each launches real "
        "processes or exercises the loader's error path); distinct = hash(case)+hash(observed launches).")
ASSUMPTIONS = ["the documented default environment = HOME, LOGNAME, PATH, SHELL, TERM, USER as present in the launching "
               "process (values starting with '()' skipped)"]

INHERIT = ["HOME", "LOGNAME", "PATH", "SHELL", "TERM", "USER"]

ARG_POOL = [" leading", "trailing ", " ", "\t", "  both  ", "line\nbreak ", "plain", "with space", "", "quo\"te", "sin'gle", "--flag=value", "ünï\U0001f600", "back\\slash", "$HOME", "a;b|c&d",
            "*", "new\nline", "-", "--", "tab\there", "%s", "{json:1}"]
ENV_POOL = [None, {}, {"FOO": "bar"}, {"PATH": "/usr/bin:/bin", "X_Y": "ü \U0001f600", "EMPTY": ""},
            {"LOG_LEVEL": "ERROR", "A": "1"}, {"HOME": "/nonexistent", "TERM": "dumb", "Z": "z z"},
            {"BRAVE_API_KEY": "sk-123 456", "GITHUB_TOKEN": "ghp_\u00fc", "DB_PASSWORD": "p@ss=w:rd", "client_secret": "s3cr3t"},
            {"Key": "k", "token": "t", "MY_SECRET_VALUE": "", "PASSWORD": "********", "NOT_SENSITIVE": "plain"},
            {"PYTHONPATH": "/x:/y", "LD_LIBRARY_PATH": "/lib", "LANG": "C.UTF-8", "1NUM": "n", "lower_case": "v"},
            {"PADDED": "  value with edges  ", "TABBED": "\tv\t", "ONLY_SPACE": " ", "TRAILING_NL": "v\n"}]
TIMEOUTS = ["__absent__", 5, 2.5, "7", "3.5", None]


def gen_configs(ctx):
    rng = ctx.sub_rng("c20")
    n = 10 if ctx.tier == "quick" else 100
    out = []
    for i in range(n):
        k = rng.randint(1, 4)
        servers = {}
        for j in range(k):
            name = rng.choice(["sqlite", "srv", "with space", "ünï", "a-b_c", "S"]) + str(j)
            args = [rng.choice(ARG_POOL) for _ in range(rng.choice([0, 1, 2, 3, 5]))]
            env = rng.choice(ENV_POOL)
            tmo = rng.choice(TIMEOUTS)
            servers[name] = {"args": args, "env": env, "timeout": tmo,
                             "extra": rng.choice([None, {"disabled": False}, {"description": "x", "cwd": "/tmp"}])}
            if rng.random() < 0.15:
                servers[name]["args"] = "__absent__"
        out.append({"servers": servers, "top_extra": rng.choice([None, {"version": 2}])})
    # deterministic corner configs
    out.append({"servers": {"only": {"args": [], "env": None, "timeout": "__absent__", "extra": None}}, "top_extra": None})
    out.append({"servers": {"a": {"args": ARG_POOL[:8], "env": ENV_POOL[3], "timeout": 5, "extra": None},
                            "b": {"args": ARG_POOL[8:], "env": {}, "timeout": "7", "extra": None}}, "top_extra": None})
    # whitespace at the edges of arguments and environment values is part of them
    out.append({"servers": {"padded": {"args": [" leading", "trailing ", " ", "\t", "  both  "],
                                       "env": {"PADDED": "  value with edges  ", "ONLY_SPACE": " "}, "timeout": 5, "extra": None}},
                "top_extra": None})
    # names that differ only by case / by a normalisation a lookup might apply: each is its own server
    out.append({"servers": {"reports": {"args": ["lower"], "env": {"WHICH": "lower"}, "timeout": 3, "extra": None},
                            "Reports": {"args": ["Capital"], "env": {"WHICH": "capital"}, "timeout": 4, "extra": None},
                            "REPORTS ": {"args": ["upper-space"], "env": None, "timeout": "__absent__", "extra": None},
                            "re\u0301ports": {"args": ["nfd"], "env": {}, "timeout": 5, "extra": None}},
                "top_extra": None})
    # the command given as a bare name: it has to be looked up through the PATH of the *configured* environment;
    # a program of the same name sits on the host's own PATH as a decoy
    out.append({"servers": {"pinned": {"args": ["x y"], "env": {"VF_MARK": "1"}, "timeout": 5, "extra": None, "bare": True}},
                "top_extra": None})
    out.append({"servers": {"a": {"args": [], "env": {}, "timeout": "__absent__", "extra": None, "bare": True},
                            "b": {"args": ["--flag"], "env": ENV_POOL[3], "timeout": 5, "extra": None}}, "top_extra": None})
    # the program lives under a path with spaces and quotes, and there are no arguments at all (absent / empty list)
    out.append({"servers": {"noargs": {"args": "__absent__", "env": None, "timeout": 5, "extra": None, "spaced": True},
                            "emptyargs": {"args": [], "env": {"A": "b c"}, "timeout": "__absent__", "extra": None, "spaced": True},
                            "someargs": {"args": ["--db", "my file.db"], "env": {}, "timeout": 5, "extra": None, "spaced": True}},
                "top_extra": None})
    # text that is not stable under Unicode normalisation or that holds format characters (decomposed accents as macOS
    # spells file names, zero-width joiners inside emoji sequences and Persian words, soft hyphen, word joiner): the
    # child must get exactly these code points
    out.append({"servers": {"unicode-args": {"args": ["re\u0301sume\u0301.txt", "\U0001f468\u200d\U0001f469\u200d\U0001f467", "\u0645\u06cc\u200c\u062e\u0648\u0627\u0647\u0645",
                                                     "soft\u00adhyphen", "word\u2060joiner", "\u2126 ohm \u212b", "\ufb01 ligature"],
                                            "env": {"DECOMPOSED": "e\u0301", "ZWJ": "a\u200db", "BOM_INSIDE": "x\ufeffy", "KELVIN": "\u212a"},
                                            "timeout": 5, "extra": None}}, "top_extra": None})
    # a UTF-8 file (JSON is UTF-8) read by a process whose locale encoding is not: the requested entry itself is plain
    # ASCII, the non-ASCII text sits in a comment member and in an entry that is never asked for
    out.append({"servers": {"plain": {"args": ["--x", "y z"], "env": {"A": "b"}, "timeout": 5, "extra": {"description": "Gr\u00fc\u00dfe \u2713 \u65e5\u672c"}},
                            "never-asked-for": {"args": ["\u00fc"], "env": {}, "timeout": 5, "extra": None}},
                "top_extra": {"comment": "\u00e9t\u00e9 \U0001f600"}, "locale_c": True, "only": ["plain"]})
    return out


DRIVER = r'''
import asyncio, json, sys, os
mode, cfg_path, names = sys.argv[1], sys.argv[2], json.loads(sys.argv[3])
out = {"mode": mode}
if mode == "loader":
    from chuk_mcp.config import load_config
    from chuk_mcp.transports.stdio.stdio_client import stdio_client
    from chuk_mcp.protocol.messages.initialize.send_messages import send_initialize
    from chuk_mcp.transports.stdio.parameters import StdioParameters
    async def main():
        res = {}
        for n in names:
            try:
                # an earlier caller loaded the same entry and edited what it got back (appended a flag, set a variable):
                # the next load must still describe the file, not the edited object
                try:
                    early, _t = await load_config(cfg_path, n)
                    if isinstance(getattr(early, "args", None), list):
                        early.args.append("EDITED-BY-EARLIER-CALLER")
                    if isinstance(getattr(early, "env", None), dict):
                        early.env["VF_EDITED_BY_EARLIER_CALLER"] = "1"
                except BaseException:
                    pass
                loaded = await load_config(cfg_path, n)
                params, tmo = loaded
                res[n] = {"params_type": type(params).__name__, "timeout": tmo, "timeout_type": type(tmo).__name__}
                async with stdio_client(params) as (r, w):
                    init = await send_initialize(r, w, timeout=10.0)
                    res[n]["init"] = init.protocolVersion
                    await asyncio.sleep(0.1)
            except BaseException as e:
                res[n] = dict(res.get(n, {}), error=type(e).__name__, error_mod=type(e).__module__, msg=str(e)[:200])
        return res
    out["servers"] = asyncio.run(main())
elif mode == "loader_rewrite":
    # one process, one path: load + launch, rewrite the file at once, load + launch again (then a broken rewrite)
    from chuk_mcp.config import load_config
    from chuk_mcp.transports.stdio.stdio_client import stdio_client
    from chuk_mcp.protocol.messages.initialize.send_messages import send_initialize
    import shutil
    async def launch(n):
        params, tmo = await load_config(cfg_path, n)
        async with stdio_client(params) as (r, w):
            await send_initialize(r, w, timeout=10.0)
            await asyncio.sleep(0.1)
    async def main():
        res = {}
        for phase, src in (("v1", None), ("v2", cfg_path + ".v2")):
            if src:
                shutil.copyfile(src, cfg_path)
            for n in names:
                try:
                    await launch(n)
                    res[phase + ":" + n] = "ok"
                except BaseException as e:
                    res[phase + ":" + n] = type(e).__name__ + ": " + str(e)[:120]
        with open(cfg_path, "w") as f:
            f.write("{ this is not json")
        try:
            await load_config(cfg_path, names[0])
            res["broken"] = "no exception"
        except BaseException as e:
            import json as _j
            res["broken"] = "JSONDecodeError" if isinstance(e, _j.JSONDecodeError) else type(e).__name__
        with open(cfg_path, "w") as f:
            f.write('{"mcpServers": {}}')
        try:
            await load_config(cfg_path, names[0])
            res["removed"] = "no exception"
        except BaseException as e:
            res["removed"] = type(e).__name__
        return res
    out["phases"] = asyncio.run(main())
elif mode == "errors":
    from chuk_mcp.config import load_config
    async def main():
        try:
            await load_config(cfg_path, names[0])
            return {"error": None}
        except BaseException as e:
            import json as _j
            return {"error": type(e).__name__, "mro": [c.__name__ for c in type(e).__mro__],
                    "is_jsondecode": isinstance(e, _j.JSONDecodeError), "msg": str(e)[:200]}
    out["result"] = asyncio.run(main())
elif mode == "runner":
    from chuk_mcp.mcp_client.host.server_manager import run_command
    seen = {}
    async def command(server_streams, **kw):
        seen["n_streams"] = len(server_streams)
        from chuk_mcp.protocol.messages.ping.send_messages import send_ping
        seen["pings"] = [await send_ping(r, w, timeout=5.0) for r, w in server_streams]
        await asyncio.sleep(0.1)
    run_command(command, cfg_path, names)
    out["seen"] = seen
print("RESULT " + json.dumps(out))
'''


def materialise(tmp: str, cfg: Dict[str, Any]) -> Dict[str, Any]:
    """Write the witness executables and the config file; return the expectation table."""
    src = open(os.path.join(ROOT, "children", "witness.py")).read()
    servers = {}
    expect = {}
    for i, (name, spec) in enumerate(cfg["servers"].items()):
        decoy = None
        spec_env = spec["env"]
        if spec.get("bare"):
            bindir, hostbin = os.path.join(tmp, f"envbin_{i}"), os.path.join(tmp, "hostbin")
            os.makedirs(bindir, exist_ok=True)
            os.makedirs(hostbin, exist_ok=True)
            w = os.path.join(bindir, f"vf-server-{i}")
            decoy = os.path.join(hostbin, f"vf-server-{i}")
            with open(decoy, "w") as f:
                f.write(src)
            os.chmod(decoy, 0o755)
            spec_env = dict(spec["env"] or {}, PATH=f"{bindir}:/usr/bin:/bin")
        elif spec.get("spaced"):
            # an installation directory whose name holds spaces and quote characters: the command is one program path
            d = os.path.join(tmp, f"My Servers {i}", "it's \"here\"")
            os.makedirs(d, exist_ok=True)
            w = os.path.join(d, f"witness server {i}.py")
        else:
            w = os.path.join(tmp, f"witness_{i}.py")
        with open(w, "w") as f:
            f.write(src)
        os.chmod(w, 0o755)
        entry: Dict[str, Any] = {"command": os.path.basename(w) if spec.get("bare") else w}
        if spec["args"] != "__absent__":
            entry["args"] = spec["args"]
        if spec_env is not None:
            entry["env"] = spec_env
        if spec["timeout"] != "__absent__":
            entry["timeout"] = spec["timeout"]
        if spec.get("extra"):
            entry.update(spec["extra"])
        servers[name] = entry
        expect[name] = {"witness": w, "args": [] if spec["args"] == "__absent__" else spec["args"],
                        "env": spec_env, "timeout": spec["timeout"], "decoy": decoy}
    doc: Dict[str, Any] = {"mcpServers": servers}
    if cfg.get("top_extra"):
        doc.update(cfg["top_extra"])
    path = os.path.join(tmp, "server_config.json")
    with open(path, "w", encoding="utf-8") as f:
        json.dump(doc, f, ensure_ascii=False)
    return {"path": path, "expect": expect}


def parent_env() -> Dict[str, str]:
    env = child_env()
    env.setdefault("HOME", "/root")
    env["TERM"] = "xterm"
    env["USER"] = "verif"
    env["SHELL"] = "/bin/sh"
    env.pop("LOGNAME", None)
    env["VF_NOT_INHERITED"] = "must-not-leak"
    return env


def run_entry(mode: str, cfg_path: str, names: List[str], tmp: str, locale_c: bool = False) -> Dict[str, Any]:
    env = parent_env()
    if locale_c:
        env.update({"LC_ALL": "C", "LANG": "C", "PYTHONUTF8": "0", "PYTHONCOERCECLOCALE": "0", "PYTHONIOENCODING": "utf-8"})
    if os.path.isdir(os.path.join(tmp, "hostbin")):
        env["PATH"] = os.path.join(tmp, "hostbin") + ":" + env.get("PATH", "/usr/bin:/bin")
    if mode == "cli":
        cmd = [PY, "-B", "-m", "chuk_mcp", "--config", cfg_path, "--server", names[0]]
    else:
        cmd = [PY, "-B", "-c", DRIVER, mode, cfg_path, json.dumps(names)]
    try:
        r = subprocess.run(cmd, env=env, cwd=tmp, capture_output=True, text=True, timeout=90, start_new_session=True)
    except subprocess.TimeoutExpired:
        return {"watchdog": True}
    o: Dict[str, Any] = {"rc": r.returncode, "stdout_tail": r.stdout[-400:], "stderr_tail": r.stderr[-400:]}
    for line in r.stdout.splitlines():
        if "RESULT " in line:
            o["result"] = json.loads(line[line.index("RESULT ") + 7:])
    return o


def launches(witness: str) -> List[Dict[str, Any]]:
    out = []
    for f in sorted(glob.glob(witness + ".launch.*.json")):
        rec = json.load(open(f))
        rec["initialized"] = os.path.exists(f"{witness}.initialized.{rec['pid']}")
        out.append(rec)
    return out


def one_case(cfg: Dict[str, Any], mode: str, names: List[str]) -> Dict[str, Any]:
    tmp = tempfile.mkdtemp(prefix="vf_c20_")
    try:
        m = materialise(tmp, cfg)
        o = run_entry(mode, m["path"], names, tmp, locale_c=bool(cfg.get("locale_c")))
        o["launches"] = {n: launches(e["witness"]) for n, e in m["expect"].items()}
        o["decoy_launches"] = {n: launches(e["decoy"]) for n, e in m["expect"].items() if e.get("decoy")}
        o["expect"] = m["expect"]
        o["parent_env"] = {k: v for k, v in parent_env().items() if k in INHERIT}
        return o
    finally:
        # make sure nothing survives
        subprocess.run(["pkill", "-f", tmp], capture_output=True)
        shutil.rmtree(tmp, ignore_errors=True)


def rewrite_case(cfg: Dict[str, Any]) -> Dict[str, Any]:
    """Same path, two generations of content, one process."""
    tmp = tempfile.mkdtemp(prefix="vf_c20r_")
    try:
        d1, d2 = os.path.join(tmp, "g1"), os.path.join(tmp, "g2")
        os.makedirs(d1)
        os.makedirs(d2)
        m1 = materialise(d1, cfg)
        cfg2 = json.loads(json.dumps(cfg))
        for name, spec in cfg2["servers"].items():
            spec["args"] = ["--generation", "two"] + (spec["args"] if isinstance(spec["args"], list) else [])
            spec["env"] = {"GENERATION": "2"}
        m2 = materialise(d2, cfg2)
        shutil.copyfile(m2["path"], m1["path"] + ".v2")
        names = list(cfg["servers"])
        o = run_entry("loader_rewrite", m1["path"], names, tmp)
        o["launches_v1"] = {n: launches(e["witness"]) for n, e in m1["expect"].items()}
        o["launches_v2"] = {n: launches(e["witness"]) for n, e in m2["expect"].items()}
        o["expect_v2"] = m2["expect"]
        return o
    finally:
        subprocess.run(["pkill", "-f", tmp], capture_output=True)
        shutil.rmtree(tmp, ignore_errors=True)


def judge_rewrite(ctx, case, o):
    if o.get("watchdog"):
        ctx.violation("entry_point_hung", "loader_rewrite did not finish", case)
        return
    ctx.count("entry_point_runs")
    phases = (o.get("result") or {}).get("phases", {})
    for name, exp in o["expect_v2"].items():
        l1, l2 = o["launches_v1"].get(name, []), o["launches_v2"].get(name, [])
        ctx.count("witness_launches", len(l1) + len(l2))
        if len(l1) != 1 or len(l2) != 1:
            ctx.violation("stale_configuration_used", f"after the file was rewritten, server {name!r}: generation-1 command "
                          f"launched {len(l1)} time(s), generation-2 command {len(l2)} time(s) (expected 1 and 1); "
                          f"phases: {phases}", case)
            continue
        got = [bytes.fromhex(a) for a in l2[0]["argv"]]
        if got != [os.fsencode(a) for a in exp["args"]]:
            ctx.violation("argv_differs", f"rewritten config: {name!r} argv {got!r} != {exp['args']!r}", case)
    if phases.get("broken") != "JSONDecodeError":
        ctx.violation("config_error_type", f"file rewritten with invalid JSON: load_config gave {phases.get('broken')!r}", case)
    if phases.get("removed") != "ValueError":
        ctx.violation("config_error_type", f"server removed from the file: load_config gave {phases.get('removed')!r}", case)
    ctx.record(case, shape=[phases.get("broken"), phases.get("removed")], cls="loader_rewrite",
               sample={"mode": "loader_rewrite", "phases": phases})


def suspicious_of_load(case: Dict[str, Any], o: Dict[str, Any]) -> bool:
    """True when the outcome is of the kind a starved machine produces: watchdog, or a requested and correctly launched
    server that never saw the end of the handshake."""
    if o.get("watchdog"):
        return True
    for name, exp in (o.get("expect") or {}).items():
        if name in case["names"]:
            ls = (o.get("launches") or {}).get(name) or []
            if len(ls) == 1 and not ls[0].get("initialized"):
                return True
    return False


def judge(ctx, case: Dict[str, Any], o: Dict[str, Any]) -> None:
    mode, names = case["mode"], case["names"]
    if o.get("watchdog"):
        ctx.violation("entry_point_hung", f"{mode} did not finish within 90 s", case)
        ctx.record(case, shape="watchdog")
        return
    ctx.count("entry_point_runs")
    shape = []
    for name, dl in (o.get("decoy_launches") or {}).items():
        ctx.count("bare_command_servers")
        if dl:
            ctx.violation("wrong_program_launched", f"{mode}: server {name!r} is configured as a bare command with its own PATH "
                          f"in env; the same-named program on the host's PATH was started instead ({len(dl)} launches)", case)
    for name, exp in o["expect"].items():
        ls = o["launches"][name]
        ctx.count("witness_launches", len(ls))
        want = 1 if name in names else 0
        if len(ls) != want:
            if want and not ls:
                mech = "server_never_launched"
            elif want:
                mech = "server_launched_more_than_once"
            else:
                mech = "unrequested_server_launched"
            detail = (o.get("result") or {}).get("servers", {}).get(name) or o.get("stdout_tail", "")[-200:]
            ctx.violation(mech, f"{mode}: server {name!r} was launched {len(ls)} times (expected {want}); entry point said: "
                          f"{detail}", case)
            shape.append(len(ls))
            continue
        if not want:
            continue
        l = ls[0]
        got_args = [bytes.fromhex(a) for a in l["argv"]]
        exp_args = [os.fsencode(a) for a in exp["args"]]
        if got_args != exp_args:
            ctx.violation("argv_differs", f"{mode}: server {name!r} argv {got_args!r} != configured {exp_args!r}", case)
        got_env = dict(e.split(b"=", 1) for e in (bytes.fromhex(x) for x in l["env"]))
        if exp["env"]:
            want_env = {os.fsencode(k): os.fsencode(v) for k, v in exp["env"].items()}
        else:
            want_env = {os.fsencode(k): os.fsencode(v) for k, v in o["parent_env"].items() if v and not v.startswith("()")}
        if got_env != want_env:
            extra = {k: v for k, v in got_env.items() if k not in want_env}
            missing = {k: v for k, v in want_env.items() if got_env.get(k) != v}
            mech = "environment_leaked" if extra else "environment_differs"
            ctx.violation(mech, f"{mode}: server {name!r} environment differs: unexpected {extra!r}, missing/changed {missing!r}", case)
        if not l["initialized"]:
            ctx.violation("handshake_not_completed", f"{mode}: server {name!r} never received notifications/initialized", case)
        shape.append("ok" if l["initialized"] else "noinit")
    if mode == "loader":
        res = (o.get("result") or {}).get("servers", {})
        for name in names:
            r = res.get(name, {})
            if name not in o["expect"]:
                if r.get("error") != "ValueError":
                    ctx.violation("config_error_type", f"loader path, unknown server {name!r}: {r}", case)
                continue
            exp = o["expect"][name]
            if r.get("error"):
                ctx.violation("loader_entry_failed", f"loader path failed for {name!r}: {r}", case)
            t = exp["timeout"]
            want_t = None if t in ("__absent__", None) else float(t)
            if "timeout" in r and r["timeout"] != want_t:
                ctx.violation("timeout_value", f"load_config returned timeout {r['timeout']!r}, configured {t!r}", case)
    if mode == "cli" and names[0] not in o["expect"]:
        if o.get("rc") == 0:
            ctx.violation("cli_unknown_server_succeeded", f"python -m chuk_mcp reported success for an unknown server: "
                          f"{o.get('stdout_tail')}", case)
    elif mode == "cli" and o.get("rc") != 0:
        ctx.violation("cli_failed", f"python -m chuk_mcp exited {o.get('rc')}: {o.get('stdout_tail')}", case)
    if mode == "runner":
        seen = (o.get("result") or {}).get("seen", {})
        if seen.get("n_streams") != len([n for n in names if n in o["expect"]]) and \
                not (seen.get("n_streams") is None and not [n for n in names if n in o["expect"]]):
            ctx.violation("runner_connection_count", f"run_command handed {seen.get('n_streams')} connections to the command, "
                          f"{len(names)} servers requested; output: {o.get('stdout_tail', '')[-300:]}", case)
    ctx.record(case, shape=shape, cls=mode, sample={"mode": mode, "names": names, "observed": shape,
                                                    "config_servers": {k: {"args": v["args"], "env": v["env"]}
                                                                       for k, v in o["expect"].items()}})


def error_cases(ctx) -> List[Dict[str, Any]]:
    return [
        {"kind": "missing_file", "expect": "FileNotFoundError"},
        {"kind": "invalid_json", "content": "{not json", "expect": "JSONDecodeError"},
        {"kind": "invalid_json", "content": "", "expect": "JSONDecodeError"},
        {"kind": "invalid_json", "content": '{"mcpServers": {"a": {"command": "x"}', "expect": "JSONDecodeError"},
        {"kind": "unknown_server", "content": '{"mcpServers": {"a": {"command": "x"}}}', "expect": "ValueError"},
        {"kind": "unknown_server", "content": '{"mcpServers": {}}', "expect": "ValueError"},
        {"kind": "unknown_server", "content": '{}', "expect": "ValueError"},
        {"kind": "unknown_server", "content": '{"mcpServers": {"A": {"command": "x"}}}', "expect": "ValueError"},
    ]


def run_error_case(ec: Dict[str, Any]) -> Dict[str, Any]:
    tmp = tempfile.mkdtemp(prefix="vf_c20e_")
    try:
        path = os.path.join(tmp, "cfg.json")
        if ec["kind"] != "missing_file":
            with open(path, "w") as f:
                f.write(ec["content"])
        return run_entry("errors", path, ["wanted"], tmp)
    finally:
        shutil.rmtree(tmp, ignore_errors=True)


def run(ctx):
    cfgs = gen_configs(ctx)
    jobs = []
    for i, cfg in enumerate(cfgs):
        if cfg.get("only"):
            for mode in ("loader", "runner", "cli"):
                jobs.append(({"cfg": cfg, "mode": mode, "names": cfg["only"]}, cfg, mode, cfg["only"]))
            continue
        names = list(cfg["servers"])
        rng = ctx.sub_rng("pick", i)
        one = [rng.choice(names)]
        jobs.append(({"cfg": cfg, "mode": "loader", "names": names}, cfg, "loader", names))
        jobs.append(({"cfg": cfg, "mode": "cli", "names": one}, cfg, "cli", one))
        jobs.append(({"cfg": cfg, "mode": "runner", "names": names}, cfg, "runner", names))
        if len(names) > 1:
            jobs.append(({"cfg": cfg, "mode": "runner", "names": one}, cfg, "runner", one))
        if i % 3 == 0:
            ghost = ["no-such-server"]
            jobs.append(({"cfg": cfg, "mode": "loader", "names": ghost}, cfg, "loader", ghost))
            jobs.append(({"cfg": cfg, "mode": "cli", "names": ghost}, cfg, "cli", ghost))
            jobs.append(({"cfg": cfg, "mode": "runner", "names": ghost + one}, cfg, "runner", ghost + one))
        if i % 3 == 2 or len(names) >= 3:
            # names that are not configured but re-spell a configured one: unknown all the same
            respelled = [n for n in {one[0].upper(), one[0].lower(), one[0].swapcase(), one[0] + " ", " " + one[0], one[0].title()}
                         if n not in names][:3]
            for g in respelled:
                jobs.append(({"cfg": cfg, "mode": "loader", "names": [g]}, cfg, "loader", [g]))
            if respelled:
                jobs.append(({"cfg": cfg, "mode": "cli", "names": respelled[:1]}, cfg, "cli", respelled[:1]))
                jobs.append(({"cfg": cfg, "mode": "runner", "names": one + respelled[:1]}, cfg, "runner", one + respelled[:1]))
        if i % 3 == 1:
            # an unknown name after / between / around known ones: every position of the failing entry in the list
            ghost = ["no-such-server"]
            jobs.append(({"cfg": cfg, "mode": "runner", "names": one + ghost}, cfg, "runner", one + ghost))
            jobs.append(({"cfg": cfg, "mode": "loader", "names": one + ghost + one[:0]}, cfg, "loader", one + ghost))
            if len(names) > 1:
                mixed = names[:1] + ghost + names[1:] + ["also-missing"]
                jobs.append(({"cfg": cfg, "mode": "runner", "names": mixed}, cfg, "runner", mixed))
    with cf.ThreadPoolExecutor(min(12, os.cpu_count() or 4)) as ex:
        futs = {}
        for case, cfg, mode, names in jobs:
            if ctx.out_of_time("spawning"):
                break
            futs[ex.submit(one_case, cfg, mode, names)] = case
        for f in cf.as_completed(futs):
            try:
                o = f.result()
                case = futs[f]
                if suspicious_of_load(case, o):
                    # a handshake that did not complete / an entry point that gave up can be the machine, not the library
                    # (every step here has a wall-clock timeout of a few seconds and the children are real interpreters):
                    # a genuine defect fails again, so the case is run once more, alone, and that run is judged
                    ctx.count("cases_rerun_after_incomplete_handshake")
                    o = one_case(case["cfg"], case["mode"], case["names"])
                judge(ctx, case, o)
            except Exception as e:  # noqa
                ctx.inconclusive_because(f"harness error judging {futs[f]['mode']}: {e!r}")
        rfuts = {ex.submit(rewrite_case, cfg): {"cfg": cfg, "mode": "loader_rewrite"} for cfg in cfgs[:6 if ctx.tier == "quick" else 40]}
        for f in cf.as_completed(rfuts):
            try:
                judge_rewrite(ctx, rfuts[f], f.result())
            except Exception as e:  # noqa
                ctx.inconclusive_because(f"harness error judging loader_rewrite: {e!r}")
        efuts = {ex.submit(run_error_case, ec): ec for ec in error_cases(ctx)}
        for f in cf.as_completed(efuts):
            ec = efuts[f]
            o = f.result()
            res = (o.get("result") or {}).get("result") or {}
            ctx.count("error_cases")
            ok = res.get("error") == ec["expect"] or (ec["expect"] in (res.get("mro") or [])) \
                or (ec["expect"] == "JSONDecodeError" and res.get("is_jsondecode"))
            if not ok:
                ctx.violation("config_error_type", f"{ec['kind']}: load_config raised {res.get('error')!r} "
                              f"({res.get('msg')!r}), documented {ec['expect']}", {"error_case": ec})
            ctx.record({"error_case": ec}, shape=res.get("error"), cls="config_error")
    ctx.require_reached("witness_launches")
    ctx.require_reached("entry_point_runs")


def replay(ctx, case):
    if "error_case" in case:
        o = run_error_case(case["error_case"])
        res = (o.get("result") or {}).get("result") or {}
        ctx.record(case, shape=res.get("error"))
        if res.get("error") != case["error_case"]["expect"] and case["error_case"]["expect"] not in (res.get("mro") or []):
            ctx.violation("config_error_type", f"raised {res.get('error')!r}", case)
    elif case.get("mode") == "loader_rewrite":
        judge_rewrite(ctx, case, rewrite_case(case["cfg"]))
    else:
        judge(ctx, case, one_case(case["cfg"], case["mode"], case["names"]))
    ctx.record({"x": 1}, shape=1)
