"""C07 - an error response always surfaces as a classified exception carrying its code."""
from __future__ import annotations

import asyncio
from typing import Any, Dict, List

import anyio

from vf.props.c01 import discover_helpers, synth_args, HELPER_RESULTS
from vf.vloop import run_virtual, HangDetected

ID = "C07"
LEVEL = "exploration"
BACKENDS = ["pydantic", "fallback"]   # every case is executed under both validation backends
LOGLEVELS = ["default", "debug"]   # every case also runs with the root logger at DEBUG (as --verbose does)
SHARDS = {"quick": 4, "thorough": 16}
BUDGET_S = {"quick": 90.0, "thorough": 600.0}
TECHNIQUE = ("runtime monitoring: exception class/.code/str() observed at the client API for every integer "
             "code in the ranges, against a pinned permanent-code set; set-consistency invariants on the live module")
LEVEL_TEXT = ("Every integer code in -33100..-31900 and -200..200 (exhaustive) plus seeded 64-bit codes is delivered "
              "as a matching error response in several shapes and message representations to the real send_message; "
              "the raised class, .code and text are compared with the documented permanent set pinned by value. "
              "Every discovered typed helper is driven with 30 codes; bool wrappers must return False."
              " Server message texts rotate over %-formats, braces, newlines, 'cancel scope', 2 kB text; the classified exception must also leave the library's own `async with` blocks."
              ' Every case also runs under the dependency-free validation backend.'
              ' Also one server text under a sequence of codes whose built-in hashes collide (-1/-2, n and n +- (2**61-1)), in one process.'
              ' Also a write stream that is not ready when the request is handed over (a rendezvous completed late, a full buffer), and code histories whose texts collide in a memo key.'
              ' Also error data nested 300 and 600 levels.'
              ' Also plans of ten requests one after the other on one connection, answers of every class (and -32000) in between.'
              ' Also error responses whose message is the empty string.')
LEVEL_NOTE = ("Trusted: the pinned set {-32700,-32600,-32601,-32602,-32003,-32005,-32006,-32007,-32008,-32000} "
              "copied from the documentation in errors.py; codes outside the explored ranges are sampled only.")
RULE = ("case = (code, error shape, message representation) or (helper, code). Non-trivial: every case delivers an "
        "error response; distinct = hash(case)+hash(exception class). exhaustive refers to the two integer ranges.")
ASSUMPTIONS = ["error objects are those the library itself can represent (typed JSONRPCError, legacy unified "
               "JSONRPCMessage built by constructor or model_validate)"]

PERMANENT = {-32700, -32600, -32601, -32602, -32003, -32005, -32006, -32007, -32008, -32000}

# server texts that are dangerous to format / log / parse carelessly
MESSAGES = ["server says {c}", "disk is 100% full ({c})", "%s %d %(name)s {c}", "{{braces}} {{0}} {c}", "file:///My%20Documents/x {c}",
            "line1\nline2 {c}", "cancel scope protocol version {c}", "\u2028\U0001f600 {c}", "{c} " + "long " * 400, "'quoted\" {c}"]
# ("__deepN__": a value nested N levels, built when the case is run - inside what both validation backends represent)
DATA_SHAPES = ["absent", None, 0, 1.5, "s", [], [1], {}, {"k": None}, True, "__deep300__", "__deep600__"]


def _expand_data(d):
    if isinstance(d, str) and d.startswith("__deep") and d.endswith("__"):
        v: Any = {"leaf": None}
        for i in range(int(d[6:-2])):
            v = [v] if i % 2 else {"d": v}
        return v
    return d


def _mk(rep: str, rid: str, err: Dict[str, Any]):
    from chuk_mcp.protocol.messages import json_rpc_message as J
    if rep == "typed":
        return J.JSONRPCError(jsonrpc="2.0", id=rid, error=err)
    if rep == "legacy_validate":
        return J.JSONRPCMessage.model_validate({"jsonrpc": "2.0", "id": rid, "error": err})
    if rep == "legacy_ctor":
        return J.JSONRPCMessage(jsonrpc="2.0", id=rid, error=err)
    if rep == "parse":
        return J.parse_message({"jsonrpc": "2.0", "id": rid, "error": err})
    raise KeyError(rep)


def codes_for(ctx) -> List[int]:
    cs = list(range(-33100, -31899)) + list(range(-200, 201))
    rng = ctx.sub_rng("codes")
    n = 2000 if ctx.tier == "quick" else 20000
    for _ in range(n):
        cs.append(rng.randint(-2**63, 2**63 - 1))
    cs += [2**31 - 1, -2**31, 2**53 + 1, 2**63 - 1, -2**63, 2**64 - 1]
    return cs


def run(ctx):
    from chuk_mcp.protocol.types import errors as E
    from chuk_mcp.protocol.messages.send_message import send_message

    # ---- live-module set invariants ---------------------------------------
    if ctx.shard[0] == 0:
        named = {k: v for k, v in vars(E).items()
                 if k.isupper() and isinstance(v, int) and not isinstance(v, bool)
                 and not k.endswith(("_START", "_END"))}
        ctx.extra["named_codes"] = named
        if E.NON_RETRYABLE_ERRORS & E.RETRYABLE_ERRORS:
            ctx.violation("sets_overlap", f"codes in both sets: {E.NON_RETRYABLE_ERRORS & E.RETRYABLE_ERRORS}", {})
        for k, v in named.items():
            inn, inr = v in E.NON_RETRYABLE_ERRORS, v in E.RETRYABLE_ERRORS
            ctx.record({"named": k, "code": v}, shape=(inn, inr), cls="named")
            if inn == inr:
                ctx.violation("named_code_unclassified", f"{k}={v} is in {'both' if inn else 'neither'} set", {"named": k})
        if set(E.NON_RETRYABLE_ERRORS) != PERMANENT:
            ctx.violation("permanent_set_changed", f"NON_RETRYABLE_ERRORS={sorted(E.NON_RETRYABLE_ERRORS)} differs "
                          f"from the documented set {sorted(PERMANENT)}", {})
        for c in E.RETRYABLE_ERRORS:
            if not E.is_retryable_error(c):
                ctx.violation("retryable_member_not_retryable", f"{c} in RETRYABLE_ERRORS but classified permanent", {"code": c})

    codes = codes_for(ctx)
    cases = []
    reps = ["typed", "legacy_validate", "legacy_ctor", "parse"]
    for i, c in enumerate(codes):
        in_range = i < 1201 + 401
        # all representations for the exhaustive ranges with the plain shape;
        # shapes rotate so that every (shape, rep) pair is hit many times
        for j, rep in enumerate(reps):
            shape = {"msg": "present", "data": DATA_SHAPES[(i + j) % len(DATA_SHAPES)]}
            if rep == "legacy_ctor" and (i % 3 == 0):
                shape["msg"] = "absent"
            elif (i + j) % 5 == 2:
                shape["msg"] = "empty"       # the server's message is the empty string: a message all the same
            if not in_range and j != i % 4:
                continue
            cases.append({"code": c, "rep": rep, **shape})
            if (i + j) % 7 == 0:
                cases.append({"code": c, "rep": rep, **shape, "write": ("rendezvous_late", "full")[(i // 7) % 2]})

    mine = [c for c in cases if ctx.mine()]

    async def batch(cs):
        outs = []
        for case in cs:
            c = case["code"]
            err: Dict[str, Any] = {"code": c}
            if case["msg"] == "present":
                err["message"] = MESSAGES[c % len(MESSAGES)].replace("{c}", str(c))
            elif case["msg"] == "empty":
                err["message"] = ""
            if case["data"] != "absent":
                err["data"] = _expand_data(case["data"])
            # direct classifier call
            try:
                direct = E.is_retryable_error(c)
            except Exception as e:  # noqa
                direct = e
            try:
                msg = _mk(case["rep"], "e1", err)
            except Exception as e:  # noqa
                outs.append((case, "unbuildable", e, direct))
                continue
            rs, rr = anyio.create_memory_object_stream(4)
            # the write stream cannot always take the request at once: an unbuffered stream whose peer comes to read a
            # moment later, a buffered one that is full until the peer drains it
            wmode = case.get("write", "ready")
            ws, wr = anyio.create_memory_object_stream(0 if wmode == "rendezvous_late" else (1 if wmode == "full" else 4))
            drainer = None
            if wmode == "full":
                ws.send_nowait("(an earlier message still queued)")
            if wmode != "ready":
                async def _drain(wr=wr):
                    await asyncio.sleep(0.05)
                    try:
                        while True:
                            await wr.receive()
                    except Exception:  # noqa
                        pass
                drainer = asyncio.create_task(_drain())
            rs.send_nowait(msg)
            try:
                res = await send_message(rr, ws, "tools/list", None, timeout=1.0, message_id="e1")
                outs.append((case, "return", res, direct))
            except BaseException as e:  # noqa
                if isinstance(e, (KeyboardInterrupt, SystemExit)):
                    raise
                outs.append((case, "raise", e, direct))
            if drainer is not None:
                drainer.cancel()
            for s in (rs, rr, ws, wr):
                s.close()
        return outs

    B = 500
    for k in range(0, len(mine), B):
        if ctx.out_of_time("error-code sweep"):
            ctx.exhaustive = False
            break
        try:
            outs, _ = run_virtual(batch, mine[k:k + B])
        except HangDetected as e:
            ctx.violation("hang", str(e), mine[k])
            continue
        for case, kind, val, direct in outs:
            c = case["code"]
            want_perm = c in PERMANENT
            if direct is not (not want_perm):
                ctx.violation("classifier_wrong", f"is_retryable_error({c}) -> {direct!r}, expected {not want_perm}", case)
            if kind == "unbuildable":
                ctx.count("unbuildable")
                continue
            ctx.count("error_responses_delivered")
            if kind == "return":
                ctx.violation("error_completed_normally", f"error response code {c} returned {val!r}", case)
                shape = "return"
            else:
                tname = type(val).__name__
                want = "NonRetryableError" if want_perm else "RetryableError"
                shape = tname
                if type(val) is not (E.NonRetryableError if want_perm else E.RetryableError):
                    ctx.violation("wrong_exception_class", f"code {c}: raised {tname} ({val!r}), expected exactly {want}", case)
                else:
                    if not (type(val.code) is int and val.code == c):
                        ctx.violation("code_not_carried", f"code {c}: exception carries code {val.code!r}", case)
                    text = str(val)
                    if case["msg"] == "present" and MESSAGES[c % len(MESSAGES)].replace("{c}", str(c)) not in text:
                        ctx.violation("message_not_carried", f"code {c}: text {text!r} lacks server message", case)
                    if case["msg"] == "empty" and E.get_error_message(c) and E.get_error_message(c) in text:
                        ctx.violation("message_not_carried", f"code {c}: the server's message was the empty string; the exception "
                                      f"text {text!r} carries the library's own wording instead", case)
                    if case["msg"] == "absent" and E.get_error_message(c) not in text:
                        ctx.violation("message_not_carried", f"code {c}: text {text!r} lacks default message", case)
            ctx.record(case, shape=shape, cls=f"{case['rep']}:{'perm' if want_perm else 'retry'}")
    if ctx.exhaustive is None:
        ctx.exhaustive = True

    # ---- many requests one after the other on ONE connection ---------------------------------------------------
    # (what a request ends with is decided by the answer to that request: not by what earlier requests on the same
    # streams were answered with - -32000 is "connection closed" in one vocabulary and an ordinary server-defined code
    # in the other, and the library's own HTTP/SSE transports use it for a single request's timeout)
    if ctx.shard[0] == 0:
        plans = [[-32000, -32603, -32000, 5, -32601, "ok", -32000, -32002, -32700, "ok"],
                 [-32603, -32603, "ok", -32001, "ok", -32600, -32000, "ok", 7, -32602],
                 ["ok", -32000, -32000, -32000, -32603, 0, "ok", -1, -32099, -32000]]

        async def same_connection(plan):
            rs, rr = anyio.create_memory_object_stream(4)
            ws, wr = anyio.create_memory_object_stream(4)
            outs = []

            async def server():
                k = 0
                async for req in wr:
                    rid = getattr(req, "id", None)
                    if rid is None:
                        continue
                    step = plan[k]
                    k += 1
                    wire = ({"jsonrpc": "2.0", "id": rid, "result": {"n": k}} if step == "ok" else
                            {"jsonrpc": "2.0", "id": rid, "error": {"code": step, "message": f"said {step} at {k}"}})
                    from chuk_mcp.protocol.messages.json_rpc_message import parse_message
                    rs.send_nowait(parse_message(wire))
            st = asyncio.create_task(server(), name="vf-server")
            for k, step in enumerate(plan):
                try:
                    outs.append((k, step, "return", await send_message(rr, ws, "tools/list", None, timeout=1.0)))
                except BaseException as e:  # noqa
                    if isinstance(e, (KeyboardInterrupt, SystemExit)):
                        raise
                    outs.append((k, step, "raise", e))
            st.cancel()
            for s_ in (rs, rr, ws, wr):
                s_.close()
            return outs
        for plan in plans:
            case = {"same_connection": plan}
            try:
                outs, _ = run_virtual(same_connection, plan)
            except HangDetected as e:
                ctx.violation("hang", str(e), case)
                continue
            for k, step, kind, val in outs:
                ctx.count("error_responses_delivered")
                ctx.count("same_connection_requests")
                if step == "ok":
                    if kind != "return" or not (isinstance(val, dict) and val.get("n") == k + 1):
                        ctx.violation("result_not_returned", f"request {k + 1} of {plan} on one connection was answered with a result; "
                                      f"the call gave {kind} {val!r}", case)
                    continue
                want_perm = step in PERMANENT
                if kind == "return":
                    ctx.violation("error_completed_normally", f"request {k + 1} of {plan}: error {step} returned {val!r}", case)
                elif type(val) is not (E.NonRetryableError if want_perm else E.RetryableError):
                    ctx.violation("wrong_exception_class", f"request {k + 1} of {plan} on one connection, answered {step}: raised "
                                  f"{type(val).__name__} ({val!r}), expected {'NonRetryableError' if want_perm else 'RetryableError'}", case)
                elif not (type(val.code) is int and val.code == step) or f"said {step} at {k + 1}" not in str(val):
                    ctx.violation("code_not_carried", f"request {k + 1} of {plan} on one connection, answered {step} "
                                  f"('said {step} at {k + 1}'): exception carries code {val.code!r}, text {str(val)!r}", case)
            ctx.record(case, shape=[type(v).__name__ for _, _, _, v in outs], nontrivial=True, cls="same_connection")

    # ---- the same server text under many codes, one after the other in ONE process --------------------------
    # (whatever is remembered between error responses must be remembered under the whole (code, text) pair: the
    # sequence walks through codes whose built-in hashes coincide, -1/-2 and n / n +- (2**61 - 1))
    if ctx.shard[0] == 0:
        M = 2**61 - 1
        seq = [-2, -1, -2, -32601, -32601 - M, -32601 + M, 5, 5 + M, 5 - M, -32603, -32603 - M, 0, M, -M, 1, 1 + M,
               -32602, -32602 + M, -1, -2] + sorted(PERMANENT) + [c - M for c in sorted(PERMANENT)]
        hist_cases = [{"code": c, "rep": reps[k % len(reps)], "msg": "fixed", "data": "absent", "history_position": k}
                      for text_k in range(2) for k, c in enumerate(seq)]

        async def hist_batch(cs):
            outs = []
            for k, case in enumerate(cs):
                c = case["code"]
                text = "Request refused" if k < len(seq) else "quota exceeded \u20ac"
                try:
                    msg = _mk(case["rep"], "e1", {"code": c, "message": text})
                except Exception as e:  # noqa
                    outs.append((case, text, "unbuildable", e))
                    continue
                rs, rr = anyio.create_memory_object_stream(4)
                ws, wr = anyio.create_memory_object_stream(4)
                rs.send_nowait(msg)
                try:
                    outs.append((case, text, "return", await send_message(rr, ws, "tools/list", None, timeout=1.0, message_id="e1")))
                except BaseException as e:  # noqa
                    if isinstance(e, (KeyboardInterrupt, SystemExit)):
                        raise
                    outs.append((case, text, "raise", e))
                for s_ in (rs, rr, ws, wr):
                    s_.close()
            return outs
        try:
            outs, _ = run_virtual(hist_batch, hist_cases)
        except HangDetected as e:
            ctx.violation("hang", str(e), {"history": True})
            outs = []
        for case, text, kind, val in outs:
            c = case["code"]
            if kind == "unbuildable":
                continue
            ctx.count("error_responses_delivered")
            ctx.count("same_text_history_errors")
            want_perm = c in PERMANENT
            if kind == "return":
                ctx.violation("error_completed_normally", f"error response code {c} returned {val!r}", case)
            elif type(val) is not (E.NonRetryableError if want_perm else E.RetryableError):
                ctx.violation("wrong_exception_class", f"code {c} (same text as the errors before it): raised {type(val).__name__} "
                              f"({val!r}), expected {'NonRetryableError' if want_perm else 'RetryableError'}", case)
            elif not (type(val.code) is int and val.code == c) or text not in str(val) or (str(c) not in str(val)):
                ctx.violation("code_not_carried", f"code {c} (same text as the errors before it): exception carries code "
                              f"{val.code!r}, text {str(val)!r}", case)
            ctx.record(case, shape=type(val).__name__, nontrivial=True, cls="same_text_history")

    # ---- typed helpers x codes --------------------------------------------
    helpers = discover_helpers()
    hcodes = sorted(PERMANENT) + [-32603, -32001, -32002, -32004, -32099, -32100, -1, 0, 1, 404, 2**63 - 1,
                                  -32604, -32599, -31999, -32009, 100, -100, 32000, -32768, -32800]
    if ctx.tier == "thorough":
        hcodes = sorted(set(hcodes + list(range(-32110, -31990)) + list(range(-20, 21)) + [2**31, -2**31, 2**63, -2**63]))
    hcases = []
    for hname in sorted(helpers):
        short = hname.rsplit(".", 1)[-1]
        if short.startswith("send_initialize"):
            continue
        for c in hcodes:
            hcases.append({"helper": hname, "code": c})
        hcases.append({"helper": hname, "code": None})  # success
    hmine = [c for c in hcases if ctx.mine()]

    async def hbatch(cs):
        from chuk_mcp.protocol.messages.json_rpc_message import parse_message
        outs = []
        for case in cs:
            fn = helpers[case["helper"]]
            kwargs = synth_args(fn)
            rs, rr = anyio.create_memory_object_stream(4)
            ws, wr = anyio.create_memory_object_stream(4)

            async def server():
                req = await wr.receive()
                if case["code"] is None:
                    res = HELPER_RESULTS.get(req.method)
                    rs.send_nowait(parse_message({"jsonrpc": "2.0", "id": req.id, "result": res if res is not None else {}}))
                else:
                    rs.send_nowait(parse_message({"jsonrpc": "2.0", "id": req.id,
                                                  "error": {"code": case["code"], "message": MESSAGES[case["code"] % len(MESSAGES)].replace("{c}", str(case["code"]))}}))
            st = asyncio.create_task(server())
            try:
                res = await fn(rr, ws, **kwargs)
                outs.append((case, "return", res))
            except BaseException as e:  # noqa
                if isinstance(e, (KeyboardInterrupt, SystemExit)):
                    raise
                outs.append((case, "raise", e))
            st.cancel()
            for s in (rs, rr, ws, wr):
                s.close()
        return outs

    try:
        outs, _ = run_virtual(hbatch, hmine)
    except HangDetected as e:
        ctx.violation("hang", str(e), {"helpers": True})
        outs = []
    for case, kind, val in outs:
        short = case["helper"].rsplit(".", 1)[-1]
        is_bool = short in ("send_ping", "send_resources_subscribe", "send_resources_unsubscribe")
        c = case["code"]
        ctx.count("helper_calls")
        if c is None:
            if is_bool and not (kind == "return" and val is True):
                ctx.violation("bool_helper_success", f"{short}: success gave {kind} {val!r}", case)
            ctx.record(case, shape=kind, cls="helper_success")
            continue
        if is_bool:
            if not (kind == "return" and val is False):
                ctx.violation("bool_helper_error", f"{short}: error {c} gave {kind} {val!r}, expected False", case)
        else:
            want_perm = c in PERMANENT
            if kind != "raise":
                ctx.violation("error_completed_normally", f"{short}: error {c} returned {val!r}", case)
            elif type(val) is not (E.NonRetryableError if want_perm else E.RetryableError):
                ctx.violation("wrong_exception_class", f"{short}: code {c} raised {type(val).__name__}: {val!r}", case)
            elif val.code != c or MESSAGES[c % len(MESSAGES)].replace("{c}", str(c)) not in str(val):
                ctx.violation("code_not_carried", f"{short}: code {c} raised {val!r} code={val.code!r}", case)
        ctx.record(case, shape=(kind, type(val).__name__), cls="helper")
    ctx.extra["helpers_discovered"] = sorted(h.rsplit(".", 1)[-1] for h in helpers)
    # ---- through the stdio context managers: the exception raised inside the `async with` body must also leave it ----
    if ctx.shard[0] == 0:
        wrapper_tier(ctx)
    ctx.require_reached("error_responses_delivered")


def wrapper_tier(ctx):
    """send_message inside `async with stdio_client(...)` / stdio_client_with_initialize(...) / StdioTransport: the
    classified exception must propagate out of the block (not be absorbed by the context manager's own error
    filtering), for every message text."""
    import importlib
    import json
    from chuk_mcp.protocol.types import errors as E
    from chuk_mcp.protocol.messages.send_message import send_message
    from chuk_mcp.transports.stdio.parameters import StdioParameters
    from vf.recorders import OpenProcessPatch, ScriptedProcess
    SC = importlib.import_module("chuk_mcp.transports.stdio.stdio_client")

    for wrapper in ("stdio_client", "stdio_client_with_initialize", "stdio_transport"):
        for k, tmpl in enumerate(MESSAGES):
            for code in (-32603, -32601, 429 + k):
                text = tmpl.replace("{c}", str(code))
                case = {"wrapper": wrapper, "code": code, "message": text[:80]}

                def factory(command, _text=text, _code=code, **kw):
                    p = ScriptedProcess([], hold_open=True)
                    orig = p.stdin.send

                    async def send(data):
                        await orig(data)
                        for line in data.split(b"\n"):
                            try:
                                req = json.loads(line)
                            except Exception:
                                continue
                            if not isinstance(req, dict) or "id" not in req:
                                continue
                            if req.get("method") == "initialize":
                                p.feed((json.dumps({"jsonrpc": "2.0", "id": req["id"], "result": {
                                    "protocolVersion": "2025-06-18", "capabilities": {}, "serverInfo": {"name": "s", "version": "1"}}}) + "\n").encode())
                            else:
                                p.feed((json.dumps({"jsonrpc": "2.0", "id": req["id"], "error": {"code": _code, "message": _text}},
                                                   ensure_ascii=False) + "\n").encode())
                    p.stdin.send = send
                    return p

                async def main():
                    params = StdioParameters(command="scripted")
                    reached_after = False
                    inner = None
                    try:
                        with OpenProcessPatch(factory):
                            if wrapper == "stdio_client":
                                cm = SC.stdio_client(params)
                            elif wrapper == "stdio_client_with_initialize":
                                cm = SC.stdio_client_with_initialize(params, timeout=5.0)
                            else:
                                from chuk_mcp.transports.stdio.transport import StdioTransport
                                cm = StdioTransport(params)
                            async with cm as got:
                                r, w = (await got.get_streams()) if wrapper == "stdio_transport" else got[:2]
                                try:
                                    await send_message(r, w, "tools/list", None, timeout=2.0)
                                except BaseException as e:  # noqa
                                    inner = e
                                    raise
                            reached_after = True
                    except BaseException as e:  # noqa
                        if isinstance(e, (KeyboardInterrupt, SystemExit)):
                            raise
                        return inner, e, reached_after
                    return inner, None, reached_after

                try:
                    (inner, outer, after), _ = run_virtual(main, max_iterations=300_000)
                except HangDetected as e:
                    ctx.violation("hang", f"{wrapper}: {e}", case)
                    continue
                ctx.count("wrapper_error_responses")
                want = E.NonRetryableError if code in PERMANENT else E.RetryableError
                if type(inner) is not want:
                    ctx.violation("wrong_exception_class", f"inside {wrapper}: send_message raised {inner!r}", case)
                elif after or outer is None:
                    ctx.violation("error_swallowed_by_context_manager", f"{wrapper}: the {type(inner).__name__} raised inside the "
                                  f"`async with` body (server message {text[:50]!r}) did not leave the block: execution "
                                  f"continued after it", case)
                elif outer is not inner and not (isinstance(outer, BaseExceptionGroup) and inner in outer.exceptions):
                    ctx.violation("error_replaced_by_context_manager", f"{wrapper}: body raised {inner!r}, the block raised {outer!r}", case)
                ctx.record(case, shape=[type(inner).__name__, type(outer).__name__, after], cls="wrapper:" + wrapper)


def replay(ctx, case):
    # single-case replays reuse run() machinery on a one-element list
    from chuk_mcp.protocol.types import errors as E
    ctx.notes.append("replay: re-running full quick sweep restricted to the recorded code")
    code = case.get("code")
    if code is None:
        return run(ctx)
    orig = globals()["codes_for"]
    globals()["codes_for"] = lambda c: [code]
    try:
        run(ctx)
    finally:
        globals()["codes_for"] = orig
