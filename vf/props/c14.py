"""C14 - deadlines, cancellation and progress behave the same under any traffic.

Events: outcome type and virtual completion time; write-stream trace; recorded
callback invocations with arguments and times.
Oracle: reference timeline model with the allowed-outcome *set* per schedule.
"""
from __future__ import annotations

import asyncio
from typing import Any, Dict, List, Optional

from vf.recorders import Pipe
from vf.ref import strict_eq
from vf.vloop import run_virtual, vsleep_until, HangDetected

ID = "C14"
LEVEL = "exploration"
BACKENDS = ["pydantic", "fallback"]   # every case is executed under both validation backends
LOGLEVELS = ["default", "debug"]   # every case also runs with the root logger at DEBUG (as --verbose does)
SHARDS = {"quick": 8, "thorough": 16}
BUDGET_S = {"quick": 90.0, "thorough": 600.0}
TECHNIQUE = ("runtime monitoring: virtual-time schedule exploration with a timeline reference model "
             "(allowed-outcome sets) over recorded outcome, write-stream and callback events")
LEVEL_TEXT = ("Placements of cancel / matching response / deadline on a virtual time line (10 ms grid around "
              "every 0.5 s poll boundary and the deadline) x background traffic (none, bursts, flood every "
              "10 ms) x progress streams x raising callbacks are executed against the real send_message; "
              "completion time, cancelled notifications and callback invocations are compared with a "
              "timeline model. Held = on the schedules explored."
              " Also params objects with a history (reused for a second request, own _meta, own progressToken)."
              ' Also one token governing several in-flight and later requests.'
              ' Also unprintable and argument-less callback exceptions, falsy progress values.'
              ' Also a writer stalled past the deadline while the cancelled notification is due, and several concurrent requests given one params dict.'
              ' Also a writer stalled past the deadline at cancellation time and several concurrent requests given one params dict. Every case also runs under the dependency-free validation backend.'
              ' Also a token triggered before the call with a stalled writer.'
              ' Also deadlines of 9, 11, 30, 60 and 300 s with a cancellation in a quiet spell.'
              ' Also responses, progress notifications and the cancellation delivered from timer callbacks exactly on poll boundaries, with both orders of the tied timers.'
              ' Also callbacks failing with each common exception class (TypeError - also a genuine one -, ValueError, KeyError, AttributeError, TimeoutError, OSError, RecursionError ...).')
LEVEL_NOTE = ("Trusted: virtual-time loop; the oracle accepts either neighbour inside ambiguous windows "
              "(simultaneous events, response within one poll interval after cancel).")
RULE = ("schedule = (timeout, cancel time|none|pre, response time|none, traffic pattern, progress stream, "
        "raising position). Non-trivial = at least one of cancel/response/progress/traffic present; "
        "distinct = hash(schedule)+hash(outcome type, completion time, #cancelled notifications, callback log).")
ASSUMPTIONS = [
    "poll interval is the documented 0.5 s; cancellation must be honoured within 0.5 s + 1 ms",
    "events at the same virtual instant are unordered: either neighbouring outcome is accepted",
    "a pre-cancelled token may emit 0 or 1 cancelled notification (the statement only forbids sending the request)",
]
T = 2.0
POLL = 0.5
EPS = 0.001


def grid(fine: bool) -> List[float]:
    g = set()
    for b in (0.5, 1.0, 1.5, T):
        offs = (-0.06, -0.05, -0.04, -0.03, -0.02, -0.01, 0.0, 0.01, 0.02, 0.03, 0.04, 0.05, 0.06) if fine \
            else (-0.05, -0.01, 0.0, 0.01, 0.05)
        for o in offs:
            g.add(round(b + o, 3))
    g.update([0.0, 0.2, 0.75, 1.25, 1.75, T + 0.3])
    return sorted(g)


def gen_cases(ctx):
    fine = ctx.tier == "thorough"
    g = grid(fine)
    rng = ctx.sub_rng("c14")
    traffics = ["none", "burst", "flood"]
    # 1. cancel x response x traffic
    tcs: List[Any] = [None, "pre"] + g
    trs: List[Any] = [None] + g
    for tc in tcs:
        for tr in trs:
            for tf in traffics:
                if not fine and tf == "flood" and rng.random() < 0.6:
                    continue
                yield {"tc": tc, "tr": tr, "traffic": tf, "progress": [], "raise_at": None}
                if tf == "none" and isinstance(tr, float) and abs(tr * 2 - round(tr * 2)) < 1e-9 and tc is None:
                    for tie in (1, 2, 3):
                        yield {"tc": tc, "tr": tr, "traffic": tf, "progress": [], "raise_at": None, "tie": tie}
                        yield {"tc": tc, "tr": tr, "traffic": tf, "progress": [], "raise_at": None, "tie": tie, "inject": "timer"}
                        # ... and a progress notification on a boundary, the response a little later
                        if tr + 0.2 < T:
                            yield {"tc": None, "tr": round(tr + 0.2, 3), "traffic": "none", "progress": [[tr, "right", 0]],
                                   "raise_at": None, "cb": True, "tie": tie, "inject": "timer"}
    # 1b. deadlines off the poll grid
    for Tx in (0.7, 1.3):
        gx = sorted({0.0, 0.2, 0.45, 0.5, 0.55, Tx - 0.1, Tx - 0.01, Tx, Tx + 0.01, Tx + 0.1, round((Tx + (int(Tx / 0.5) + 1) * 0.5) / 2, 3),
                     (int(Tx / 0.5) + 1) * 0.5})
        for tc in [None, "pre"] + gx:
            for tr in [None] + gx:
                for tf in ("none", "flood"):
                    yield {"tc": tc, "tr": tr, "traffic": tf, "progress": [], "raise_at": None, "T": Tx}
    # 1c. long deadlines (the default 60 s, a long-poll 300 s, the ten-second neighbourhood): a token fired in a quiet
    #     spell is noticed within one polling interval, whatever the deadline is
    for Tx in (9.0, 11.0, 30.0, 60.0, 300.0):
        for tc in (0.3, 0.75, 1.0, 4.9, round(Tx / 2, 2), round(Tx - 0.7, 2)):
            for tr in (None, round(tc + 0.2, 3), round(tc + 2.0, 3)):
                for tf in ("none", "burst"):
                    if tr is not None and tr >= Tx:
                        continue
                    yield {"tc": tc, "tr": tr, "traffic": tf, "progress": [], "raise_at": None, "T": Tx}
    # 2. progress streams
    prog_kinds = ["right", "foreign", "right_missing", "right_total_msg", "foreign_int", "right_null_params", "right_zero"]
    for tr in (None, 0.3, 0.8, 1.0, T - 0.01):
        for tc in (None, 0.6, 1.0):
            for pattern in range(12 if not fine else 60):
                L = rng.randint(1, 6)
                ts = sorted(round(rng.choice([rng.uniform(0, T), rng.choice(g)]), 3) for _ in range(L))
                prog = [[t, rng.choice(prog_kinds), i] for i, t in enumerate(ts)]
                n_right = sum(1 for p in prog if p[1].startswith("right"))
                for raise_at in ([None] + ([rng.randint(1, n_right)] if n_right else [])):
                    yield {"tc": tc, "tr": tr, "traffic": rng.choice(traffics), "progress": prog,
                           "raise_at": raise_at, "cb": True}
    # 3. progress with every raising position on a fixed 4-progress stream
    for raise_at in (None, 1, 2, 3, 4):
        for tf in traffics:
            yield {"tc": None, "tr": 1.2, "traffic": tf, "cb": True, "raise_at": raise_at,
                   "progress": [[0.1, "right", 0], [0.5, "foreign", 1], [0.5, "right", 2],
                                [0.9, "right_total_msg", 3], [1.1, "right_missing", 4], [1.3, "right", 5]]}
    for raise_at in (1, 2):
        for kind in ("unprintable", "base", "class:TypeError", "class:real_type_error", "class:ValueError", "class:KeyError",
                     "class:AttributeError", "class:TimeoutError", "class:LookupError", "class:AssertionError",
                     "class:NotImplementedError", "class:OSError", "class:RecursionError", "class:StopAsyncIteration"):
            yield {"tc": None, "tr": 1.2, "traffic": "none", "cb": True, "raise_at": raise_at, "raise_kind": kind,
                   "progress": [[0.1, "right", 0], [0.5, "right", 2], [0.9, "right_total_msg", 3]]}
    # 3b. the caller's params object has a history: it was used for an earlier request (a retry with the same dict),
    #     already carries a _meta member, or already carries a progressToken of the caller's choosing
    for mode in ("reused", "reused_twice", "own_meta", "own_token", "own_token_int", "none_params"):
        for tf in ("none", traffics[-1]):
            for tr in (1.2, None):
                yield {"tc": None, "tr": tr, "traffic": tf, "cb": True, "raise_at": None, "params_mode": mode,
                       "progress": [[0.1, "right", 0], [0.5, "foreign", 1], [0.5, "right", 2], [0.9, "right_total_msg", 3]]}
    # 4. callback registered but no progress; cancellation with callback
    for tc in (None, "pre", 0.7):
        yield {"tc": tc, "tr": 1.0, "traffic": "none", "progress": [], "raise_at": None, "cb": True}


def _traffic_times(kind: str, T: float = T) -> List[float]:
    if kind == "none":
        return []
    if kind == "burst":
        return [0.05] * 5 + [0.48] * 5 + [1.0] * 5 + [round(T - 0.03, 3)] * 5
    # flood every 10 ms over the whole life of the request (+ a little)
    return [round(0.005 + 0.01 * i, 3) for i in range(int((T + 0.2) / 0.01))]


def exec_case(ctx, case: Dict[str, Any]) -> None:
    from chuk_mcp.protocol.messages.send_message import send_message, CancellationToken, CancelledError
    from chuk_mcp.protocol.messages.json_rpc_message import parse_message

    use_cb = bool(case.get("cb") or case["progress"])
    tc, tr = case["tc"], case["tr"]
    T = case.get("T", 2.0)   # shadows the module default: deadlines that do not fall on a poll boundary

    async def main():
        pipe = Pipe(buffer=100_000)
        loop = asyncio.get_running_loop()
        token = CancellationToken() if tc is not None else None
        cb_log: List[Any] = []
        obs: Dict[str, Any] = {"writes": [], "cb": cb_log}

        async def cb(progress, total, message):
            cb_log.append({"t": loop.time(), "args": (progress, total, message)})
            if case.get("raise_at") is not None and len(cb_log) == case["raise_at"]:
                if case.get("raise_kind") == "unprintable":
                    class Unprintable(Exception):
                        def __str__(self):
                            raise RuntimeError("this exception cannot be rendered")
                        __repr__ = __str__
                    raise Unprintable()
                if case.get("raise_kind") == "base":
                    raise ArithmeticError()   # no arguments
                if str(case.get("raise_kind", "")).startswith("class:"):
                    # whatever class of exception a (correctly declared) callback fails with is the callback's failure
                    import builtins
                    name = case["raise_kind"].split(":", 1)[1]
                    if name == "real_type_error":
                        return progress / total        # total is None for a notification without it: a genuine TypeError
                    exc_cls = getattr(builtins, name, None) or getattr(asyncio, name)
                    raise exc_cls("callback failed") if name != "KeyError" else KeyError("k")
                raise RuntimeError("callback exploded")

        if tc == "pre":
            token.cancel()

        async def server():
            first = await pipe.srv_recv.receive()
            obs["request"] = first
            rid = first.id
            ptoken = None
            if first.params and isinstance(first.params.get("_meta"), dict):
                ptoken = first.params["_meta"].get("progressToken")
            obs["ptoken"] = ptoken
            events = []
            for t in _traffic_times(case["traffic"], T):
                events.append((t, 0, {"jsonrpc": "2.0", "method": "notifications/message",
                                      "params": {"level": "debug", "data": "noise"}}))
            for t, kind, i in case["progress"]:
                tok = ptoken if kind.startswith("right") else ("someone-else" if kind == "foreign" else 12345)
                p: Dict[str, Any] = {"progressToken": tok, "progress": float(i) + 0.5}
                if kind == "right_missing":
                    del p["progress"]
                if kind == "right_zero":
                    p.update(progress=0, total=0, message="")   # falsy but present
                if kind == "right_total_msg":
                    p["total"] = 10.0
                    p["message"] = f"step {i}"
                events.append((t, 1, {"jsonrpc": "2.0", "method": "notifications/progress", "params": p}))
            if tr is not None:
                events.append((tr, 2, {"jsonrpc": "2.0", "id": rid, "result": {"ok": True}}))
            if isinstance(tc, float):
                events.append((tc, 3, "CANCEL"))
            events.sort(key=lambda e: (e[0], e[1]))
            if case.get("inject") == "timer":
                # every event is a timer callback of its own (a transport's reader handing a message over from a loop
                # callback): at an instant where the request's poll slice ends as well, the two timers run in the same pass
                # of the loop, in either order (tie seeds)
                def fire(w):
                    if w == "CANCEL":
                        token.cancel()
                    else:
                        pipe.srv_send.send_nowait(parse_message(w))
                for t, _, w in events:
                    loop.call_at(max(t, loop.time()), fire, w)
                return
            for t, _, w in events:
                await vsleep_until(t)
                if w == "CANCEL":
                    token.cancel()
                else:
                    pipe.srv_send.send_nowait(parse_message(w))

        async def canceller_only():
            # when the request is never written the server never starts; cancel still has to happen
            pass

        async def drain():
            return

        pm = case.get("params_mode")
        params: Any = {"name": "slow"}
        if pm == "own_meta":
            params["_meta"] = {"caller": "keeps this"}
        elif pm == "own_token":
            params["_meta"] = {"progressToken": "chosen-by-caller"}
        elif pm == "own_token_int":
            params["_meta"] = {"progressToken": 7, "x": None}
        elif pm == "none_params":
            params = None
        elif pm in ("reused", "reused_twice"):
            # the same dict object served an earlier, completed request (with progress reporting) on another connection
            for _ in range(2 if pm == "reused_twice" else 1):
                prime = Pipe(buffer=100)

                async def prime_server():
                    r = await prime.srv_recv.receive()
                    prime.srv_send.send_nowait(parse_message({"jsonrpc": "2.0", "id": r.id, "result": {"primed": True}}))
                ps = asyncio.create_task(prime_server(), name="prime-server")

                async def cb0(progress, total, message):
                    pass
                await send_message(prime.read, prime.write, "tools/call", params, timeout=T, progress_callback=cb0)
                await ps
                prime.close()
        st = asyncio.create_task(server(), name="server")
        t0 = loop.time()
        try:
            res = await send_message(pipe.read, pipe.write, "tools/call", params,
                                     timeout=T, cancellation_token=token,
                                     progress_callback=cb if use_cb else None)
            obs["outcome"] = ("return", res)
        except BaseException as e:  # noqa
            if isinstance(e, (KeyboardInterrupt, SystemExit)):
                raise
            obs["outcome"] = ("raise", e)
        obs["t_done"] = loop.time() - t0
        st.cancel()
        try:
            await st
        except BaseException:
            pass
        # collect everything written
        while True:
            try:
                obs["writes"].append(pipe.srv_recv.receive_nowait())
            except Exception:
                break
        obs["trace"] = pipe.trace
        pipe.close()
        return obs

    try:
        obs, loop = run_virtual(main, tie_seed=case.get("tie"), max_iterations=300_000)
    except HangDetected as e:
        ctx.violation("hang_or_no_deadline", f"request never ended: {e}", case)
        ctx.record(case, shape="hang")
        return

    okind, oval = obs["outcome"]
    t_done = obs["t_done"]
    ctx.count("outcomes")
    sends = [e for e in obs["trace"].events if e["op"] == "send"]
    req_writes = [e for e in sends if getattr(e["obj"], "method", None) == "tools/call"]
    cancelled_notes = [e for e in sends if getattr(e["obj"], "method", None) == "notifications/cancelled"]
    other_writes = [e for e in sends if e not in req_writes and e not in cancelled_notes]
    is_cancel = okind == "raise" and type(oval).__name__ == "CancelledError" and isinstance(oval, CancelledError)
    is_timeout = okind == "raise" and isinstance(oval, TimeoutError)
    is_result = okind == "return"

    # ---- deadline -----------------------------------------------------------
    if t_done > T + EPS:
        ctx.violation("deadline_overrun", f"ended at {t_done} > timeout {T}", case, repr(oval))

    # ---- allowed outcome set ------------------------------------------------
    allowed = set()
    if tc == "pre":
        allowed = {"cancel"}
        if req_writes:
            ctx.violation("pre_cancelled_request_sent", "request was written although the token was "
                          "cancelled before sending", case)
        if t_done > EPS:
            ctx.violation("cancel_late", f"pre-cancelled request ended at {t_done}", case)
    else:
        tcf = tc if isinstance(tc, float) else None
        # reference timeline: a response arriving at tr resolves the call at tr; a cancel at tc is
        # noticed at some tn in [tc, tc+POLL]; whatever comes first wins; otherwise the deadline.
        if tr is not None and tr <= T + EPS and (tcf is None or tr <= tcf + POLL + EPS):
            allowed.add("result")
        if tcf is not None and tcf <= T + EPS and (tr is None or tcf <= tr + EPS):
            allowed.add("cancel")
        if (tr is None or tr >= T - EPS) and (tcf is None or tcf + POLL >= T - EPS):
            allowed.add("timeout")
    got = "cancel" if is_cancel else "timeout" if is_timeout else "result" if is_result else "other"
    if got not in allowed:
        mech = {"cancel": "unexpected_cancel", "timeout": "unexpected_timeout",
                "result": "unexpected_result", "other": "unexpected_exception"}[got]
        if "cancel" in allowed and got == "timeout" and len(allowed) == 1:
            mech = "cancellation_ignored"
        if "result" in allowed and got == "timeout":
            mech = "response_lost"
        ctx.violation(mech, f"outcome {got} ({oval!r}) at t={t_done}; allowed {sorted(allowed)}", case)
    # timing of each outcome
    if is_result and tr is not None and abs(t_done - tr) > EPS:
        ctx.violation("result_time", f"result at {t_done}, response arrived {tr}", case)
    if is_timeout and abs(t_done - T) > EPS:
        ctx.violation("timeout_time", f"TimeoutError at {t_done}, timeout {T}", case)
    if is_cancel and isinstance(tc, float):
        if t_done < tc - EPS:
            ctx.violation("cancel_before_trigger", f"CancelledError at {t_done} < cancel {tc}", case)
        if t_done > tc + POLL + EPS:
            ctx.violation("cancel_late", f"CancelledError at {t_done}, cancel at {tc}: more than one "
                          f"poll interval", case)

    # ---- cancelled notification ---------------------------------------------
    if len(cancelled_notes) > 1:
        ctx.violation("cancelled_notification_count", f"{len(cancelled_notes)} cancelled notifications", case)
    if is_cancel and tc != "pre":
        if len(cancelled_notes) != 1:
            ctx.violation("cancelled_notification_count",
                          f"CancelledError raised but {len(cancelled_notes)} cancelled notifications sent", case)
        else:
            n = cancelled_notes[0]["obj"]
            rid = req_writes[0]["obj"].id if req_writes else None
            d = n.model_dump(exclude_none=True)
            if "id" in d or not strict_eq((d.get("params") or {}).get("requestId"), rid):
                ctx.violation("cancelled_notification_content", f"cancelled notification {d!r} does not "
                              f"name request id {rid!r}", case)
    if not is_cancel and cancelled_notes:
        ctx.violation("cancelled_notification_without_cancel",
                      f"cancelled notification sent but outcome is {got}", case)
    if tc != "pre" and len(req_writes) != 1:
        ctx.violation("request_write_count", f"{len(req_writes)} requests written", case)
    if other_writes:
        ctx.violation("unexpected_write", f"extra writes {[e['item'] for e in other_writes]}", case)

    # ---- progress -----------------------------------------------------------
    cb_log = obs["cb"]
    if use_cb and tc != "pre":
        required, optional = [], []
        for t, kind, i in case["progress"]:
            if not kind.startswith("right"):
                continue
            if t < t_done - EPS:
                required.append((t, kind, i))
            elif t <= t_done + EPS:
                optional.append((t, kind, i))
        exp_all = required + optional

        def args_ok(entry, spec) -> bool:
            t, kind, i = spec
            p, total, msg = entry["args"]
            if kind == "right_zero":
                return (p == 0 and not isinstance(p, bool) and total == 0 and not isinstance(total, bool) and msg == "")
            if kind == "right_missing":
                if p not in (0, None):
                    return False
            elif not (isinstance(p, float) and p == float(i) + 0.5):
                return False
            if kind == "right_total_msg":
                return total == 10.0 and msg == f"step {i}"
            return total is None and msg is None

        k = len(cb_log)
        if k < len(required) or k > len(exp_all):
            ctx.violation("progress_callback_count",
                          f"callback invoked {k} times; {len(required)} matching progress notifications "
                          f"arrived before completion (+{len(optional)} simultaneous with it)", case,
                          [e["args"] for e in cb_log])
        else:
            for entry, spec in zip(cb_log, exp_all):
                if not args_ok(entry, spec):
                    ctx.violation("progress_callback_args", f"callback got {entry['args']!r} for {spec!r}", case)
                    break
                if abs(entry["t"] - spec[0]) > EPS:
                    ctx.violation("progress_callback_time", f"callback at {entry['t']} for progress "
                                  f"arriving {spec[0]}", case)
                    break
    elif cb_log:
        ctx.violation("progress_callback_count", f"callback invoked {len(cb_log)} times without reason", case)
    if case.get("raise_at") is not None and okind == "raise" and isinstance(oval, RuntimeError):
        ctx.violation("callback_exception_propagated", f"callback exception reached the caller: {oval!r}", case)

    ctx.count("callback_invocations", len(cb_log))
    shape = [got, round(t_done, 3), len(cancelled_notes), len(cb_log)]
    nontrivial = not (tc is None and tr is None and case["traffic"] == "none" and not case["progress"])
    cls = f"{'pre' if tc == 'pre' else 'c' if tc is not None else '-'}{'r' if tr is not None else '-'}" \
          f"{'p' if case['progress'] else '-'}:{case['traffic']}"
    ctx.record(case, shape=shape, nontrivial=nontrivial, cls=cls,
               sample={"case": case, "outcome": got, "t_done": round(t_done, 4), "allowed": sorted(allowed),
                       "cancelled_notifications": len(cancelled_notes),
                       "callbacks": [(round(e["t"], 3), e["args"]) for e in cb_log]})


class StallingSend:
    """Write stream that takes the first `free` messages and then does not complete a send until time `until`."""

    def __init__(self, inner, free: int, until: float, loop):
        self._inner, self._free, self._until, self._loop, self.n = inner, free, until, loop, 0

    async def send(self, item):
        self.n += 1
        if self.n > self._free:
            await vsleep_until(self._until)
        return await self._inner.send(item)

    def __getattr__(self, name):
        return getattr(self._inner, name)


def exec_stalled_writer(ctx, case: Dict[str, Any]) -> None:
    """The peer has read the request and then stops reading: whatever the call writes next (the cancelled notification)
    blocks.  The request must still end no later than its timeout."""
    from chuk_mcp.protocol.messages.send_message import send_message, CancellationToken
    tc, T, until = case["tc"], case["T"], case["stall_until"]

    async def main():
        loop = asyncio.get_running_loop()
        pipe = Pipe(buffer=1000)
        token = CancellationToken()
        write = StallingSend(pipe.write, case.get("free", 1), until, loop)

        async def canceller():
            await vsleep_until(tc)
            token.cancel()
        if tc == "pre":
            token.cancel()        # triggered before the call: whatever the call writes first already blocks
        ct = asyncio.create_task(canceller() if tc != "pre" else asyncio.sleep(0))
        t0 = loop.time()
        try:
            out = ("return", await send_message(pipe.read, write, "tools/call", {"name": "slow"}, timeout=T, cancellation_token=token))
        except BaseException as e:  # noqa
            if isinstance(e, (KeyboardInterrupt, SystemExit)):
                raise
            out = ("raise", e)
        dur = loop.time() - t0
        ct.cancel()
        pipe.close()
        return out, dur
    try:
        (out, dur), _ = run_virtual(main, max_iterations=300_000)
    except HangDetected as e:
        ctx.violation("hang_or_no_deadline", f"stalled writer: {e}", case)
        return
    ctx.count("outcomes")
    ctx.count("stalled_writer_requests")
    if dur > T + EPS:
        ctx.violation("deadline_overrun", f"peer stopped reading after the request; token fired at {tc}; the call ended with "
                      f"{out[1]!r} after {dur}s (timeout {T})", case)
    if out[0] == "return":
        ctx.violation("unexpected_result", f"stalled writer: returned {out[1]!r} although nothing was answered", case)
    ctx.record(case, shape=[out[0], type(out[1]).__name__, round(dur, 3)], nontrivial=True, cls="stalled_writer",
               sample={"case": case, "outcome": type(out[1]).__name__, "duration": dur})


def exec_shared_token(ctx, case: Dict[str, Any]) -> None:
    """One CancellationToken governing several requests: k requests in flight on separate connections when it is
    triggered, and m further requests started afterwards with the (already triggered) token."""
    from chuk_mcp.protocol.messages.send_message import send_message, CancellationToken, CancelledError
    k, m, tc, T = case["concurrent"], case["later"], case["tc"], case.get("T", 2.0)

    async def main():
        loop = asyncio.get_running_loop()
        token = CancellationToken()
        outs: List[Any] = []

        async def one(tag: str):
            pipe = Pipe(buffer=1000)
            t0 = loop.time()
            try:
                res = ("return", await send_message(pipe.read, pipe.write, "tools/call", {"name": tag}, timeout=T,
                                                    cancellation_token=token))
            except BaseException as e:  # noqa
                if isinstance(e, (KeyboardInterrupt, SystemExit)):
                    raise
                res = ("raise", e)
            writes = []
            while True:
                try:
                    writes.append(pipe.srv_recv.receive_nowait())
                except Exception:
                    break
            pipe.close()
            outs.append({"tag": tag, "res": res, "t0": t0, "t1": loop.time(), "writes": writes})

        tasks = [asyncio.create_task(one(f"inflight-{i}")) for i in range(k)]
        await vsleep_until(tc)
        token.cancel()
        t_cancel = loop.time()
        await asyncio.gather(*tasks)
        for j in range(m):
            await one(f"later-{j}")
        return outs, t_cancel

    try:
        (outs, t_cancel), _ = run_virtual(main, max_iterations=300_000)
    except HangDetected as e:
        ctx.violation("hang_or_no_deadline", f"shared token: {e}", case)
        ctx.record(case, shape="hang")
        return
    ctx.count("outcomes", len(outs))
    ctx.count("shared_token_requests", len(outs))
    shape = []
    for o in outs:
        kind, val = o["res"]
        reqs = [w for w in o["writes"] if getattr(w, "method", None) == "tools/call"]
        notes = [w for w in o["writes"] if getattr(w, "method", None) == "notifications/cancelled"]
        is_cancel = kind == "raise" and isinstance(val, CancelledError)
        later = o["tag"].startswith("later")
        if not is_cancel:
            ctx.violation("cancellation_ignored", f"token shared by {k}+{m} requests: request {o['tag']} ended with {val!r} "
                          f"at t={o['t1']} (token triggered at {t_cancel})", case)
        elif o["t1"] > (o["t0"] if later else t_cancel) + POLL + EPS:
            ctx.violation("cancel_late", f"token shared by {k}+{m} requests: {o['tag']} raised CancelledError at {o['t1']}, "
                          f"token triggered at {t_cancel}", case)
        if later:
            if reqs:
                ctx.violation("pre_cancelled_request_sent", f"{o['tag']} was started with a triggered token and was still "
                              f"written", case)
        else:
            rid = getattr(reqs[0], "id", None) if reqs else None
            named = [n for n in notes if (getattr(n, "params", None) or {}).get("requestId") == rid]
            if len(notes) != 1 or len(named) != 1:
                ctx.violation("cancelled_notification_count", f"token shared by {k}+{m} requests: {o['tag']} (id {rid!r}) "
                              f"emitted {len(notes)} cancelled notifications, {len(named)} naming its id", case)
        shape.append([o["tag"], "cancel" if is_cancel else kind, len(notes)])
    ctx.record(case, shape=shape, nontrivial=True, cls=f"shared_token:{k}+{m}", sample={"case": case, "per_request": shape})


def exec_shared_params(ctx, case: Dict[str, Any]) -> None:
    """k requests in flight together, each on its own connection and with its own progress callback, all given the SAME
    params dict by the caller. The peer of each connection reads the request `read_delay` after it was handed over,
    reports progress under the token that request carries (value = the connection's number) and then answers."""
    from chuk_mcp.protocol.messages.send_message import send_message
    from vf.ref import msg_to_wire
    k, read_delay, stagger, pmode = case["k"], case["read_delay"], case["stagger"], case["params"]

    async def main():
        loop = asyncio.get_running_loop()
        shared: Dict[str, Any] = {"name": "tool", "arguments": {"x": 1}}
        if pmode == "own_meta":
            shared["_meta"] = {"trace": "abc"}
        before = repr(shared)
        outs: List[Any] = []

        async def one(i: int):
            pipe = Pipe(buffer=1000)
            calls: List[Any] = []

            async def cb(progress, total, message):
                calls.append((progress, total, message))

            async def peer():
                req = await pipe.srv_recv.receive()
                if read_delay:
                    await asyncio.sleep(read_delay)
                wire = msg_to_wire(req)    # what a transport serialising at this moment would put on the wire
                token = ((wire.get("params") or {}).get("_meta") or {}).get("progressToken")
                from chuk_mcp.protocol.messages.json_rpc_message import JSONRPCMessage
                await pipe.srv_send.send(JSONRPCMessage.model_validate(
                    {"jsonrpc": "2.0", "method": "notifications/progress",
                     "params": {"progressToken": token, "progress": float(i + 1), "total": 10.0, "message": f"conn-{i}"}}))
                await asyncio.sleep(0.05)
                await pipe.srv_send.send(JSONRPCMessage.model_validate({"jsonrpc": "2.0", "id": wire.get("id"), "result": {"conn": i}}))
                return wire

            pt = asyncio.create_task(peer())
            if stagger:
                await asyncio.sleep(stagger * i)
            try:
                res = ("return", await send_message(pipe.read, pipe.write, "tools/call", shared, timeout=2.0, progress_callback=cb))
            except BaseException as e:  # noqa
                if isinstance(e, (KeyboardInterrupt, SystemExit)):
                    raise
                res = ("raise", e)
            wire = await pt
            pipe.close()
            outs.append({"i": i, "res": res, "calls": calls, "wire": wire})

        await asyncio.gather(*[asyncio.create_task(one(i)) for i in range(k)])
        return outs, before, repr(shared)

    try:
        (outs, before, after), _ = run_virtual(main, max_iterations=300_000)
    except HangDetected as e:
        ctx.violation("hang_or_no_deadline", f"shared params: {e}", case)
        ctx.record(case, shape="hang")
        return
    ctx.count("outcomes", len(outs))
    ctx.count("shared_params_requests", len(outs))
    shape = []
    tokens = [((o["wire"].get("params") or {}).get("_meta") or {}).get("progressToken") for o in outs]
    for o in outs:
        i = o["i"]
        want = [(float(i + 1), 10.0, f"conn-{i}")]
        if o["calls"] != want:
            ctx.violation("progress_crosstalk_or_loss", f"{k} concurrent requests given one params dict: request on connection {i} "
                          f"(wire token {tokens[outs.index(o)]!r}; all wire tokens {tokens!r}) got callback invocations "
                          f"{o['calls']!r}, its peer reported {want!r} under the token the request carried", case)
        kind, val = o["res"]
        if kind != "return" or val != {"conn": i}:
            ctx.violation("wrong_outcome", f"shared params: connection {i} ended with {kind} {val!r}", case)
        extra = {kk: v for kk, v in (o["wire"].get("params") or {}).items() if kk != "_meta"}
        if extra != {"name": "tool", "arguments": {"x": 1}} or \
                {kk: v for kk, v in ((o["wire"].get("params") or {}).get("_meta") or {}).items() if kk != "progressToken"} != \
                ({"trace": "abc"} if pmode == "own_meta" else {}):
            ctx.violation("params_altered", f"shared params: connection {i} wrote params {o['wire'].get('params')!r}", case)
        shape.append([i, kind, len(o["calls"])])
    ctx.record(case, shape=shape, nontrivial=True, cls=f"shared_params:{k}:{pmode}",
               sample={"case": case, "per_request": shape, "distinct_wire_tokens": len(set(tokens))})


def run(ctx):
    for kk in (2, 3, 5):
        for rd in (0.0, 0.02):
            for st in (0.0, 0.01):
                for pm in ("plain", "own_meta"):
                    case = {"shared_params": True, "k": kk, "read_delay": rd, "stagger": st, "params": pm}
                    if ctx.mine():
                        exec_shared_params(ctx, case)
    for tc in (0.2, 0.6, 0.95, "pre"):
        for T in (1.0, 1.3):
            for until in (T + 0.5, T + 5.0):
                for free in (1, 0):
                    case = {"stalled_writer": True, "tc": tc, "T": T, "stall_until": until, "free": free}
                    if ctx.mine():
                        exec_stalled_writer(ctx, case)
    for kk, mm in ((2, 0), (3, 0), (1, 1), (1, 2), (2, 1), (0, 2)):
        for tc in (0.1, 0.3, 0.5, 0.75):
            case = {"shared_token": True, "concurrent": kk, "later": mm, "tc": tc}
            if ctx.mine():
                exec_shared_token(ctx, case)
    for case in gen_cases(ctx):
        if not ctx.mine():
            continue
        if ctx.out_of_time():
            break
        exec_case(ctx, case)
    ctx.require_reached("outcomes")


def replay(ctx, case):
    if case.get("shared_params"):
        exec_shared_params(ctx, case)
        return
    if case.get("stalled_writer"):
        exec_stalled_writer(ctx, case)
        return
    if case.get("shared_token"):
        exec_shared_token(ctx, case)
        return
    exec_case(ctx, case)
