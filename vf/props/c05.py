"""C05 - stdio inbound framing is independent of how the byte stream is chunked."""
from __future__ import annotations

import json
from typing import Any, Dict, List, Tuple

from vf.ref import inbound_class, norm_any, seq_match
from vf.stdio_harness import run_stdio_script

ID = "C05"
LEVEL = "exploration"
BACKENDS = ["pydantic", "fallback"]   # every case is executed under both validation backends
LOGLEVELS = ["default", "debug"]   # every case also runs with the root logger at DEBUG (as --verbose does)
SHARDS = {"quick": 8, "thorough": 16}
BUDGET_S = {"quick": 100.0, "thorough": 900.0}
TECHNIQUE = ("runtime monitoring: read-stream and notification-stream recorder on the real StdioClient fed by a scripted "
             "child (anyio.open_process seam) / a real child with forced partial writes; reference-framing oracle + "
             "metamorphic single-chunk oracle")
LEVEL_TEXT = ("Streams of 1-6 message/junk lines (LF and CRLF; ASCII, 2/3/4-byte UTF-8, U+0085, U+2028/2029, escaped "
              "newlines, invalid UTF-8 junk) are cut at every position (k<=2) and at every pair of cuts adjacent to a "
              "multi-byte character or terminator (k=3), in bytes and str chunk modes, and fed to the real reader; the "
              "delivered transcript must equal the reference framing of the whole stream and the single-chunk transcript. "
              "Thorough adds all cut pairs on bounded streams, seeded cuts on 200 KiB streams and a real child process "
              "writing the pieces with pauses (boundaries that fell inside a character are counted)."
              " Also several clients in one process (alive together, one after the other, overlapping; reads interleaved; earlier ones ending mid-line): each must frame exactly its own child's bytes."
              ' Also responses with non-object results and falsy/negative ids, boolean and fractional ids as junk, per-request streams registered for the ids a stream carries.'
              ' Also an application that is busy while 101-400 answers arrive (reading paused, per-request streams registered for their ids or not): after it reads on, the read stream must have carried every line.'
              ' Also a child that exits (status known to the process object) while 3-4000 messages it wrote are still unread.'
              ' Also a line larger than one read followed by further lines in the same read, a child whose exit status is known before its output has been read, and an application that reads nothing for a while.'
              ' Also junk lines that are JSON strings holding the text of a message (double-encoded).'
              ' Also response-shaped junk lines whose error object is empty or lacks its code.')
LEVEL_NOTE = ("Trusted: the ScriptedProcess stand-in yields exactly the chosen chunks; reference framing = split whole "
              "stream on LF, UTF-8 decode, strip, json.loads, independent JSON-RPC validator. Lines with a missing/non-2.0 "
              "jsonrpc member may be delivered or dropped (the library's own tests pin leniency there).")
RULE = ("case = (stream of lines, chunking, chunk mode). Non-trivial = at least one cut falls inside a line; distinct = "
        "hash(stream id, cuts, mode) + hash(transcript).")
ASSUMPTIONS = ["only newline-terminated lines are required to be delivered (an unterminated tail may stay buffered)",
               "the default (no negotiated version) batching mode applies: batch arrays are expanded"]

TEXTS = ["plain", "\u00e9", "\u20ac", "\U0001f600", "a\u0085b", "l\u2028s", "p\u2029s", "esc\nnl", "tab\tq\"uote\\",
         "\u00e9\u20ac\U0001f600\u00e9", "\ufeffbom", "\u00a0nbsp\u3000", "\r cr", "\x1c\x1d\x1e fs", "\x0b\x0c vt"]


def mk_lines(kind: str, text: str, n: int) -> Tuple[Any, bool]:
    """Returns (python value or raw bytes, is_raw)."""
    if kind == "note":
        return {"jsonrpc": "2.0", "method": "notifications/message", "params": {"level": "info", "data": text}}, False
    if kind == "req":
        return {"jsonrpc": "2.0", "id": n, "method": "roots/list", "params": {"t": text}}, False
    if kind == "resp":
        return {"jsonrpc": "2.0", "id": f"r{n}", "result": {"content": [{"type": "text", "text": text}], "n": None}}, False
    if kind == "resp_id0":
        return {"jsonrpc": "2.0", "id": 0, "result": {"t": text}}, False
    if kind == "resp_idempty":
        return {"jsonrpc": "2.0", "id": "", "result": {"t": text}}, False
    if kind == "err_id0":
        return {"jsonrpc": "2.0", "id": 0, "error": {"code": -32000, "message": text}}, False
    if kind == "req_idneg":
        return {"jsonrpc": "2.0", "id": -1, "method": "ping"}, False
    if kind == "resp_arr":
        return {"jsonrpc": "2.0", "id": f"r{n}", "result": [text, None, 1]}, False
    if kind == "resp_str":
        return {"jsonrpc": "2.0", "id": n + 1, "result": text}, False
    if kind == "resp_num":
        return {"jsonrpc": "2.0", "id": f"r{n}", "result": n}, False
    if kind == "resp_empty":
        return {"jsonrpc": "2.0", "id": f"r{n}", "result": {}}, False
    if kind == "err_data":
        return {"jsonrpc": "2.0", "id": n + 1, "error": {"code": -32001, "message": text, "data": [text]}}, False
    if kind == "req_noparams":
        return {"jsonrpc": "2.0", "id": f"q{n}", "method": "ping"}, False
    if kind == "note_noparams":
        return {"jsonrpc": "2.0", "method": "notifications/initialized"}, False
    if kind == "err":
        return {"jsonrpc": "2.0", "id": f"e{n}", "error": {"code": -32000, "message": text}}, False
    if kind == "key":
        return {"jsonrpc": "2.0", "method": "notifications/x", "params": {text: text}}, False
    if kind == "batch":
        return [{"jsonrpc": "2.0", "method": "notifications/b1", "params": {"t": text}},
                {"jsonrpc": "2.0", "id": n, "result": {"t": text}}], False
    raws = {
        "junk_text": ("garbage " + text).encode("utf-8"),
        "junk_brace": b'{"jsonrpc":"2.0","id":1,',
        "junk_scalar": b"42",
        "junk_string": json.dumps(text).encode(),
        "junk_null": b"null",
        # JSON *strings* whose text is itself the text of a message (a double-encoded message): a string scalar, not a message
        "junk_string_of_response": json.dumps(json.dumps({"jsonrpc": "2.0", "id": 99, "result": {"t": text}})).encode(),
        "junk_string_of_note": json.dumps(json.dumps({"jsonrpc": "2.0", "method": "notifications/message", "params": {"t": text}})).encode(),
        "junk_string_of_batch": json.dumps(json.dumps([{"jsonrpc": "2.0", "id": 98, "result": {}}])).encode(),
        "junk_obj": b'{"foo": 1}',
        "junk_noresult": b'{"jsonrpc":"2.0","id":5}',
        "junk_nullid_result": b'{"jsonrpc":"2.0","id":null,"result":{}}',
        "junk_bool_id": b'{"jsonrpc":"2.0","id":true,"result":{"x":1}}',
        # lines whose decoding fails in other ways than a JSON syntax error
        "junk_deep_brackets": b"[" * 3000,
        "junk_huge_int": b'{"jsonrpc":"2.0","id":' + b"9" * 5000 + b',"method":"ping"}',
        "junk_nested_batch": b'[[{"jsonrpc":"2.0","id":1,"result":{"x":1}}],[]]',
        "junk_nan": b'{"jsonrpc":"2.0","id":1,"result":{"a":NaN,"b":-Infinity}}',
        "junk_err_empty": b'{"jsonrpc":"2.0","id":2,"error":{}}',
        "junk_err_empty_strid": b'{"jsonrpc":"2.0","id":"r-3","error":{}}',
        "junk_err_nocode": b'{"jsonrpc":"2.0","id":4,"error":{"message":"m"}}',
        "junk_err_badtypes": b'{"jsonrpc":"2.0","id":1,"error":{"code":"-32601","message":5}}',
        "junk_err_listcode": b'{"jsonrpc":"2.0","id":2,"error":{"code":[1],"message":"m"}}',
        "junk_method_int": b'{"jsonrpc":"2.0","id":3,"method":5}',
        "junk_float_id": b'{"jsonrpc":"2.0","id":1.5,"method":"ping"}',
        "ws_nel_prefixed": "\u0085{\"jsonrpc\":\"2.0\",\"method\":\"notifications/nel\"}".encode("utf-8"),
        "ws_ff_wrapped": b'\x0c{"jsonrpc":"2.0","method":"notifications/ff"}\x1c',

        "junk_both": b'{"jsonrpc":"2.0","id":5,"result":{},"error":{"code":1,"message":"m"}}',
        "junk_badutf8": b'{"jsonrpc":"2.0","method":"notifications/\xff\xfe"}',
        "junk_badutf8_2": b"\xc3\x28 \xe2\x82",
        "junk_empty": b"",
        "junk_spaces": b"   \t ",
        "lenient_v1": b'{"jsonrpc":"1.0","id":3,"method":"ping"}',
        "junk_trunc_utf8": "caf\u00e9".encode("utf-8")[:-1],
    }
    return raws[kind], True


MSG_KINDS = ["note", "req", "resp", "err", "key", "batch", "resp_arr", "resp_str", "resp_num", "resp_empty", "err_data",
             "req_noparams", "note_noparams", "resp_id0", "resp_idempty", "err_id0", "req_idneg"]
JUNK_KINDS = ["junk_text", "junk_brace", "junk_scalar", "junk_string", "junk_null", "junk_obj", "junk_noresult",
              "junk_both", "junk_badutf8", "junk_badutf8_2", "junk_empty", "junk_spaces", "lenient_v1", "junk_trunc_utf8",
              "junk_nullid_result", "junk_bool_id", "junk_float_id", "ws_nel_prefixed", "ws_ff_wrapped",
              "junk_deep_brackets", "junk_huge_int", "junk_nested_batch", "junk_nan", "junk_err_badtypes", "junk_err_listcode",
              "junk_method_int", "junk_err_empty", "junk_err_empty_strid", "junk_err_nocode", "junk_string_of_response", "junk_string_of_note", "junk_string_of_batch"]


def build_stream(spec: List[Tuple[str, str, str, bool]]) -> bytes:
    """spec: list of (kind, text, terminator 'LF'|'CRLF', ensure_ascii)."""
    out = b""
    for n, (kind, text, term, ea) in enumerate(spec):
        val, raw = mk_lines(kind, text, n)
        b = val if raw else json.dumps(val, ensure_ascii=ea, separators=(",", ":")).encode("utf-8")
        out += b + (b"\r\n" if term == "CRLF" else b"\n")
    return out


def reference_framing(stream: bytes) -> Tuple[List[Tuple[Any, bool]], List[Tuple[Any, bool]]]:
    """Expected (read items, notification items) as (norm, required) lists."""
    read, notes = [], []
    parts = stream.split(b"\n")
    for line in parts[:-1]:  # only terminated lines
        try:
            t = line.decode("utf-8")
        except UnicodeDecodeError:
            continue
        # JSON's own whitespace is space, tab, CR, LF; a line that only parses after a more generous strip (NEL, FF, FS..)
        # is not valid JSON: the reader may drop it or tolerate it
        strict = t.strip(" \t\r\n")
        t = t.strip()
        if not t:
            continue
        generous_only = False

        def _no_constants(name):
            raise ValueError(f"{name} is not JSON")
        try:
            obj = json.loads(strict, parse_constant=_no_constants)
        except Exception:
            try:
                # Python's own parser also takes NaN / Infinity and a more generous notion of surrounding whitespace:
                # such a line is not JSON, the reader may drop it or tolerate it
                obj = json.loads(t)
                generous_only = True
            except Exception:
                continue
        members = obj if isinstance(obj, list) else [obj]
        if isinstance(obj, list) and not obj:
            continue
        for mobj in members:
            c = inbound_class(mobj)
            if c == "invalid" and isinstance(mobj, dict) and isinstance(mobj.get("method"), (int, float)) \
                    and not isinstance(mobj.get("method"), bool):
                # the dependency-free validation backend turns a numeric member into text and lets the message through
                # (pinned by the repository's own test_type_coercion): judged separately as a known finding, so the line
                # is neither required nor forbidden here
                coerced = dict(mobj, method=str(mobj["method"]))
                n = norm_any(coerced)
                read.append((n, False))
                continue
            if c == "invalid":
                continue
            n = norm_any(mobj)
            read.append((n, c == "valid" and not generous_only))
            if n[0] == "notification":
                notes.append((n, c == "valid" and not generous_only))
    return read, notes


def special_positions(stream: bytes) -> List[int]:
    """Cut positions adjacent to/inside multi-byte sequences and line terminators."""
    pos = set()
    for i, b in enumerate(stream):
        if b >= 0x80 or b in (0x0a, 0x0d):
            pos.update((i, i + 1))
    return sorted(p for p in pos if 0 < p < len(stream))


def stream_specs(ctx) -> List[List[Tuple[str, str, str, bool]]]:
    rng = ctx.sub_rng("c05streams")
    specs: List[List[Tuple[str, str, str, bool]]] = []
    # hand-built coverage: each text in a notification, raw UTF-8, LF and CRLF
    for i, t in enumerate(TEXTS):
        specs.append([("note", t, "LF" if i % 2 else "CRLF", False), ("resp", t, "LF", False)])
    # each junk kind between two good lines
    for j in JUNK_KINDS:
        specs.append([("req", "\u00e9", "LF", False), (j, "x\u20ac", "LF", False), ("note", "after", "CRLF", True)])
    # the same top-level shape with different value types, after each other (an earlier line must not decide how a
    # later one is read)
    specs.append([("resp", "a", "LF", False), ("resp_arr", "\u00e9", "LF", False), ("resp_str", "s", "CRLF", False),
                  ("junk_nullid_result", "", "LF", False), ("resp_num", "n", "LF", False), ("resp_empty", "", "LF", False)])
    specs.append([("resp_num", "n", "LF", False), ("resp", "a", "LF", False), ("err_data", "e", "LF", False), ("err", "e2", "LF", False),
                  ("req_noparams", "", "LF", False), ("req", "p", "LF", False), ("note_noparams", "", "LF", False), ("note", "x", "LF", False)])
    # falsy and negative ids
    specs.append([("resp_id0", "z", "LF", False), ("resp_idempty", "e", "CRLF", False), ("err_id0", "\u00e9", "LF", False),
                  ("req_idneg", "", "LF", False), ("note", "after", "LF", False)])
    n = 12 if ctx.tier == "quick" else 150
    for _ in range(n):
        L = rng.randint(1, 6)
        spec = []
        for _ in range(L):
            kind = rng.choice(MSG_KINDS) if rng.random() < 0.65 else rng.choice(JUNK_KINDS)
            spec.append((kind, rng.choice(TEXTS), rng.choice(["LF", "CRLF"]), rng.random() < 0.3))
        specs.append(spec)
    return specs


def chunkings(ctx, stream: bytes, rng) -> List[Tuple[str, List[int]]]:
    n = len(stream)
    out: List[Tuple[str, List[int]]] = [("bytes", [])]
    singles = list(range(1, n))
    if n > 500 and ctx.tier == "quick":
        # very long lines (thousands of digits / brackets): every cut next to a terminator or multi-byte character plus
        # a seeded sample of the rest
        keep = set(special_positions(stream)) | set(rng.sample(singles, 150))
        singles = sorted(keep)
    for c in singles:
        out.append(("bytes", [c]))
    sp = special_positions(stream)
    pairs = [(a, b) for i, a in enumerate(sp) for b in sp[i + 1:]]
    if ctx.tier == "quick" and len(pairs) > 120:
        pairs = rng.sample(pairs, 120)
    for a, b in pairs:
        out.append(("bytes", [a, b]))
    if ctx.tier == "thorough" and n <= 160:
        for a in range(1, n):
            for b in range(a + 1, n):
                if (a, b) not in pairs:
                    out.append(("bytes", [a, b]))
    # byte-at-a-time and random multi-cuts
    out.append(("bytes", list(range(1, n))))
    for _ in range(6 if ctx.tier == "quick" else 40):
        k = rng.randint(3, min(12, n - 1)) if n > 4 else 1
        out.append(("bytes", sorted(rng.sample(range(1, n), min(k, n - 1)))))
    # str mode: cuts at character positions (only possible when the stream is valid UTF-8)
    try:
        text = stream.decode("utf-8")
        m = len(text)
        out.append(("str", []))
        step = 1 if ctx.tier == "thorough" or m < 200 else (3 if m < 500 else max(3, m // 100))
        for c in range(1, m, step):
            out.append(("str", [c]))
        out.append(("str", list(range(1, m))))
    except UnicodeDecodeError:
        pass
    return out


def cut(stream, cuts):
    pieces, last = [], 0
    for c in cuts:
        pieces.append(stream[last:c])
        last = c
    pieces.append(stream[last:])
    return [p for p in pieces if len(p) or not cuts]


def transcript(stream: bytes, mode: str, cuts: List[int], drain_notifications: bool = True, register: Any = None):
    data: Any = stream if mode == "bytes" else stream.decode("utf-8")
    pieces = cut(data, cuts)
    steps = [("register_stream", str(i)) for i in (register or [])]
    for p in pieces:
        steps += [("feed", p), ("settle",)]
    out = run_stdio_script(steps, drain_notifications=drain_notifications)
    read = [norm_any(m) for m in out["read"]]
    notes = [norm_any(m) for m in out["notes"]]
    return read, notes, out["reader_alive"], out["stdin"], [norm_any(m) for m in out.get("late", [])]


def check_one(ctx, sid: int, spec, stream: bytes, mode: str, cuts: List[int], baseline, drain_notifications: bool = True,
              register: Any = None) -> None:
    case = {"spec": [list(s) for s in spec], "mode": mode, "cuts": cuts}
    if not drain_notifications:
        case["drain_notifications"] = False
    if register:
        case["register"] = list(register)
    try:
        read, notes, alive, stdin, late = transcript(stream, mode, cuts, drain_notifications, register)
    except Exception as e:  # noqa
        ctx.violation("reader_crashed_harness", f"session failed: {e!r}", case)
        ctx.record(case, shape="crash")
        return
    if late:
        ctx.violation("message_withheld_until_next_read", f"{len(late)} message(s) whose line terminator had been read were "
                      f"only delivered after further data arrived (cuts {cuts[:8]}, mode {mode})", case)
    ctx.count("sessions")
    ctx.count("messages_delivered", len(read))
    if b'"method":5' in stream and any(isinstance(r, tuple) and len(r) > 2 and r[2] == "5" for r in read):
        ctx.violation("numeric_member_coerced_to_text_and_delivered", "a line whose method is the number 5 was delivered with "
                      "method \"5\" (only the dependency-free backend does this)", case)
    exp_read, exp_notes = reference_framing(stream)
    ok, why = seq_match(read, exp_read)
    inside_char = False
    if mode == "bytes":
        for c in cuts:
            if 0 < c < len(stream) and (stream[c] & 0xC0) == 0x80:
                inside_char = True
    if inside_char:
        ctx.count("cuts_inside_multibyte_char")
    if not alive:
        mech = "reader_died_on_split_utf8" if inside_char else "reader_died"
        try:
            stream.decode("utf-8")
        except UnicodeDecodeError:
            if not inside_char:
                mech = "reader_died_on_invalid_utf8_line"
        ctx.violation(mech, f"stdout reader stopped delivering after this stream (cuts {cuts[:6]}, mode {mode})", case)
    elif not ok:
        required = [e for e, r in exp_read if r]
        if any(r not in read for r in required):
            mech = "message_lost"
        elif len(read) > len(exp_read):
            mech = "message_invented_or_duplicated"
        else:
            mech = "transcript_differs"
        ctx.violation(mech, f"read stream differs from reference framing: {why}", case)
    okn, whyn = seq_match(notes, exp_notes)
    if alive and not okn and drain_notifications:
        ctx.violation("notification_stream_differs", f"notification stream differs: {whyn}", case)
    if baseline is not None and alive and (read, notes) != baseline:
        ctx.violation("chunking_dependent", f"transcript under cuts {cuts[:8]} ({mode}) differs from the single-chunk "
                      f"transcript ({len(read)} vs {len(baseline[0])} messages)", case)
    if stdin.strip():
        ctx.violation("unexpected_write_back", f"reader wrote to the child: {stdin[:100]!r}", case)
    nontrivial = bool(cuts)
    ctx.record({"stream": sid, "mode": mode, "cuts": cuts}, shape=[len(read), len(notes), alive], nontrivial=nontrivial,
               cls=f"{mode}:k{min(len(cuts) + 1, 4)}{':inchar' if inside_char else ''}",
               sample={"stream_bytes": stream[:120].decode("utf-8", "replace"), "mode": mode, "cuts": cuts[:10],
                       "delivered": len(read), "expected_required": sum(1 for _, r in exp_read if r)})


def run(ctx):
    specs = stream_specs(ctx)
    ctx.extra["streams"] = len(specs)
    for sid, spec in enumerate(specs):
        stream = build_stream(spec)
        rng = ctx.sub_rng("cuts", sid)
        plan = chunkings(ctx, stream, rng)
        baseline = None
        if ctx.backend == "fallback" and ctx.tier == "quick":
            # both backends run in parallel processes: every second chunking (plus all
            # single-chunk baselines) keeps the quick tier inside its budget; thorough runs the full plan
            plan = [pc for j, pc in enumerate(plan) if not pc[1] or j % 2 == 0]
        for mode, cuts in plan:
            if not cuts:
                # the single-chunk run is needed by every shard as the metamorphic baseline
                try:
                    r, n, alive, _, _l = transcript(stream, mode, [])
                    if mode == "bytes":
                        baseline = (r, n) if alive else None
                except Exception:
                    baseline = None
            if not ctx.mine():
                continue
            if ctx.out_of_time("chunkings"):
                break
            check_one(ctx, sid, spec, stream, mode, cuts, baseline if cuts else None)
        # the same stream while per-request streams (new_request_stream) are registered for the ids it carries: the main
        # read stream must still see every line
        ids = []
        for n_, (kind_, text_, _t, _e) in enumerate(spec):
            val_, raw_ = mk_lines(kind_, text_, n_)
            for m_ in ((val_ if isinstance(val_, list) else [val_]) if not raw_ else []):
                if isinstance(m_, dict) and m_.get("id") is not None:
                    ids.append(m_["id"])
        if ids and ctx.mine():
            ctx.count("sessions_with_request_streams")
            check_one(ctx, sid, spec, stream, "bytes", [len(stream) // 2] if len(stream) > 2 else [], baseline, register=ids)
    # an application that is busy for a while: per-request streams are registered for the ids in flight, the answers
    # arrive in a burst larger than the read stream buffers while the application is not reading, then it reads on -
    # the read stream still has to carry every line, in order (the reader has to wait, not to drop)
    for k, (n_resp, notes_every) in enumerate([(n_, e_) for n_ in ((101, 150) if ctx.tier == "quick" else (100, 101, 150, 400))
                                               for e_ in (10, 0)]):
        if not ctx.mine():
            continue
        wires = []
        for i in range(n_resp):
            wires.append({"jsonrpc": "2.0", "id": i + 1, "result": {"n": i, "t": TEXTS[i % len(TEXTS)]}})
            if notes_every and i % notes_every == 0:
                wires.append({"jsonrpc": "2.0", "method": "notifications/message", "params": {"level": "info", "data": i}})
        stream = b"".join((json.dumps(w, ensure_ascii=False) + "\n").encode("utf-8") for w in wires)
        for registered in (True, False):
            case = {"busy_application": True, "responses": n_resp, "notifications_every": notes_every,
                    "request_streams_registered": registered}
            steps = ([("register_stream", str(i + 1)) for i in range(n_resp)] if registered else []) + \
                [("pause_reading",), ("feed", stream), ("settle",), ("wait", 0.5), ("resume_reading",), ("settle",)]
            try:
                out = run_stdio_script(steps)
            except Exception as e:  # noqa
                ctx.violation("reader_crashed_harness", f"busy-application session failed: {e!r}", case)
                continue
            ctx.count("sessions")
            ctx.count("busy_application_sessions")
            got = [norm_any(m) for m in out["read"]]
            want = [norm_any(w) for w in wires]
            if got != want:
                mech = "message_lost" if len(got) < len(want) else ("message_invented_or_duplicated" if len(got) > len(want) else "order_or_content_changed")
                ctx.violation(mech, f"{n_resp} answers arriving while the application is not reading"
                              f"{' (per-request streams registered for their ids)' if registered else ''}: the read stream carried "
                              f"{len(got)} of {len(want)} messages once reading resumed", case)
            ctx.record(case, shape=len(got), nontrivial=True, cls="busy_application", sample={"case": case, "delivered": len(got), "written": len(wires)})
    # a large well-formed line (tens to hundreds of KiB) with more lines right behind it in the same read: order is order
    for k, big in enumerate((33_000, 40_000, 300_000) if ctx.tier == "quick" else (32_769, 33_000, 40_000, 70_000, 300_000, 2_000_000)):
        wires = [{"jsonrpc": "2.0", "id": 1, "result": {"small": True}},
                 {"jsonrpc": "2.0", "id": 2, "result": {"blob": "\u00e9x" * (big // 3)}},
                 {"jsonrpc": "2.0", "method": "notifications/progress", "params": {"progressToken": "t", "progress": 1}},
                 {"jsonrpc": "2.0", "id": 3, "result": {}}, {"jsonrpc": "2.0", "id": 4, "error": {"code": -32000, "message": "m"}},
                 {"jsonrpc": "2.0", "id": 5, "result": [big]}]
        stream = b"".join((json.dumps(w, ensure_ascii=False) + "\n").encode("utf-8") for w in wires)
        end_big = len((json.dumps(wires[0]) + "\n").encode()) + len((json.dumps(wires[1], ensure_ascii=False) + "\n").encode("utf-8"))
        for cuts in ([], [end_big], [end_big - 1], [end_big + 1], [100, end_big // 2], [65536], [end_big - 1, end_big, end_big + 1]):
            if not ctx.mine():
                continue
            cuts = sorted(c for c in set(cuts) if 0 < c < len(stream))
            case = {"big_line_then_more": True, "big": big, "cuts": cuts}
            pieces = cut(stream, cuts)
            try:
                out = run_stdio_script([("feed", pc) for pc in pieces] + [("settle",), ("wait", 1.0), ("settle",)])
            except Exception as e:  # noqa
                ctx.violation("reader_crashed_harness", f"big-line session failed: {e!r}", case)
                continue
            ctx.count("sessions")
            ctx.count("big_line_sessions")
            got = [norm_any(m) for m in out["read"]]
            want = [norm_any(w) for w in wires]
            if got != want:
                mech = "message_lost" if len(got) < len(want) else ("message_invented_or_duplicated" if len(got) > len(want) else "order_changed")
                ctx.violation(mech, f"a {big}-byte line with five lines around it (cuts {cuts}): delivered ids/methods "
                              f"{[(g[1][-1] if g[0] != 'notification' else g[2]) for g in got]}, written 1, 2, progress, 3, 4, 5", case)
            ctx.record(case, shape=len(got), nontrivial=True, cls="big_line", sample={"case": case, "delivered": len(got)})
    # a server that writes its last answers and exits at once: what it wrote before exiting is still to be read when the
    # process object already knows the exit status - every line must be delivered all the same
    for k, (n_msgs, chunk) in enumerate([(3, 0), (40, 0), (600, 4099), (600, 65536)] if ctx.tier == "quick"
                                        else [(3, 0), (40, 0), (600, 4099), (600, 65536), (4000, 65536), (4000, 4099)]):
        if not ctx.mine():
            continue
        wires = []
        for i in range(n_msgs):
            wires.append({"jsonrpc": "2.0", "id": i, "result": {"n": i, "t": TEXTS[i % len(TEXTS)], "pad": "x" * 100}} if i % 5 else
                         {"jsonrpc": "2.0", "method": "notifications/message", "params": {"level": "info", "data": i}})
        stream = b"".join((json.dumps(w, ensure_ascii=False) + "\n").encode("utf-8") for w in wires)
        pieces = [stream] if not chunk else [stream[j:j + chunk] for j in range(0, len(stream), chunk)]
        case = {"child_exits_with_unread_output": True, "messages": n_msgs, "chunk": chunk}
        steps = [("feed", pc) for pc in pieces] + [("child_exits", 0), ("settle",), ("wait", 0.5), ("settle",)]
        try:
            out = run_stdio_script(steps)
        except Exception as e:  # noqa
            ctx.violation("reader_crashed_harness", f"exiting-child session failed: {e!r}", case)
            continue
        ctx.count("sessions")
        ctx.count("exiting_child_sessions")
        got = [norm_any(m) for m in out["read"]]
        want = [norm_any(w) for w in wires]
        if got != want:
            ctx.violation("message_lost" if len(got) < len(want) else "message_invented_or_duplicated",
                          f"the child wrote {len(want)} messages ({len(stream)} bytes, read in pieces of {chunk or len(stream)}) and "
                          f"exited; the read stream carried {len(got)} of them", case)
        ctx.record(case, shape=len(got), nontrivial=True, cls="exiting_child", sample={"case": case, "delivered": len(got)})
    # many notifications while nobody reads client.notifications (the best-effort side stream fills up at 100):
    # the main read stream must still carry every message
    for k, n_notes in enumerate((120, 250) if ctx.tier == "quick" else (101, 120, 250, 1000)):
        spec = []
        for i in range(n_notes):
            spec.append(("note" if i % 7 else "resp", TEXTS[i % len(TEXTS)], "LF" if i % 3 else "CRLF", False))
        stream = build_stream(spec)
        for cuts in ([], [len(stream) // 2], sorted({len(stream) // 3, 2 * len(stream) // 3})):
            if not ctx.mine():
                continue
            check_one(ctx, 20_000 + k, [("undrained", str(n_notes), "mixed", False)], stream, "bytes", cuts, None,
                      drain_notifications=False)
    # long streams with seeded cuts (thorough) / one medium stream (quick)
    rng = ctx.sub_rng("long")
    n_long = 1 if ctx.tier == "quick" else 8
    for k in range(n_long):
        target = 20_000 if ctx.tier == "quick" else 200_000
        spec = []
        size = 0
        while size < target:
            kind = rng.choice(MSG_KINDS) if rng.random() < 0.8 else rng.choice(JUNK_KINDS)
            s = (kind, rng.choice(TEXTS) * rng.randint(1, 40), rng.choice(["LF", "CRLF"]), rng.random() < 0.2)
            spec.append(s)
            size += 80 + len(s[1]) * 3
        stream = build_stream(spec)
        for rep in range(2 if ctx.tier == "quick" else 6):
            if not ctx.mine():
                continue
            if ctx.out_of_time("long streams"):
                break
            chunk = rng.choice([1024, 4096, 65536, 7, 333])
            cuts = sorted(set(min(len(stream) - 1, max(1, c + rng.randint(-3, 3)))
                              for c in range(chunk, len(stream), chunk)))
            check_one(ctx, 10_000 + k, [("long", str(len(stream)), "mixed", False)], stream, "bytes", cuts, None)
    multi_client_tier(ctx)
    if ctx.tier == "thorough" and ctx.shard[0] == 0:
        real_child_tier(ctx)
    ctx.require_reached("sessions")
    ctx.require_reached("cuts_inside_multibyte_char")


def multi_client_tier(ctx):
    """Several StdioClient objects in one process: alive together with their reads interleaved, or one after the
    other where the earlier one stopped in the middle of a line. Each must frame exactly the bytes of its own child."""
    from vf.stdio_harness import run_multi_stdio
    rng = ctx.sub_rng("multi")
    specs = stream_specs(ctx)
    n_cases = 40 if ctx.tier == "quick" else 600
    for k in range(n_cases):
        mode = ("concurrent", "sequential", "overlap")[k % 3]
        n_clients = 2 if k % 5 else 3
        chosen = [specs[rng.randrange(len(specs))] for _ in range(n_clients)]
        if not ctx.mine():
            continue
        if ctx.out_of_time("multi-client sessions"):
            break
        fed: Dict[str, bytes] = {}
        pieces: Dict[str, List[bytes]] = {}
        for ci, spec in enumerate(chosen):
            name = f"c{ci}"
            stream = build_stream(spec)
            sp = special_positions(stream) or list(range(1, len(stream)))
            inner = [c for c in range(1, len(stream)) if stream[c - 1:c] != b"\n"]
            cuts = sorted(set(rng.sample(sp, min(len(sp), rng.randint(1, 4))) + rng.sample(inner, min(len(inner), 2))))
            pcs = cut(stream, cuts)
            if mode != "concurrent" and ci < n_clients - 1 and len(pcs) > 1:
                # this client's child stops mid-line: the last piece is never written
                pcs = pcs[:-1]
            pieces[name] = pcs
            fed[name] = b"".join(pcs)
        script: List[Any] = []
        names = sorted(pieces)
        if mode == "concurrent":
            script += [("open", n) for n in names]
            queue = {n: list(p) for n, p in pieces.items()}
            while any(queue.values()):
                n = rng.choice([n for n in names if queue[n]])
                script += [("feed", n, queue[n].pop(0)), ("settle",)]
        elif mode == "sequential":
            for n in names:
                script.append(("open", n))
                for p in pieces[n]:
                    script += [("feed", n, p), ("settle",)]
                script.append(("close", n))
        else:  # overlap: the next one opens while the previous is still alive and mid-line
            for i, n in enumerate(names):
                script.append(("open", n))
                for p in pieces[n]:
                    script += [("feed", n, p), ("settle",)]
                if i > 0:
                    script.append(("close", names[i - 1]))
        case = {"multi": mode, "spec": [[list(x) for x in sp_] for sp_ in chosen],
                "pieces": {n: [len(p) for p in ps] for n, ps in pieces.items()}, "k": k}
        try:
            res = run_multi_stdio(script, tie_seed=k)
        except Exception as e:  # noqa
            ctx.violation("reader_crashed_harness", f"multi-client session failed: {e!r}", case)
            continue
        ctx.count("multi_client_sessions")
        for n in names:
            exp_read, exp_notes = reference_framing(fed[n])
            read = [norm_any(m) for m in res[n]["read"]]
            ok, why = seq_match(read, exp_read)
            ctx.count("messages_delivered", len(read))
            if not ok:
                ctx.violation("client_affected_by_other_client", f"{mode}: client {n} of {len(names)} in one process "
                              f"delivered a transcript that differs from the framing of its own child's bytes: {why}", case)
            if res[n].get("stdin", b"").strip():
                ctx.violation("unexpected_write_back", f"reader wrote to the child: {res[n]['stdin'][:100]!r}", case)
        ctx.record({"multi": mode, "k": k}, shape=[len(res[n]["read"]) for n in names], nontrivial=True,
                   cls=f"multi:{mode}:{n_clients}",
                   sample={"mode": mode, "clients": len(names), "pieces": case["pieces"],
                           "delivered": {n: len(res[n]["read"]) for n in names}})


def real_child_tier(ctx):
    """A real child os.write()s the stream in chosen pieces with pauses; a spy on the real process
    records the chunk boundaries the parent actually read."""
    import asyncio
    import os
    import sys
    import tempfile
    import anyio
    from chuk_mcp.transports.stdio.stdio_client import StdioClient
    from chuk_mcp.transports.stdio.parameters import StdioParameters
    from vf.core import ROOT

    rng = ctx.sub_rng("real")
    specs = stream_specs(ctx)[:40]
    tmp = tempfile.mkdtemp(prefix="vf_c05_")
    try:
        for sid, spec in enumerate(specs):
            if ctx.out_of_time("real child"):
                break
            stream = build_stream(spec)
            sp = special_positions(stream)
            cuts = sorted(rng.sample(sp, min(len(sp), rng.randint(1, 5)))) if sp else []
            path = os.path.join(tmp, f"s{sid}.bin")
            with open(path, "wb") as f:
                f.write(stream)
            boundaries: List[int] = []

            async def main():
                read_items, note_items = [], []
                params = StdioParameters(command=sys.executable,
                                         args=["-B", os.path.join(ROOT, "children", "chunk_writer.py"), path,
                                               ",".join(map(str, cuts))], env=None)
                client = StdioClient(params)
                async with client:
                    # spy: wrap the real stdout to record what the kernel handed over
                    real_stdout = client.process.stdout
                    read, _ = client.get_streams()

                    async def drain(stream_, sink):
                        try:
                            async for m in stream_:
                                sink.append(m)
                        except Exception:
                            pass
                    async with anyio.create_task_group() as tg:
                        tg.start_soon(drain, read, read_items)
                        tg.start_soon(drain, client.notifications, note_items)
                        with anyio.move_on_after(10):
                            await client.process.wait()
                        await anyio.sleep(0.2)
                        tg.cancel_scope.cancel()
                return read_items, note_items

            try:
                read_items, note_items = anyio.run(main)
            except Exception as e:  # noqa
                ctx.inconclusive_because(f"real child tier failed: {e!r}")
                return
            exp_read, exp_notes = reference_framing(stream)
            read = [norm_any(m) for m in read_items]
            ok, why = seq_match(read, exp_read)
            case = {"spec": [list(s) for s in spec], "mode": "real_child", "cuts": cuts}
            ctx.count("real_child_sessions")
            if not ok:
                ctx.violation("real_child_transcript_differs", f"real child: {why}", case)
            ctx.record({"stream": sid, "mode": "real", "cuts": cuts}, shape=len(read), cls="real_child")
    finally:
        import shutil
        shutil.rmtree(tmp, ignore_errors=True)


def replay(ctx, case):
    if "multi" in case:
        ctx.notes.append("multi-client cases are regenerated from the seed: re-running the multi-client tier")
        multi_client_tier(ctx)
        return
    spec = [tuple(s) for s in case["spec"]]
    if spec and spec[0][0] in ("long", "undrained"):
        ctx.notes.append("long-stream replays are re-generated by the thorough run; not replayable standalone")
        return
    stream = build_stream(spec)
    base = None
    try:
        r, n, alive, _, _l = transcript(stream, "bytes", [])
        base = (r, n) if alive else None
    except Exception:
        pass
    check_one(ctx, 0, spec, stream, case["mode"], case["cuts"], base)
    ctx.record({"x": 1}, shape=1)
