"""C10 - typed protocol models are lossless views of the wire and use wire names."""
from __future__ import annotations

import inspect
import json
import os
import pickle
import shutil
import subprocess
import tempfile
import typing
from typing import Any, Dict, List

from vf import modelgen
from vf.core import PY, ROOT, child_env
from vf.props.c09 import run_workers
from vf.ref import tagged

ID = "C10"
LEVEL = "exploration"
SHARDS = {"quick": 1, "thorough": 8}
BUDGET_S = {"quick": 120.0, "thorough": 900.0}
TECHNIQUE = ("runtime monitoring: validate->dump round trip of generated wire objects under both backends (worker "
             "processes) checked for losslessness; sentinel values pushed through every discovered library-side serialiser "
             "and the key they leave under recorded")
LEVEL_TEXT = ("For every McpPydanticBase subclass discovered under chuk_mcp.protocol, type-directed valid wire objects with "
              "random extra members and every alias populated are validated and dumped with wire names under each backend; "
              "every input member must come back deep type-strictly equal and every added member must be a declared default. "
              "Every function/method in the package whose parameter type mentions a model with an aliased field is found by "
              "introspection and driven with an instance carrying a unique sentinel in each aliased field; the sentinel must "
              "leave under the wire name."
              " The exclude_none dump (the wire form) must keep everything inside untyped payloads, nulls included."
              " Part C: initialize / tools/list / resources/list results compared with the server's typed configuration under both backends."
              ' Also the pinned specification examples (must validate and come back whole), unknown members spelled like the Python name of an aliased field, and (part D) typed models inside messages written through the stdio, SSE and Streamable HTTP transports, decoded at the peer.')
LEVEL_NOTE = ("Trusted: generator's notion of spec-valid; int for a declared-float field compares numerically. Serialisers "
              "that need further required arguments the harness cannot synthesise are listed in evidence as not driven.")
RULE = ("A: case = (model class, wire object, backend); non-trivial = object has >=1 member. B: case = (serialiser, model "
        "class, backend). distinct = hash(case).")
ASSUMPTIONS = ["exclude_none=True dumps: an input member whose value is null inside an Any/Dict payload must survive; "
               "declared-optional members are never sent as null by the generator"]

SENT = "__vf_sentinel__"


def lossless_diff(inp: Any, out: Any, path: str = "") -> str:
    """'' if every member of inp is in out, deep type-strictly equal (ints numerically equal floats)."""
    if isinstance(inp, dict):
        if not isinstance(out, dict):
            return f"{path}: object became {type(out).__name__}"
        for k, v in inp.items():
            if k not in out:
                return f"{path}.{k}: member lost (input value {v!r})"
            d = lossless_diff(v, out[k], f"{path}.{k}")
            if d:
                return d
        return ""
    if isinstance(inp, list):
        if not isinstance(out, list) or len(inp) != len(out):
            return f"{path}: list of {len(inp)} became {out!r}"[:200]
        for i, (a, b) in enumerate(zip(inp, out)):
            d = lossless_diff(a, b, f"{path}[{i}]")
            if d:
                return d
        return ""
    if isinstance(inp, bool) or isinstance(out, bool) or inp is None or isinstance(inp, str):
        return "" if tagged(inp) == tagged(out) else f"{path}: {inp!r} ({type(inp).__name__}) became {out!r} ({type(out).__name__})"
    if isinstance(inp, (int, float)) and isinstance(out, (int, float)):
        return "" if inp == out else f"{path}: {inp!r} became {out!r}"
    return "" if tagged(inp) == tagged(out) else f"{path}: {inp!r} became {out!r}"


def _model_variants(ann) -> List[type]:
    from chuk_mcp.protocol.mcp_pydantic_base import McpPydanticBase
    out = []
    if inspect.isclass(ann) and issubclass(ann, McpPydanticBase):
        out.append(ann)
    for a in typing.get_args(ann):
        out += _model_variants(a)
    return out


def added_members(cls, inp: Dict[str, Any], out: Dict[str, Any], path: str = "") -> List[str]:
    """Members present in `out` but not in `inp` that are not a declared default of the model they sit in.
    Recurses along the declared types: inside a model-typed member the nested model's defaults are allowed,
    inside plain dict / list / Any payloads nothing may be added at all."""
    bad: List[str] = []
    hints = modelgen._hints(cls)
    fields = {(modelgen.SPEC_WIRE_NAMES.get(a) or f.alias or a): (a, f) for a, f in cls.model_fields.items()}
    for k, v in out.items():
        af = fields.get(k)
        if k not in inp:
            if af is None:
                bad.append(f"{path}.{k}={v!r} (not a declared field)")
                continue
            f = af[1]
            default = f.default if f.default_factory is None else f.default_factory()
            if hasattr(default, "model_dump"):
                default = default.model_dump(by_alias=True, exclude_none=True)
            if tagged(default) != tagged(v) and not (isinstance(default, (int, float)) and default == v):
                bad.append(f"{path}.{k}={v!r} (declared default {default!r})")
            continue
        ann = hints.get(af[0]) if af else None
        variants = _model_variants(ann) if ann is not None else []
        bad += _added_in_value(variants, inp[k], v, f"{path}.{k}")
    return bad


def _added_in_value(variants: List[type], iv: Any, ov: Any, path: str) -> List[str]:
    if isinstance(iv, dict) and isinstance(ov, dict):
        if variants:
            results = [added_members(c, iv, ov, path) for c in variants]
            return min(results, key=len)
        extra = [k for k in ov if k not in iv]
        bad = [f"{path}.{k}={ov[k]!r} (added inside an untyped payload)" for k in extra]
        for k in iv:
            if k in ov:
                bad += _added_in_value([], iv[k], ov[k], f"{path}.{k}")
        return bad
    if isinstance(iv, list) and isinstance(ov, list) and len(iv) == len(ov):
        bad = []
        for i, (a, b) in enumerate(zip(iv, ov)):
            bad += _added_in_value(variants, a, b, f"{path}[{i}]")
        return bad
    return []


def payload_loss(cls, inp: Dict[str, Any], out: Dict[str, Any], path: str = "") -> str:
    """The exclude_none dump (the form the library puts on the wire) may drop null-valued *members of a model*;
    everything inside untyped payloads (dict / list / Any: tool arguments, _meta, schemas, results) must come out
    exactly as it went in, nulls included.  Recurses along the declared types; '' when nothing was lost."""
    hints = modelgen._hints(cls)
    fields = {(modelgen.SPEC_WIRE_NAMES.get(a) or f.alias or a): a for a, f in cls.model_fields.items()}
    for k, v in inp.items():
        if v is None:
            continue
        if k not in out:
            return f"{path}.{k}: member lost under exclude_none (input value {v!r})"
        ann = hints.get(fields[k]) if k in fields else None
        d = _payload_loss_value(_model_variants(ann) if ann is not None else [], v, out[k], f"{path}.{k}")
        if d:
            return d
    return ""


def _payload_loss_value(variants: List[type], iv: Any, ov: Any, path: str) -> str:
    if variants and isinstance(iv, dict) and isinstance(ov, dict):
        results = [payload_loss(c, iv, ov, path) for c in variants]
        return min(results, key=len)
    if variants and isinstance(iv, list) and isinstance(ov, list) and len(iv) == len(ov):
        for i, (a, b) in enumerate(zip(iv, ov)):
            d = _payload_loss_value(variants, a, b, f"{path}[{i}]")
            if d:
                return d
        return ""
    return lossless_diff(iv, ov, path)


def sentinel_wires() -> Dict[str, Dict[str, Any]]:
    """For every model that (transitively) holds an aliased field: a valid wire object with a sentinel in each."""
    from chuk_mcp.protocol.mcp_pydantic_base import McpPydanticBase
    import random
    models = modelgen.discover_models()
    g = modelgen.Gen(random.Random(1))
    aliased = {c for c in models.values() if any(f.alias and f.alias != a for a, f in c.model_fields.items())}

    def mentions(ann, depth=0) -> bool:
        if depth > 6:
            return False
        if inspect.isclass(ann) and issubclass(ann, McpPydanticBase):
            if ann in aliased:
                return True
            return any(mentions(h, depth + 1) for h in modelgen._hints(ann).values())
        return any(mentions(a, depth + 1) for a in typing.get_args(ann))

    def build(cls, depth=0) -> Dict[str, Any]:
        obj = g.full(cls)
        for attr, wire, ann, req in g.fields(cls):
            f = cls.model_fields[attr]
            if f.alias and f.alias != attr:
                obj[wire] = {SENT: f"{cls.__name__}.{attr}->{wire}"}
            elif depth < 4 and mentions(ann):
                obj[wire] = build_ann(ann, depth + 1)
        return obj

    def build_ann(ann, depth):
        if inspect.isclass(ann) and issubclass(ann, McpPydanticBase):
            return build(ann, depth)
        origin, args = typing.get_origin(ann), typing.get_args(ann)
        if origin in (list, typing.List):
            return [build_ann(args[0], depth)]
        if origin is typing.Union:
            for a in args:
                if a is not type(None) and mentions(a):
                    return build_ann(a, depth)
        return None

    return {path: build(c) for path, c in models.items() if mentions(c)}


def run_serialiser_workers(wires):
    tmp = tempfile.mkdtemp(prefix="vf_ser_")
    try:
        inp = os.path.join(tmp, "in.pkl")
        pickle.dump(wires, open(inp, "wb"))
        outs = {}
        for b in ("pydantic", "fallback"):
            env = child_env()
            env.pop("MCP_FORCE_FALLBACK", None)
            r = subprocess.run([PY, "-B", "-m", "vf.workers.serialiser_worker", b, inp, os.path.join(tmp, b + ".pkl")],
                               env=env, cwd=ROOT, capture_output=True, text=True, timeout=600)
            if r.returncode != 0:
                raise RuntimeError(f"{b} serialiser worker failed: {r.stderr[-600:]}")
            outs[b] = pickle.load(open(os.path.join(tmp, b + ".pkl"), "rb"))
        return outs
    finally:
        shutil.rmtree(tmp, ignore_errors=True)


def server_result_tier(ctx):
    """Part C: the typed objects a server was configured with, as the handler serialises them into results:
    initialize (capabilities, serverInfo), tools/list, resources/list - under both backends."""
    caps_pool = [
        {"tools": {"listChanged": True}},
        {"logging": {}, "completions": {}, "prompts": {}, "tools": {}, "resources": {}},          # flag-less = advertised
        {"resources": {"subscribe": False, "listChanged": False}, "prompts": {"listChanged": False}},
        {"experimental": {"x": {}, "y": {"deep": [None, 0, False, ""]}}, "x-vendor": {}, "x-other": {"a": None}},
        {},
        {"tools": {"listChanged": None}, "logging": None},
    ]
    infos = [{"name": "n", "version": "v"}, {"name": "", "version": "0", "title": ""}, {"name": "\u00fc\U0001f600", "version": "1", "x-extra": {"k": []}}]
    init_cases = [(c, infos[i % len(infos)]) for i, c in enumerate(caps_pool)]
    tool_sets = [
        [{"name": "a", "schema": {}, "description": ""},
         {"name": "b", "schema": {"type": "object", "properties": {}, "required": [], "additionalProperties": False}, "description": "d"},
         {"name": "\u00e9 t", "schema": {"type": "object", "properties": {"x": {"default": None, "enum": [0, False, "", None]}}, "_meta": {"k": {}}},
          "description": "l\u2028s"}],
        [],
    ]
    res_sets = [[{"uri": "file:///a", "name": "", "description": "", "mime_type": "text/plain"},
                 {"uri": "file:///b c", "name": "n\u00e9", "description": "d", "mime_type": ""}], []]
    tmp = tempfile.mkdtemp(prefix="vf_c10c_")
    outs = {}
    try:
        inp = os.path.join(tmp, "in.pkl")
        pickle.dump({"init": init_cases, "tools": tool_sets, "resources": res_sets}, open(inp, "wb"))
        for b in ("pydantic", "fallback"):
            env = child_env()
            env.pop("MCP_FORCE_FALLBACK", None)
            if b == "fallback":
                env["MCP_FORCE_FALLBACK"] = "1"
            r = subprocess.run([PY, "-B", "-m", "vf.workers.server_result_worker", inp, os.path.join(tmp, b + ".pkl")],
                               env=env, cwd=ROOT, capture_output=True, text=True, timeout=300)
            if r.returncode != 0:
                ctx.inconclusive_because(f"server result worker ({b}) failed: {r.stderr[-300:]}")
                return
            outs[b] = pickle.load(open(os.path.join(tmp, b + ".pkl"), "rb"))
    finally:
        shutil.rmtree(tmp, ignore_errors=True)
    if outs["pydantic"]["pydantic_available"] is not True or outs["fallback"]["pydantic_available"] is not False:
        ctx.inconclusive_because("backend selection not effective in the server result workers")
        return
    # the names a server may use for its capabilities are pinned from the MCP schema (2025-03-26 / 2025-06-18), not read
    # from the model under test
    SPEC_SERVER_CAPABILITIES = {"experimental", "logging", "completions", "prompts", "resources", "tools"}
    for b in ("pydantic", "fallback"):
        it = outs[b].get("init_typed")
        if not it or it[0] != "ok":
            ctx.inconclusive_because(f"typed server configuration could not be driven ({b}): {it}")
            continue
        ctx.count("typed_server_configurations")
        fields, w, text = it[1], it[2], it[3]
        caps = ((w or {}).get("result") or {}).get("capabilities") or {}
        import json as _json
        caps_as_sent = ((_json.loads(text) or {}).get("result") or {}).get("capabilities") or {}
        for label, cc in (("by_alias dump of the answer", caps), ("answer as serialised for the wire", caps_as_sent)):
            bad = sorted(k for k in cc if k not in SPEC_SERVER_CAPABILITIES)
            if bad:
                ctx.violation("python_name_on_wire", f"a server configured with the typed capabilities {fields} ({b}) answers initialize "
                              f"with capabilities {sorted(cc)} ({label}): {bad} is not a capability name of the MCP schema "
                              f"({sorted(SPEC_SERVER_CAPABILITIES)})", {"typed_server_capabilities": fields, "backend": b})
                break
        ctx.record({"typed_server_capabilities": fields, "backend": b}, shape=sorted(caps_as_sent), nontrivial=True,
                   cls="server_result:typed_capabilities")

    def strip_nulls(v):
        # the handler dumps with exclude_none: null-valued members of the typed objects may be left out
        if isinstance(v, dict):
            return {k: strip_nulls(x) for k, x in v.items() if x is not None}
        return v
    for b in ("pydantic", "fallback"):
        for (caps, info), (st, resp) in zip(init_cases, outs[b]["init"]):
            case = {"server_result": "initialize", "capabilities": caps, "serverInfo": info, "backend": b}
            ctx.count("server_results_checked")
            if st != "ok" or not isinstance(resp, dict) or "result" not in resp:
                ctx.violation("result_builder_failed", f"initialize ({b}): {resp!r}", case)
                continue
            got = resp["result"]
            for member, given in (("capabilities", caps), ("serverInfo", info)):
                want = {k: v for k, v in given.items() if v is not None}
                d = lossless_diff({k: (strip_nulls(v) if member == "capabilities" and isinstance(v, dict) and k not in ("experimental",) and not k.startswith("x-") else v)
                                   for k, v in want.items()}, got.get(member))
                if d:
                    ctx.violation("configured_member_lost_in_result", f"initialize result ({b}): {member}{d}; configured {given!r}, "
                                  f"sent {got.get(member)!r}", case)
            ctx.record(case, shape=sorted((got.get("capabilities") or {}).keys()), cls=f"server_result:initialize:{b}")
        for tools, (st, resp) in zip(tool_sets, outs[b]["tools"]):
            case = {"server_result": "tools/list", "tools": tools, "backend": b}
            ctx.count("server_results_checked")
            listed = ((resp or {}).get("result") or {}).get("tools") if st == "ok" and isinstance(resp, dict) else None
            if listed is None or len(listed) != len(tools):
                ctx.violation("result_builder_failed", f"tools/list ({b}): {resp!r}", case)
                continue
            for t, l in zip(tools, listed):
                d = lossless_diff({"name": t["name"], "inputSchema": t["schema"]}, l)
                if not d and t["description"] and l.get("description") != t["description"]:
                    d = f".description: {t['description']!r} became {l.get('description')!r}"
                if d:
                    ctx.violation("configured_member_lost_in_result", f"tools/list ({b}): tool {t['name']!r}{d}; sent {l!r}", case)
            ctx.record(case, shape=len(listed), cls=f"server_result:tools:{b}")
        for ress, (st, resp) in zip(res_sets, outs[b]["resources"]):
            case = {"server_result": "resources/list", "resources": ress, "backend": b}
            ctx.count("server_results_checked")
            listed = ((resp or {}).get("result") or {}).get("resources") if st == "ok" and isinstance(resp, dict) else None
            if listed is None or len(listed) != len(ress):
                ctx.violation("result_builder_failed", f"resources/list ({b}): {resp!r}", case)
                continue
            for r_, l in zip(ress, listed):
                if l.get("uri") != r_["uri"] or (r_["name"] and l.get("name") != r_["name"]):
                    ctx.violation("configured_member_lost_in_result", f"resources/list ({b}): {r_!r} sent as {l!r}", case)
            ctx.record(case, shape=len(listed), cls=f"server_result:resources:{b}")


def wire_names_tier(ctx):
    """Part D: typed models inside messages, as the three client transports put them on the wire."""
    from vf.ref import strict_eq
    tmp = tempfile.mkdtemp(prefix="vf_c10d_")
    try:
        outs = {}
        for b in ("pydantic", "fallback"):
            env = child_env()
            env.pop("MCP_FORCE_FALLBACK", None)
            if b == "fallback":
                env["MCP_FORCE_FALLBACK"] = "1"
            r = subprocess.run([PY, "-B", "-m", "vf.workers.wire_names_worker", os.path.join(tmp, b + ".pkl")],
                               env=env, cwd=ROOT, capture_output=True, text=True, timeout=600)
            if r.returncode != 0:
                ctx.inconclusive_because(f"wire-names worker ({b}) failed: {r.stderr[-300:]}")
                return
            outs[b] = pickle.load(open(os.path.join(tmp, b + ".pkl"), "rb"))
    finally:
        shutil.rmtree(tmp, ignore_errors=True)
    if outs["pydantic"]["pydantic_available"] is not True or outs["fallback"]["pydantic_available"] is not False:
        ctx.inconclusive_because("backend selection not effective in the wire-names workers")
        return
    for b, o in outs.items():
        for carrier in ("stdio", "http", "sse"):
            got = o.get(carrier)
            if got is None:
                ctx.inconclusive_because(f"wire-names worker ({b}) could not drive {carrier}: {o.get(carrier + '_error') or o.get('http_error')}")
                continue
            cases = o["cases"]
            if len(got) != len(cases):
                ctx.violation("typed_message_not_written", f"{carrier} ({b}): {len(got)} messages reached the peer for {len(cases)} "
                              f"written (a message holding a typed model was dropped)", {"carrier": carrier, "backend": b})
                continue
            for (label, exp), wire in zip(cases, got):
                ctx.count("typed_messages_on_the_wire")
                case = {"carrier": carrier, "backend": b, "message": label}
                if not strict_eq(wire, exp):
                    text = json.dumps(wire)
                    mech = "python_name_on_wire" if ('"meta"' in text or '"schema_"' in text) else "typed_member_altered_on_wire"
                    ctx.violation(mech, f"{label} written through the {carrier} transport ({b}) reached the peer as {text[:300]}; "
                                  f"with wire names it is {json.dumps(exp)[:300]}", case)
                ctx.record(case, shape=None, nontrivial=True, cls=f"wire_names:{carrier}:{b}", sample={"case": case, "wire": wire})
    ctx.require_reached("typed_messages_on_the_wire")


def run(ctx):
    if ctx.shard[0] == 0:
        server_result_tier(ctx)
        wire_names_tier(ctx)
    rng = ctx.sub_rng("c10")
    cases, per_class = modelgen.build_cases(rng, ctx.tier)
    models = modelgen.discover_models()
    from vf import spec_examples
    cases = cases + spec_examples.cases()
    mine = [c for c in cases if ctx.mine()]
    ctx.extra["model_classes_discovered"] = len(per_class)
    try:
        outs = run_workers(mine)
    except Exception as e:  # noqa
        ctx.inconclusive_because(f"workers failed: {e!r}")
        return
    if outs["pydantic"]["pydantic_available"] is not True or outs["fallback"]["pydantic_available"] is not False:
        ctx.inconclusive_because("backend selection not effective")
        return
    for backend in ("pydantic", "fallback", "pydantic_rev", "fallback_rev"):
        for c, r in zip(mine, outs[backend]["reports"]):
            cls = models[c["cls"]]
            case = dict(c, backend=backend)
            if not r.get("ok"):
                ctx.count("rejected_by_" + backend)
                if c.get("kind") == "spec_example":
                    ctx.count("spec_examples_validated")
                    ctx.violation(f"spec_example_rejected:{cls.__name__}@{c['cls'].split(':')[0].split('.')[-2]}:{c['tag']}",
                                  f"{c['cls']} ({backend}): example #{c['example']} from the 2025-06-18 specification "
                                  f"{str(c['wire'])[:160]} does not validate: {str(r.get('err'))[:200]}", case)
                continue
            if c.get("kind") == "spec_example":
                ctx.count("spec_examples_validated")
            ctx.count("round_trips")
            if "dump_full" not in r:
                shadow = sorted(set(c["wire"]) & modelgen.API_NAMES)
                if shadow and backend.startswith("fallback") and "not callable" in str(r.get("dump_full_err")):
                    ctx.violation("api_named_extra_member_shadows_method_under_fallback",
                                  f"{cls.__name__} ({backend}): extra member(s) {shadow}: {r.get('dump_full_err')}", case)
                else:
                    ctx.violation("dump_failed", f"{cls.__name__} ({backend}): {r.get('dump_full_err')}", case)
                continue
            full = r["dump_full"]
            d = lossless_diff(c["wire"], full)
            py_named = [a for a, f in cls.model_fields.items() if f.alias and f.alias != a and a in c["wire"]]
            if py_named:
                # an unknown wire member that is spelled like the Python name of an aliased field: judged on losslessness
                # alone, under its own mechanism (every other comparison below would only restate the same confusion)
                ctx.count("python_named_member_cases")
                if d:
                    both = all(cls.model_fields[a].alias in c["wire"] for a in py_named)
                    mech = ("python_named_member_next_to_aliased_member_lost" if both else "python_named_member_renamed_to_alias")
                    if both and not backend.startswith("fallback"):
                        mech += "_under_pydantic"
                    ctx.violation(mech, f"{cls.__name__} ({backend}): wire object carries the unknown member(s) {py_named} "
                                  f"({'next to' if both else 'without'} the aliased member): {d}", case)
                ctx.record({"cls": c["cls"], "wire": c["wire"], "backend": backend}, shape=None, nontrivial=True,
                           cls=f"{backend}:{cls.__name__}:py_named")
                continue
            if False:
                pass
            elif d:
                declared = {(f.alias or a) for a, f in cls.model_fields.items()} | set(cls.model_fields)
                top = d.lstrip(".").split(".")[0].split("[")[0].split(":")[0]
                if "member lost" in d and top in r.get("dump_plain", {}) is False:
                    pass
                if "member lost" in d:
                    mech = "unknown_member_lost" if top not in declared else "declared_member_lost"
                    # was it only renamed to the python attribute name?
                    attr_names = {a for a, f in cls.model_fields.items() if f.alias and (f.alias == top)}
                    if attr_names and any(a in full for a in attr_names):
                        mech = "alias_not_used_in_dump"
                else:
                    mech = "member_value_altered"
                ctx.violation(mech, f"{cls.__name__} ({backend}): {d}", case)
            for attr, val in (r.get("attrs") or {}).items():
                wname = modelgen.SPEC_WIRE_NAMES[attr]
                if wname in c["wire"] and tagged(val) != tagged(c["wire"][wname]):
                    ctx.violation("aliased_member_not_in_typed_view", f"{cls.__name__} ({backend}): wire member {wname!r}="
                                  f"{c['wire'][wname]!r} is not what attribute {attr!r} shows ({val!r})", case)
            if "dump" in r:
                ctx.count("exclude_none_dumps_checked")
                d = payload_loss(cls, c["wire"], r["dump"])
                if d:
                    ctx.violation("payload_null_or_member_lost_under_exclude_none", f"{cls.__name__} ({backend}): {d}", case)
            extra = added_members(cls, c["wire"], full)
            if extra:
                ctx.violation("member_invented", f"{cls.__name__} ({backend}): dump adds {extra}", case)
            ctx.record({"cls": c["cls"], "wire": c["wire"], "backend": backend}, shape=None, nontrivial=bool(c["wire"]),
                       cls=f"{backend}:{cls.__name__}", sample={"cls": c["cls"], "backend": backend, "wire": c["wire"],
                                                                 "dump": full})
    # ---- B: serialisers --------------------------------------------------------------------
    if ctx.shard[0] == 0:
        wires = sentinel_wires()
        ctx.extra["models_holding_aliases"] = sorted(p.split(":")[1] for p in wires)
        try:
            souts = run_serialiser_workers(wires)
        except Exception as e:  # noqa
            ctx.inconclusive_because(f"serialiser workers failed: {e!r}")
            return
        ctx.extra["serialisers_discovered"] = sorted(set(souts["pydantic"]["discovered"]))
        not_driven = []
        for backend in ("pydantic", "fallback"):
            for rec in souts[backend]["results"]:
                case = {"serialiser": rec["fn"], "param": rec["param"], "cls": rec["cls"], "backend": backend}
                if "error" in rec:
                    not_driven.append(f"{rec['fn']}({rec['cls'].split(':')[1]}): {rec['error']}")
                    continue
                ctx.count("serialiser_calls")
                ctx.count("sentinels_seen", len(rec["sentinels"]))
                for path, label in rec["sentinels"]:
                    want = label.split("->")[1]
                    got = next((p for p in reversed(path) if isinstance(p, str)), None)
                    if got != want:
                        ctx.violation("python_name_on_wire", f"{rec['fn']} ({backend}): {label.split('->')[0]} left the "
                                      f"serialiser under key {got!r} (path {path}), wire name is {want!r}", case)
                if rec["outputs"] and not rec["sentinels"]:
                    # the serialiser produced output but the aliased member vanished altogether
                    ctx.violation("aliased_member_dropped", f"{rec['fn']} ({backend}): no aliased member of "
                                  f"{rec['cls'].split(':')[1]} appears in its output", case)
                ctx.record(case, shape=[list(map(str, p)) for p, _ in rec["sentinels"]], cls="serialiser:" + backend,
                           sample={"serialiser": rec["fn"], "cls": rec["cls"], "backend": backend,
                                   "sentinel_paths": [list(map(str, p)) for p, _ in rec["sentinels"]]})
        ctx.extra["serialisers_not_driven"] = sorted(set(not_driven))
        ctx.require_reached("serialiser_calls")
        ctx.require_reached("sentinels_seen")
    ctx.require_reached("round_trips")


def replay(ctx, case):
    if "serialiser" in case:
        import vf.props.c10 as me
        om = modelgen.build_cases
        modelgen.build_cases = lambda r, t: ([{"kind": "model", "cls": case["cls"], "wire": {}}], {case["cls"]: 1})
        try:
            run(ctx)
        finally:
            modelgen.build_cases = om
    else:
        om = modelgen.build_cases
        c = {"kind": "model", "cls": case["cls"], "wire": case["wire"]}
        modelgen.build_cases = lambda r, t: ([c], {case["cls"]: 1})
        try:
            run(ctx)
        finally:
            modelgen.build_cases = om
    ctx.record({"x": 1}, shape=1)
    ctx.record({"x": 2}, shape=1)
