"""C02 - everything emitted is valid JSON-RPC 2.0 and survives the library's own parser."""
from __future__ import annotations

import asyncio
import importlib
import inspect
import json
import pkgutil
import typing
from typing import Any, Dict, List, Optional, Tuple

import anyio

from vf import gen
from vf.props.c01 import synth_args, HELPER_RESULTS
from vf.ref import classify, strict_eq, tagged, msg_to_wire
from vf.vloop import run_virtual, HangDetected

ID = "C02"
LEVEL = "exploration"
BACKENDS = ["pydantic", "fallback"]   # every case is executed under both validation backends
LOGLEVELS = ["default", "debug"]   # every case also runs with the root logger at DEBUG (as --verbose does)
SHARDS = {"quick": 4, "thorough": 16}
BUDGET_S = {"quick": 100.0, "thorough": 900.0}
TECHNIQUE = ("runtime monitoring: every object produced by every discovered emitter (constructors, send_* helpers, "
             "notification senders, server handler, batch error builders, elicitation/roots builders, transports' wire "
             "forms) is captured and decided by an independent JSON-RPC 2.0 validator plus a parse_message round-trip oracle")
LEVEL_TEXT = ("Emitters are enumerated by introspection of the package; each is driven with JSON payloads (bounded-exhaustive "
              "small JSON incl. nested nulls, empty containers, 64-bit boundary ints, floats, control/line-separator/astral "
              "characters; seeded deep JSON) and ids (ints incl. 0, negatives, 2^63..2^64-1; strings incl. empty and digit "
              "strings). The stdlib-decoded emitted form must be valid JSON-RPC 2.0 and parse_message of it must give the "
              "same kind with type-strictly equal id, method, params, result and error. Wire forms are captured at the stdio "
              "child's stdin and at the HTTP/SSE POST bodies."
              ' Also envelope classes instantiated directly (relying on declared defaults) through every wire form.'
              ' Also whatever the server handler answers to id-less messages.'
              ' Also two requests built from one params dict with their own progress tokens, and error objects that are not error objects given to every constructor (refused or emitted valid).'
              ' Also every notification sender called for all its argument variants in a row on one write stream, the messages taken off only afterwards (an emitted message must not change after it was handed over), and a null _meta with a progress token.'
              ' Also wide, shallow payloads with hundreds of empty containers and a 100-level payload.'
              ' Also the stdio wire form of every message under each protocol version recorded on the client (none, 2024-11-05, 2025-03-26, 2025-06-18), bursts from several senders on one write stream, payloads with hundreds of empty containers.'
              ' Also payloads nested 350 and 600 levels through every constructor.'
              " Also payloads whose member names mean something to the implementation (meta, schema_, the envelope's own member names).")
LEVEL_NOTE = ("Trusted: vf/ref.py validator; emitters that could not be driven are listed in evidence. id:null is tolerated "
              "only on the batch-rejection error (request id undeterminable).")
RULE = ("case = (emitter, payload, id). Non-trivial: payload or id is not the trivial default; distinct = hash(emitter, "
        "payload, id).")
ASSUMPTIONS = ["payload dict keys are strings; integers fit in 64 bits"]


def payload_objects(ctx) -> List[Dict[str, Any]]:
    """JSON objects used as params/result."""
    rng = ctx.sub_rng("c02payload")
    vals = gen.grammar(1 if ctx.tier == "quick" else 2)
    objs: List[Dict[str, Any]] = [{}, {"a": None}, {"a": {"b": None, "c": [None, 1, {"d": None}]}},
                                  # wide, shallow payloads: hundreds of (empty) containers next to each other - a tool list
                                  # of parameter-less tools, records with empty tag lists
                                  {"rows": [{} for _ in range(300)], "tags": [[] for _ in range(300)]},
                                  {"tools": [{"name": f"t{i}", "inputSchema": {"type": "object", "properties": {}, "required": []}}
                                             for i in range(260)]},
                                  {"wide": {f"k{i}": {"v": [i, None]} for i in range(400)}},
                                  # and a moderately deep one (well inside every backend's limits)
                                  {"deep": gen.nest({"leaf": None}, 100, rng)},
                                  # ... and deeper ones, still inside what both validation backends represent
                                  {"deep": gen.nest({"leaf": None}, 350, rng)}, {"deep": gen.nest({"leaf": 1}, 600, rng)}]
    # member names that mean something to the implementation (Python names of aliased fields, envelope member names) are
    # ordinary member names inside a payload
    objs += [{"meta": 0}, {"meta": None, "x": 1}, {"meta": {"trace": "abc"}}, {"meta": {"a": 1}, "_meta": {"b": 2}}, {"schema_": {"t": 1}, "schema": None},
             {"jsonrpc": "1.0", "id": "inner", "method": "m", "result": 1, "error": None, "params": []}]
    for v in vals:
        objs.append({"v": v})
    for k in gen.KEYS:
        objs.append({k: "key-test"})
    for _ in range(150 if ctx.tier == "quick" else 3000):
        objs.append(gen.rand_json_object(rng, depth=rng.choice([1, 2, 3, 4])))
    return objs


def result_values(ctx) -> List[Any]:
    return [{}, {"r": None}, [], [1, None], "s", "", 0, 1.5, True, False, 2**63, {"content": [{"type": "text", "text": " "}]}]


def _kind_of(obj: Any) -> str:
    mid, method = getattr(obj, "id", None), getattr(obj, "method", None)
    if method is not None:
        return "request" if mid is not None else "notification"
    if getattr(obj, "error", None) is not None:
        return "error"
    return "response"


def check_emission(ctx, emitter: str, obj: Any, case: Dict[str, Any], *, expect: Optional[Dict[str, Any]] = None,
                   allow_null_id: bool = False, wire: Optional[Any] = None) -> None:
    """Validate one emitted object (library message object, dict or wire text)."""
    from chuk_mcp.protocol.messages.json_rpc_message import parse_message
    ctx.count("emissions")
    ctx.count("emitter:" + emitter)
    try:
        if wire is not None:
            decoded = wire
        elif isinstance(obj, dict):
            decoded = json.loads(json.dumps(obj))
        else:
            try:
                text = obj.model_dump_json(exclude_none=True)
            except ValueError as e:
                if "depth exceeded" not in str(e):
                    raise
                # the typed layer's single-pass JSON writer stops at 255 levels (a limit of that writer, not of the message);
                # the transports' serialisers take the two-pass route then, and so does the check
                text = json.dumps(obj.model_dump(exclude_none=True), ensure_ascii=False)
                ctx.count("emissions_serialised_in_two_passes")
            if "\n" in text or "\r" in text:
                ctx.violation("raw_line_break", f"{emitter}: serialised form contains a raw line break", case)
            decoded = json.loads(text)
            d2 = obj.model_dump(exclude_none=True)
            if tagged(json.loads(json.dumps(d2))) != tagged(decoded):
                ctx.violation("dump_and_dump_json_disagree", f"{emitter}: model_dump {d2!r} vs model_dump_json {decoded!r}", case)
    except Exception as e:  # noqa
        ctx.violation("emission_not_serialisable", f"{emitter}: {e!r}", case)
        return
    kind, why = classify(decoded, allow_null_id_error=allow_null_id)
    if kind is None:
        mech = "invalid_jsonrpc_emitted"
        if isinstance(decoded, dict) and "method" in decoded and "id" in decoded and decoded["id"] is None:
            mech = "notification_with_null_id"
        elif isinstance(decoded, dict) and "id" in decoded and "result" not in decoded and "error" not in decoded \
                and "method" not in decoded:
            mech = "response_without_result"
        ctx.violation(mech, f"{emitter}: emitted {json.dumps(decoded)[:300]} - {why}", case)
        return
    if expect:
        for k, v in expect.items():
            if k == "kind":
                if kind != v:
                    ctx.violation("wrong_kind_emitted", f"{emitter}: emitted a {kind}, expected {v}", case)
            elif k in ("params", "result") and v is None:
                if decoded.get(k) not in (None, {}):
                    ctx.violation("payload_altered", f"{emitter}: {k} {decoded.get(k)!r}, expected none", case)
            elif not strict_eq(decoded.get(k), v):
                mech = "id_altered" if k == "id" else "payload_altered"
                ctx.violation(mech, f"{emitter}: {k} emitted as {decoded.get(k)!r}, given {v!r}", case)
    # round trip through the library's own parser
    if decoded.get("id", 1) is None:
        return
    try:
        back = parse_message(decoded)
    except Exception as e:  # noqa
        ctx.violation("own_parser_rejects_emission", f"{emitter}: parse_message({json.dumps(decoded)[:200]}) raised {e!r}", case)
        return
    bk = _kind_of(back)
    if bk != kind:
        ctx.violation("round_trip_kind_differs", f"{emitter}: emitted {kind}, parsed back as {bk}: {json.dumps(decoded)[:200]}", case)
        return
    for k in ("id", "method", "params", "result", "error"):
        got = getattr(back, k, None)
        want = decoded.get(k)
        if not strict_eq(got, want):
            if want is None and got in (None,):
                continue
            ctx.violation("round_trip_member_differs", f"{emitter}: member {k}: emitted {want!r}, parsed back {got!r}", case)
            break


# ---------------------------------------------------------------------------
def discover_stream_emitters():
    """(helpers with (read_stream, write_stream), senders with write_stream first)."""
    import chuk_mcp.protocol as P
    helpers, senders = {}, {}
    for mi in pkgutil.walk_packages(P.__path__, P.__name__ + "."):
        try:
            mod = importlib.import_module(mi.name)
        except Exception:
            continue
        for name, fn in vars(mod).items():
            if not inspect.iscoroutinefunction(fn) or getattr(fn, "__module__", None) != mod.__name__:
                continue
            ps = list(inspect.signature(fn).parameters)
            if ps[:2] == ["read_stream", "write_stream"]:
                helpers[f"{mod.__name__}.{name}"] = fn
            elif ps[:1] == ["write_stream"]:
                senders[f"{mod.__name__}.{name}"] = fn
    return helpers, senders


def run(ctx):
    from chuk_mcp.protocol.messages import json_rpc_message as J
    payloads = payload_objects(ctx)
    results = result_values(ctx)
    ids = gen.ALL_IDS
    rng = ctx.sub_rng("c02")

    # ---- 1. constructors --------------------------------------------------------------
    n = 0
    for i, p in enumerate(payloads):
        mid = ids[i % len(ids)]
        if not ctx.mine():
            continue
        if ctx.out_of_time("constructors"):
            break
        case = {"payload": p, "id": mid}
        for label, mk, exp in (
            ("create_request", lambda: J.create_request("tools/call", dict(p), id=mid),
             {"kind": "request", "id": mid, "method": "tools/call", "params": p}),
            ("JSONRPCMessage.create_request", lambda: J.JSONRPCMessage.create_request("tools/call", dict(p), id=mid),
             {"kind": "request", "id": mid, "method": "tools/call", "params": p}),
            ("create_notification", lambda: J.create_notification("notifications/x", dict(p)),
             {"kind": "notification", "method": "notifications/x", "params": p}),
            ("JSONRPCMessage.create_notification", lambda: J.JSONRPCMessage.create_notification("notifications/x", dict(p)),
             {"kind": "notification", "method": "notifications/x", "params": p}),
            ("create_response", lambda: J.create_response(mid, dict(p)), {"kind": "response", "id": mid, "result": p}),
            ("JSONRPCMessage.create_response", lambda: J.JSONRPCMessage.create_response(mid, dict(p)),
             {"kind": "response", "id": mid, "result": p}),
            ("create_error_response", lambda: J.create_error_response(mid, -32000 - (i % 50), "m" + str(i), data=dict(p) or None),
             {"kind": "error", "id": mid}),
            ("JSONRPCMessage.create_error_response",
             lambda: J.JSONRPCMessage.create_error_response(mid, -32603, "msg  ", data=p),
             {"kind": "error", "id": mid}),
            ("create_request(progress_token)", lambda: J.create_request("tools/call", dict(p), id=mid, progress_token=mid),
             {"kind": "request", "id": mid}),
            # the classes instantiated directly, relying on every declared default
            ("JSONRPCRequest()", lambda: J.JSONRPCRequest(id=mid, method="tools/call", params=dict(p)),
             {"kind": "request", "id": mid, "method": "tools/call", "params": p}),
            ("JSONRPCNotification()", lambda: J.JSONRPCNotification(method="notifications/x", params=dict(p)),
             {"kind": "notification", "method": "notifications/x", "params": p}),
            ("JSONRPCResponse()", lambda: J.JSONRPCResponse(id=mid, result=dict(p)), {"kind": "response", "id": mid, "result": p}),
            ("JSONRPCError()", lambda: J.JSONRPCError(id=mid, error={"code": -32000, "message": "m"}), {"kind": "error", "id": mid}),
            ("JSONRPCMessage()", lambda: J.JSONRPCMessage(id=mid, method="tools/call", params=dict(p)),
             {"kind": "request", "id": mid, "method": "tools/call", "params": p}),
        ):
            try:
                obj = mk()
            except Exception as e:  # noqa
                ctx.violation("constructor_rejects_valid_input", f"{label}(id={mid!r}, payload={p!r}) raised {e!r}", case)
                continue
            check_emission(ctx, label, obj, dict(case, emitter=label), expect=exp)
        n += 1
        ctx.record(case, shape=None, nontrivial=bool(p), cls="constructors")
    # non-dict results through the typed constructor; params None
    if ctx.shard[0] == 0:
        for r in results:
            for mid in ids:
                case = {"result": r, "id": mid}
                try:
                    obj = J.create_response(mid, r)
                except Exception as e:  # noqa
                    ctx.violation("constructor_rejects_valid_input", f"create_response({mid!r}, {r!r}) raised {e!r}", case)
                    continue
                check_emission(ctx, "create_response(any)", obj, case, expect={"kind": "response", "id": mid, "result": r})
                ctx.record(case, shape=None, cls="constructors_any_result")
        for mid in ids:
            check_emission(ctx, "create_request(no params)", J.create_request("ping", None, id=mid), {"id": mid},
                           expect={"kind": "request", "id": mid, "method": "ping", "params": None})
            check_emission(ctx, "create_response(None)", J.create_response(mid, None), {"id": mid},
                           expect={"kind": "response", "id": mid})
        check_emission(ctx, "create_notification(no params)", J.create_notification("notifications/initialized"), {},
                       expect={"kind": "notification", "method": "notifications/initialized", "params": None})
        check_emission(ctx, "create_request(auto id)", J.create_request("ping"), {}, expect={"kind": "request", "method": "ping"})

        # two requests built from ONE params dict, each with its own progress token, emitted after both exist
        for mk_name, mk in (("create_request", J.create_request), ("JSONRPCMessage.create_request", J.JSONRPCMessage.create_request)):
            for base_p in ({"name": "t"}, {"name": "t", "_meta": {"trace": "x"}}, {"name": "t", "_meta": None}):
                shared = json.loads(json.dumps(base_p))
                import inspect as _inspect
                if "progress_token" not in _inspect.signature(mk).parameters:
                    break      # this builder takes no progress token
                try:
                    a = mk("tools/call", shared, id="a", progress_token="tok-a")
                    b = mk("tools/call", shared, id="b", progress_token="tok-b")
                except Exception as e:  # noqa
                    ctx.violation("constructor_rejects_valid_input", f"{mk_name}(params={base_p!r}, progress_token=...) raised {e!r}",
                                  {"params": base_p, "builder": mk_name})
                    continue
                for obj, tok in ((a, "tok-a"), (b, "tok-b")):
                    want_p = dict(base_p, _meta=dict(base_p.get("_meta") or {}, progressToken=tok))
                    check_emission(ctx, f"{mk_name}(shared params, progress_token)", obj, {"id": obj.id, "params": base_p},
                                   expect={"kind": "request", "id": obj.id, "method": "tools/call", "params": want_p})
                ctx.record({"shared_params": base_p, "builder": mk_name}, shape=None, nontrivial=True, cls="constructors_shared_params")
        # what a constructor does with an error object that is not one: refuse it, or at least never emit it
        for label, mk in (("JSONRPCError(error={})", lambda: J.JSONRPCError(id=1, error={})),
                          ("JSONRPCError(code=True)", lambda: J.JSONRPCError(id=1, error={"code": True, "message": "x"})),
                          ("JSONRPCError(code='1')", lambda: J.JSONRPCError(id=1, error={"code": "1", "message": "x"})),
                          ("JSONRPCError(message=None)", lambda: J.JSONRPCError(id=1, error={"code": 1, "message": None})),
                          ("create_error_response(code=True)", lambda: J.create_error_response(1, True, "x")),
                          ("create_error_response(code=1.5)", lambda: J.create_error_response(1, 1.5, "x")),
                          ("create_error_response(message=5)", lambda: J.create_error_response(1, -32000, 5)),
                          ("JSONRPCMessage.create_error_response(code=False)", lambda: J.JSONRPCMessage.create_error_response(1, False, "x")),
                          ("JSONRPCMessage(error={})", lambda: J.JSONRPCMessage(id=1, error={}))):
            ctx.count("malformed_error_constructions")
            try:
                obj = mk()
            except Exception:
                continue          # refused: nothing is emitted
            check_emission(ctx, label, obj, {"emitter": label}, expect={"kind": "error", "id": 1})
            ctx.record({"malformed_error": label}, shape=None, nontrivial=True, cls="constructors_malformed_error")

    # ---- 2./3. send_* helpers and notification senders --------------------------------
    helpers, senders = discover_stream_emitters()
    ctx.extra["helpers_discovered"] = sorted(h.rsplit(".", 1)[-1] for h in helpers)
    ctx.extra["senders_discovered"] = sorted(h.rsplit(".", 1)[-1] for h in senders)
    not_driven: List[str] = []

    bursts: List[Any] = []

    async def drive_helpers():
        from chuk_mcp.protocol.messages.json_rpc_message import parse_message
        outs = []
        for hname, fn in sorted(helpers.items()):
            kwargs = synth_args(fn)
            variants = [kwargs]
            # vary dict/str arguments with hostile payloads
            for k, v in list(kwargs.items()):
                if isinstance(v, dict) and k not in ("ref", "argument"):
                    for p in rng.sample(payloads, 6):
                        variants.append({**kwargs, k: dict(p)})
                elif isinstance(v, str) and k not in ("level",):
                    for sv in ("", " \n", "\U0001f600", "123"):
                        if k == "uri":
                            sv = "file:///" + sv
                        variants.append({**kwargs, k: sv})
            for kw in variants:
                rs, rr = anyio.create_memory_object_stream(16)
                ws, wr = anyio.create_memory_object_stream(16)
                written = []

                async def server():
                    while True:
                        m = await wr.receive()
                        written.append(m)
                        if getattr(m, "id", None) is not None and getattr(m, "method", None) is not None:
                            res = HELPER_RESULTS.get(m.method)
                            if m.method == "initialize":
                                res = {"protocolVersion": (m.params or {}).get("protocolVersion"), "capabilities": {},
                                       "serverInfo": {"name": "s", "version": "1"}}
                            rs.send_nowait(parse_message({"jsonrpc": "2.0", "id": m.id, "result": res if res is not None else {}}))
                st = asyncio.create_task(server())
                err = None
                try:
                    kw2 = dict(kw)
                    kw2["timeout"] = 1.0
                    if "timeout" not in inspect.signature(fn).parameters:
                        kw2.pop("timeout")
                    await fn(rr, ws, **kw2)
                except BaseException as e:  # noqa
                    if isinstance(e, (KeyboardInterrupt, SystemExit)):
                        raise
                    err = e
                await asyncio.sleep(0.01)
                st.cancel()
                outs.append((hname, kw, list(written), err))
                for s in (rs, rr, ws, wr):
                    s.close()
        for sname, fn in sorted(senders.items()):
            singles = []
            kwargs = synth_args(fn)
            kwargs.pop("timeout", None) if "timeout" not in inspect.signature(fn).parameters else None
            variants = [kwargs]
            for k, v in list(kwargs.items()):
                if k in ("request_id", "progress_token"):
                    for mid in ids:
                        variants.append({**kwargs, k: mid})
                elif isinstance(v, str):
                    for sv in ("", " \n", "\U0001f600"):
                        variants.append({**kwargs, k: sv})
            for kw in variants:
                ws, wr = anyio.create_memory_object_stream(16)
                err = None
                try:
                    await fn(ws, **kw)
                except BaseException as e:  # noqa
                    if isinstance(e, (KeyboardInterrupt, SystemExit)):
                        raise
                    err = e
                written = []
                while True:
                    try:
                        written.append(wr.receive_nowait())
                    except Exception:
                        break
                outs.append((sname, kw, written, err))
                singles.append(msg_to_wire(written[0]) if len(written) == 1 and err is None else None)
                ws.close()
                wr.close()
            # the same calls in a row on ONE write stream whose consumer serialises later (as every transport's writer
            # task does): what is taken off the stream afterwards must be what each call emitted on its own
            if all(w is not None for w in singles) and len(singles) > 1:
                ws, wr = anyio.create_memory_object_stream(len(variants) + 4)
                err = None
                try:
                    for kw in variants:
                        await fn(ws, **kw)
                except BaseException as e:  # noqa
                    if isinstance(e, (KeyboardInterrupt, SystemExit)):
                        raise
                    err = e
                later = []
                while True:
                    try:
                        later.append(msg_to_wire(wr.receive_nowait()))
                    except Exception:
                        break
                bursts.append((sname, singles, later, err))
                ws.close()
                wr.close()
        return outs

    if ctx.shard[0] == 0 or ctx.shard[1] == 1:
        try:
            outs, _ = run_virtual(drive_helpers, max_iterations=2_000_000)
        except HangDetected as e:
            ctx.violation("hang", str(e), {"helpers": True})
            outs = []
        for sname, singles, later, err in bursts:
            short = sname.rsplit(".", 1)[-1]
            ctx.count("sender_bursts")
            case = {"emitter": short, "burst": len(singles)}
            if err is not None or len(later) != len(singles):
                ctx.violation("burst_emission_count", f"{short}: {len(singles)} calls in a row on one write stream put {len(later)} "
                              f"messages on it ({err!r})", case)
            else:
                for k, (a, b) in enumerate(zip(singles, later)):
                    if not strict_eq(a, b):
                        ctx.violation("payload_altered", f"{short}: call #{k} of {len(singles)} in a row on one write stream emitted "
                                      f"{json.dumps(a)[:200]} when made alone, but the message taken off the stream after the later "
                                      f"calls is {json.dumps(b)[:200]} (an emitted message was changed after it was handed over)", case)
                        break
            ctx.record(case, shape=len(later), nontrivial=True, cls="sender_burst")
        for name, kw, written, err in outs:
            short = name.rsplit(".", 1)[-1]
            case = {"emitter": short, "args": kw}
            if not written:
                not_driven.append(f"{short}: wrote nothing ({err!r})"[:160])
                continue
            for m in written:
                is_sender = name in senders
                check_emission(ctx, short, m, case,
                               expect={"kind": "notification"} if is_sender else None)
            ctx.record(case, shape=len(written), cls="helper" if name in helpers else "sender")

    # ---- 4. builders returning messages -------------------------------------------------
    if ctx.shard[0] == 0:
        from chuk_mcp.protocol.messages.roots import send_messages as R
        from chuk_mcp.protocol.features.batching import BatchProcessor

        async def builders():
            outs = []
            roots = [R.Root(uri="file:///a"), R.Root(uri="file:///b c", name=" n")]
            for mid in ids:
                outs.append(("handle_roots_list_request", {"id": mid}, await R.handle_roots_list_request(roots, mid), False))
                mgr = R.RootsManager()
                for r in roots:
                    mgr.add_root(r)
                outs.append(("RootsManager.handle_list_request", {"id": mid}, await mgr.handle_list_request(mid), False))
            for v in (None, "2025-06-18", "2025-03-26"):
                bp = BatchProcessor(v)
                outs.append(("BatchProcessor.create_batch_rejection_error", {"version": v}, bp.create_batch_rejection_error(), True))
                for mid in ids:
                    outs.append(("BatchProcessor.create_batch_rejection_error(id)", {"version": v, "id": mid},
                                 bp.create_batch_rejection_error(mid), False))

                def boom(item):
                    raise RuntimeError("handler failed")
                out = BatchProcessor("2025-03-26").process_message_data(
                    [{"jsonrpc": "2.0", "id": mid, "method": "x"} for mid in ids], boom)
                for o in out or []:
                    outs.append(("BatchProcessor.process_message_data(error)", {"ids": "all"}, o, False))
                out = BatchProcessor("2025-06-18").process_message_data([{"jsonrpc": "2.0", "id": 1, "method": "x"}], boom)
                outs.append(("BatchProcessor.process_message_data(rejected)", {}, out, True))
            # elicitation request
            from chuk_mcp.protocol.types import elicitation as E
            cap = []

            async def send(msg):
                cap.append(msg)
            h = E.ElicitationHandler(send)
            for p in payloads[:30]:
                try:
                    await asyncio.wait_for(h.request_user_input(E.ElicitationParams(message="m  ", schema=dict(p)), timeout=0.01), 0.05)
                except Exception:
                    pass
            for m in cap:
                outs.append(("ElicitationHandler.request_user_input", {}, m, False))
            return outs
        try:
            outs, _ = run_virtual(builders)
        except Exception as e:  # noqa
            outs = []
            not_driven.append(f"builders: {e!r}"[:200])
        for name, case, obj, null_ok in outs:
            if obj is None:
                continue
            check_emission(ctx, name, obj, dict(case, emitter=name), allow_null_id=null_ok,
                           expect={"id": case["id"]} if "id" in case and not null_ok else None)
            ctx.record(dict(case, emitter=name), shape=None, cls="builder")

    # ---- 5. server handler outputs -----------------------------------------------------
    from vf.props import c08
    all8 = list(c08.gen_cases(ctx))
    cases8 = [c for c in all8 if c["has_id"] and ctx.mine()]
    if ctx.tier == "quick":
        cases8 = cases8[::3]
    # whatever the handler answers to an id-less message (it should answer nothing) must still be a valid message
    idless = [c for c in all8 if not c["has_id"] and c["method"] in ("tools/call", "resources/read", "tools/list", "ping",
                                                                       "initialize", "custom/ok", "custom/raise")]
    cases8 += [c for k, c in enumerate(idless) if k % max(1, ctx.shard[1]) == ctx.shard[0]]

    async def handler_batch(cs):
        srv = c08.build_server()
        outs = []
        for case in cs:
            try:
                msg = c08.build_msg(case)
                resp, _ = await srv.protocol_handler.handle_message(msg)
                outs.append((case, resp))
            except Exception:
                continue
        return outs
    try:
        outs, _ = run_virtual(handler_batch, cases8)
    except HangDetected:
        outs = []
    for case, resp in outs:
        if resp is None:
            continue
        check_emission(ctx, "ProtocolHandler.handle_message", resp, case,
                       expect={"id": case["id"]} if case["has_id"] else None)
        ctx.record({"handler_case": case}, shape=None, cls="server_handler")

    # ---- 6. transports' wire forms ------------------------------------------------------
    if ctx.shard[0] == 0:
        wire_forms(ctx, payloads, ids)
    ctx.extra["emitters_not_driven"] = sorted(set(not_driven))
    ctx.require_reached("emissions")


def wire_forms(ctx, payloads, ids):
    """What actually leaves the process: stdio stdin lines, HTTP and SSE POST bodies."""
    from chuk_mcp.protocol.messages import json_rpc_message as J
    from vf.stdio_harness import run_stdio_script
    import httpx
    from vf.http_harness import ScriptedHTTP, TimedByteStream

    msgs = []
    expects = []
    sample = payloads[:40] + payloads[-40:]
    for i, p in enumerate(sample):
        mid = ids[i % len(ids)]
        for mk, exp in ((lambda: J.create_request("tools/call", dict(p), id=mid), {"kind": "request", "id": mid, "params": p}),
                        (lambda: J.create_notification("notifications/x", dict(p)), {"kind": "notification", "params": p}),
                        (lambda: J.JSONRPCMessage.create_notification("notifications/y", dict(p)), {"kind": "notification", "params": p}),
                        (lambda: J.create_response(mid, dict(p)), {"kind": "response", "id": mid, "result": p}),
                        (lambda: J.JSONRPCMessage.create_request("x/y", None, id=mid), {"kind": "request", "id": mid}),
                        (lambda: J.JSONRPCRequest(id=mid, method="tools/call", params=dict(p)), {"kind": "request", "id": mid, "params": p}),
                        (lambda: J.JSONRPCNotification(method="notifications/z", params=dict(p)), {"kind": "notification", "params": p}),
                        (lambda: J.JSONRPCResponse(id=mid, result=dict(p)), {"kind": "response", "id": mid, "result": p}),
                        (lambda: J.JSONRPCMessage(id=mid, method="a/b"), {"kind": "request", "id": mid}),
                        (lambda: J.create_error_response(mid, -32001, "e", data=dict(p) or None), {"kind": "error", "id": mid})):
            try:
                msgs.append(mk())
                expects.append(exp)
            except Exception:
                pass
    # stdio - also with a negotiated version recorded on the client: whatever that version allows the *server* to send,
    # what the client writes is one valid message per line
    for version in (None, "2025-03-26", "2024-11-05", "2025-06-18"):
        steps = ([("version", version)] if version else []) + [("send", m) for m in msgs] + [("settle",)]
        wcase = {"wire": "stdio", "version": version}
        try:
            out = run_stdio_script(steps)
            lines = [l for l in out["stdin_before_exit"].split(b"\n") if l]
            if len(lines) != len(msgs):
                ctx.violation("stdio_line_count", f"{len(lines)} lines for {len(msgs)} messages (version {version!r})", wcase)
            for l, exp in zip(lines, expects):
                try:
                    decoded = json.loads(l.decode("utf-8"))
                except Exception as e:  # noqa
                    ctx.violation("wire_not_json", f"stdio line {l[:80]!r}: {e!r}", wcase)
                    continue
                check_emission(ctx, "wire:stdio", None, dict(wcase, expect=exp), expect=exp, wire=decoded)
            ctx.record(dict(wcase, n=len(msgs)), shape=len(lines), cls="wire")
        except Exception as e:  # noqa
            ctx.notes.append(f"stdio wire form not driven: {e!r}"[:200])

    # http + sse
    async def http_main():
        from chuk_mcp.transports.http.http_client import http_client
        from chuk_mcp.transports.http.parameters import StreamableHTTPParameters
        from chuk_mcp.transports.sse.sse_client import sse_client
        from chuk_mcp.transports.sse.parameters import SSEParameters
        bodies = {"http": [], "sse": []}
        stream_box = {}

        def handler(request: httpx.Request, rec):
            if request.method == "GET":
                st = TimedByteStream([(None, b"event: endpoint\ndata: /messages/?session_id=s1\n\n")], hold_open=True)
                stream_box["s"] = st
                return httpx.Response(200, headers={"content-type": "text/event-stream"}, stream=st)
            which = "sse" if "/messages/" in str(request.url) else "http"
            bodies[which].append(rec["raw"])
            rid = (rec["body"] or {}).get("id") if isinstance(rec["body"], dict) else None
            if rid is None:
                return httpx.Response(202)
            return httpx.Response(200, json={"jsonrpc": "2.0", "id": rid, "result": {}})
        with ScriptedHTTP(handler):
            async def drain(stream):
                try:
                    async for _ in stream:
                        pass
                except Exception:
                    pass
            async with http_client(StreamableHTTPParameters(url="http://h.test/mcp", timeout=5.0)) as (r, w):
                dt = asyncio.create_task(drain(r))
                for m in msgs:
                    await w.send(m)
                await asyncio.sleep(1.0)
                dt.cancel()
            async with sse_client(SSEParameters(url="http://s.test", timeout=5.0)) as (r, w):
                dt = asyncio.create_task(drain(r))
                for m in msgs:
                    await w.send(m)
                await asyncio.sleep(1.0)
                dt.cancel()
                stream_box["s"].release()
        return bodies
    try:
        bodies, _ = run_virtual(http_main, max_iterations=2_000_000)
        for which in ("http", "sse"):
            if len(bodies[which]) != len(msgs):
                ctx.violation("post_count", f"{which}: {len(bodies[which])} POSTs for {len(msgs)} messages", {"wire": which})
            for raw, exp in zip(bodies[which], expects):
                try:
                    decoded = json.loads(raw.decode("utf-8"))
                except Exception as e:  # noqa
                    ctx.violation("wire_not_json", f"{which} body {raw[:80]!r}: {e!r}", {"wire": which})
                    continue
                check_emission(ctx, "wire:" + which, None, {"wire": which, "expect": exp}, expect=exp, wire=decoded)
            ctx.record({"wire": which, "n": len(msgs)}, shape=len(bodies[which]), cls="wire")
    except Exception as e:  # noqa
        ctx.notes.append(f"http/sse wire forms not driven: {e!r}"[:200])


def replay(ctx, case):
    ctx.notes.append("C02 replays re-run the quick sweep (cases are cheap and deterministic)")
    run(ctx)
