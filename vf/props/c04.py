"""C04 - a library server never acknowledges a protocol version it does not support."""
from __future__ import annotations

import asyncio
import itertools
from typing import Any, Dict, List

from vf.vloop import run_virtual, HangDetected

ID = "C04"
LEVEL = "exploration"
BACKENDS = ["pydantic", "fallback"]   # every case is executed under both validation backends
LOGLEVELS = ["default", "debug"]   # every case also runs with the root logger at DEBUG (as --verbose does)
SHARDS = {"quick": 4, "thorough": 16}
BUDGET_S = {"quick": 90.0, "thorough": 600.0}
TECHNIQUE = ("runtime monitoring: observed initialize answers and recorded sessions of the real ProtocolHandler for every "
             "requested version in a 200-year date window (exhaustive in thorough), and end-to-end handshakes of the real "
             "client against the real handler through an in-memory pump")
LEVEL_TEXT = ("handle_message(initialize) is executed for each supported version, every well-formed date of 1925-2124 "
              "(quick: cutoff neighbourhoods + 5000 seeded; thorough: all 74,400), malformed strings, non-strings and "
              "absent; the answered version must be in the library's own SUPPORTED_VERSIONS, equal the request iff it is "
              "supported, and equal the session's recorded version. send_initialize is then paired with the handler "
              "over all client lists of length <=3 from a 6-version universe."
              ' The supported list is snapshotted first, every list a public accessor returns is edited in place, and all answers are judged against the snapshot.'
              ' Every case also runs under the dependency-free validation backend.'
              ' An internal-error (-32603) answer to initialize counts as a crashed handler, not as a refusal.'
              ' Also the version-less initialize in every envelope shape (params {}, null, absent).'
              ' Also handshakes that overlap on one server object (different requested versions), and a version-less initialize with params empty, null or absent.'
              ' Also other server objects in the process built through every constructor argument that mentions versions (found by signature), their versions among the requested ones.'
              ' Also, after every third successful handshake, the session record dropped (deletion, expiry sweep) and the id used again: whatever is kept under it must carry the answered version.'
              ' Also the same requests against a fully configured ProtocolHandler (title, every capability family) and a fully configured MCPServer.'
              " Also a server whose session store is the application's own subclass of the exported interface."
              ' Also clients that offer an empty list in the end-to-end pairing.')
LEVEL_NOTE = ("Trusted: SUPPORTED_VERSIONS read from the library at run time defines 'supports'; the in-memory pump "
              "(write -> dump -> parse_message -> handler -> dump -> parse_message -> read).")
RULE = ("case = requested protocolVersion value (direct) or (client supported list, preferred) (end-to-end). Non-trivial: "
        "all (each drives a real initialize). distinct = hash(case)+hash(answered version, outcome).")
ASSUMPTIONS = ["the server under test is MCPServer/ProtocolHandler with default configuration"]


def direct_cases(ctx):
    from chuk_mcp.protocol.types.versioning import SUPPORTED_VERSIONS
    rng = ctx.sub_rng("c04")
    for v in SUPPORTED_VERSIONS:
        yield {"req": v}
    yield {"req": "__absent__"}
    # no version named, in every shape the envelope allows: params without the member, an empty object, null, no params at all
    for shape in ("empty", "null", "missing"):
        yield {"req": "__absent__", "params_shape": shape}
    malformed = ["", " ", "2025-6-18", "2025-06-18 ", " 2025-06-18", "2025/06/18", "20250618", "latest", "draft",
                 "2025-06-18\n", "2025-06-18T00:00:00Z", "２０２５-06-18", "2025-06-1８", "v2025-06-18", "2025-06", "null",
                 "9999-99-99", "0000-00-00", "2025-13-45", "2025-06-18-01", "2025.06.18", "DRAFT-2025-v2", "1.0", "2.0"]
    for m in malformed:
        yield {"req": m}
    for v in NEIGHBOUR_VERSIONS:
        yield {"req": v}
    for ns in [None, 0, 1, 20250618, 2025.0618, True, False, [], ["2025-06-18"], {}, {"v": "2025-06-18"},
               -1, 2**63]:
        yield {"req": ns, "nonstring": True}
    if ctx.tier == "thorough":
        for y in range(1925, 2125):
            for m in range(1, 13):
                for d in range(1, 32):
                    yield {"req": f"{y:04d}-{m:02d}-{d:02d}"}
    else:
        for s in SUPPORTED_VERSIONS + ["2025-06-18"]:
            y, m, d = map(int, s.split("-"))
            for dy, dm, dd in itertools.product((-1, 0, 1), repeat=3):
                yy, mm, dd2 = y + dy, m + dm, d + dd
                if 1 <= mm <= 12 and 1 <= dd2 <= 31:
                    yield {"req": f"{yy:04d}-{mm:02d}-{dd2:02d}"}
        for _ in range(5000):
            yield {"req": f"{rng.randint(1925, 2124):04d}-{rng.randint(1, 12):02d}-{rng.randint(1, 31):02d}"}


# versions that other server objects of the process are configured with (through whatever constructor arguments mention
# versions) - the plain server under test has nothing to do with them
NEIGHBOUR_VERSIONS = ["2025-11-25", "2031-01-01", "2024-10-07"]


def configured_neighbours(ctx):
    """Server objects of the same process built with every optional constructor argument that speaks of versions set to
    well-formed versions the library does not support (discovered by signature; none on the current tree means none).
    They are kept alive for the whole run. What they were told must not show in a plain server's answers."""
    import inspect
    from chuk_mcp.server.server import MCPServer
    from chuk_mcp.server.protocol_handler import ProtocolHandler
    from chuk_mcp.protocol.types.info import ServerInfo
    from chuk_mcp.protocol.types.capabilities import ServerCapabilities
    keep, used = [], []
    for cls, base_args in ((MCPServer, lambda: (("n",), {})),
                           (ProtocolHandler, lambda: ((ServerInfo(name="n", version="1"), ServerCapabilities()), {}))):
        try:
            params = inspect.signature(cls.__init__).parameters
        except (TypeError, ValueError):
            continue
        for pname, prm in params.items():
            if pname == "self" or prm.default is prm.empty or "version" not in pname.lower():
                continue
            for value in (list(NEIGHBOUR_VERSIONS), tuple(NEIGHBOUR_VERSIONS), NEIGHBOUR_VERSIONS[0], set(NEIGHBOUR_VERSIONS)):
                a, kw = base_args()
                try:
                    keep.append(cls(*a, **dict(kw, **{pname: value})))
                    used.append(f"{cls.__name__}({pname}={type(value).__name__})")
                    break
                except Exception:  # noqa
                    continue
    ctx.extra["configured_neighbours"] = used
    ctx.count("configured_neighbours", len(used))
    return keep


UNIVERSE = ["2025-06-18", "2025-03-26", "2024-11-05", "2026-01-01", "2023-01-01", "1.0"]
# look-alikes of supported versions that a client might (wrongly) offer: must never be agreed on
LOOKALIKES = ["2025-06-18\n", "\uff12\uff10\uff12\uff15-06-18", "2025-06-18 ", "2025-6-18", "2025-06-18T00:00:00Z"]


def e2e_cases(ctx):
    lists = []
    for L in (1, 2, 3):
        lists += [list(p) for p in itertools.permutations(UNIVERSE, L)]
    rng = ctx.sub_rng("c04e2e")
    if ctx.tier == "quick":
        lists = [l for l in lists if len(l) <= 2] + rng.sample([l for l in lists if len(l) == 3], 40)
    for la in LOOKALIKES:
        lists += [[la], [la, "2025-03-26"], ["2023-01-01", la]]
    # a client that offers nothing: whatever becomes of that call, it does not end agreed on a version
    for p in (None, "2025-06-18", "nonsense"):
        yield {"supported": [], "preferred": p}
    for l in lists:
        prefs = [None, l[-1], "2024-11-05", "nonsense"]
        for p in prefs:
            yield {"supported": l, "preferred": p}


def run(ctx):
    from chuk_mcp.server.server import MCPServer
    from chuk_mcp.protocol.messages.json_rpc_message import parse_message
    from chuk_mcp.protocol.types.versioning import SUPPORTED_VERSIONS
    from chuk_mcp.protocol.types.errors import VersionMismatchError
    from chuk_mcp.protocol.messages.initialize.send_messages import send_initialize
    import anyio

    supported = list(SUPPORTED_VERSIONS)
    ctx.extra["library_supported_versions"] = supported
    # An application builds its own list from what the public accessors hand out (adds a draft version it also
    # speaks, drops the oldest).  What the *server* supports must not move with the caller's copy: everything below
    # is judged against the snapshot taken above.
    import importlib
    import inspect
    touched = []
    for modname in ("chuk_mcp.protocol.types.versioning", "chuk_mcp.protocol.messages.initialize.send_messages",
                    "chuk_mcp.protocol.messages.initialize", "chuk_mcp.protocol.types", "chuk_mcp.protocol.messages"):
        try:
            mod = importlib.import_module(modname)
        except Exception:
            continue
        cands = [(n, o) for n, o in vars(mod).items() if callable(o) and not n.startswith("_")]
        pv = getattr(mod, "ProtocolVersion", None)
        if pv is not None:
            cands += [(f"ProtocolVersion.{n}", getattr(pv, n)) for n in dir(pv) if not n.startswith("_") and callable(getattr(pv, n))]
        for name, fn in cands:
            if inspect.isclass(fn):
                continue
            try:
                sig = inspect.signature(fn)
                if any(p.default is p.empty and p.kind in (p.POSITIONAL_ONLY, p.POSITIONAL_OR_KEYWORD, p.KEYWORD_ONLY)
                       for p in sig.parameters.values()):
                    continue
                if inspect.iscoroutinefunction(fn):
                    continue
                out = fn()
            except Exception:
                continue
            if isinstance(out, list) and out and all(isinstance(x, str) for x in out):
                out.insert(0, "2031-01-01")
                out.append("1999-09-09")
                if len(out) > 3:
                    del out[2]
                touched.append(f"{modname.rsplit('.', 1)[-1]}.{name}")
    ctx.extra["list_accessors_mutated"] = sorted(set(touched))
    ctx.count("list_accessors_mutated", len(set(touched)))
    if ctx.shard[0] == 0 and list(SUPPORTED_VERSIONS) != supported:
        ctx.violation("supported_versions_changed_through_accessor", f"after a caller edited the lists returned by "
                      f"{sorted(set(touched))} the library's own supported list is {list(SUPPORTED_VERSIONS)} (was {supported})",
                      {"accessors": sorted(set(touched))})

    _neighbours = configured_neighbours(ctx)  # noqa: F841 - alive until the run ends
    dcases = [c for c in direct_cases(ctx) if ctx.mine()]

    dropped_obs: List[Any] = []

    def configured_handlers():
        """The server under test in three configurations: plain, and with every optional member of its description and
        every capability family set (what it announces must not change whether it acknowledges a version)."""
        from chuk_mcp.server.protocol_handler import ProtocolHandler
        from chuk_mcp.protocol.types.info import ServerInfo
        from chuk_mcp.protocol.types import capabilities as C
        hs = [MCPServer("s").protocol_handler]
        try:
            full = C.ServerCapabilities(logging=C.LoggingCapability(), prompts=C.PromptsCapability(listChanged=True),
                                        resources=C.ResourcesCapability(subscribe=True, listChanged=True),
                                        tools=C.ToolsCapability(listChanged=True), completion=C.CompletionCapability(),
                                        experimental={"x-feature": {"on": True}})
            hs.append(ProtocolHandler(ServerInfo(name="s-full", version="2.0", title="A Titled Server"), full))
            hs.append(MCPServer("s-caps", "3", capabilities=full).protocol_handler)
            # ... and a server whose session store is the application's own: a subclass of the exported interface that
            # implements its abstract methods and nothing else
            import time as _time
            from chuk_mcp.server.session.base import BaseSessionManager, SessionInfo

            class OwnStore(BaseSessionManager):
                def __init__(self):
                    self._s = {}

                def create_session(self, client_info, protocol_version, metadata=None):
                    sid = self.generate_session_id()
                    now = _time.time()
                    self._s[sid] = SessionInfo(session_id=sid, client_info=client_info, protocol_version=protocol_version,
                                               created_at=now, last_activity=now, metadata=metadata or {})
                    return sid

                def get_session(self, session_id):
                    return self._s.get(session_id)

                def update_activity(self, session_id):
                    if session_id in self._s:
                        self._s[session_id].last_activity = _time.time()
                        return True
                    return False

                def cleanup_expired(self, max_age=3600):
                    now = _time.time()
                    old = [k for k, v in self._s.items() if now - v.last_activity > max_age]
                    for k in old:
                        del self._s[k]
                    return len(old)

                def list_sessions(self):
                    return dict(self._s)

                def delete_session(self, session_id):
                    return self._s.pop(session_id, None) is not None

                def clear_all_sessions(self):       # (the harness's own housekeeping between batches)
                    n = len(self._s)
                    self._s.clear()
                    return n
            own = MCPServer("s-own-store").protocol_handler
            own.session_manager = OwnStore()
            hs.append(own)
        except Exception as e:  # noqa
            ctx.notes.append(f"configured servers could not be built: {e!r}")
        return hs

    async def direct_batch(cs):
        outs = []
        handlers = configured_handlers()
        ctx.count("server_configurations", 0)
        ctx.counters["server_configurations"] = max(ctx.counters.get("server_configurations", 0), len(handlers))
        for k, case in enumerate(cs):
            h = handlers[k % len(handlers)]
            params: Dict[str, Any] = {"clientInfo": {"name": "c", "version": "1"}, "capabilities": {}}
            if case["req"] != "__absent__":
                params["protocolVersion"] = case["req"]
            wire_msg: Dict[str, Any] = {"jsonrpc": "2.0", "id": k, "method": "initialize", "params": params}
            if case.get("params_shape") == "empty":
                wire_msg["params"] = {}
            elif case.get("params_shape") == "null":
                wire_msg["params"] = None
            elif case.get("params_shape") == "missing":
                del wire_msg["params"]
            for rep in ("parse",):
                msg = parse_message(wire_msg)
                try:
                    resp, sid = await h.handle_message(msg)
                    sess = h.session_manager.get_session(sid) if sid else None
                    outs.append((case, resp, sid, sess, None))
                    if sid and sess is not None and k % 3 == 1:
                        # the record is dropped while the connection lives (expiry sweep, explicit deletion) and the client
                        # goes on using its session id: whatever the server keeps under that id afterwards still has to
                        # carry the version this handshake was answered with
                        answered = sess.protocol_version
                        if k % 2:
                            h.session_manager.delete_session(sid)
                        else:
                            h.session_manager.cleanup_expired(max_age=-1)
                        try:
                            await h.handle_message(parse_message({"jsonrpc": "2.0", "id": f"p{k}", "method": "ping"}), session_id=sid)
                            await h.handle_message(parse_message({"jsonrpc": "2.0", "method": "notifications/initialized"}), session_id=sid)
                        except Exception:  # noqa - C08's matter
                            pass
                        later = h.session_manager.get_session(sid)
                        dropped_obs.append((case, sid, answered, None if later is None else later.protocol_version))
                except Exception as e:  # noqa
                    outs.append((case, None, None, None, e))
            if k % 4 == 0:
                # the same request again, this time arriving on a live session (re-initialize) and on a stale one
                live = h.session_manager.create_session({"name": "earlier"}, "2025-03-26")
                for label, sess_id in (("live_session", live), ("stale_session", "no-such-session")):
                    msg = parse_message({"jsonrpc": "2.0", "id": k, "method": "initialize", "params": params})
                    try:
                        resp, sid = await h.handle_message(msg, session_id=sess_id)
                        sess = h.session_manager.get_session(sid) if sid else None
                        outs.append((dict(case, via=label), resp, sid, sess, None))
                    except Exception as e:  # noqa
                        outs.append((dict(case, via=label), None, None, None, e))
            if k % 500 == 0:
                h.session_manager.clear_all_sessions()
        return outs

    B = 2000
    for i in range(0, len(dcases), B):
        if ctx.out_of_time("direct"):
            ctx.exhaustive = False
            break
        outs, _ = run_virtual(direct_batch, dcases[i:i + B])
        for case, resp, sid, sess, exc in outs:
            ctx.count("initialize_handled")
            req = case["req"]
            if exc is not None:
                ctx.violation("initialize_raised", f"handle_message(initialize {req!r}) raised {exc!r}", case)
                continue
            d = resp.model_dump(exclude_none=True) if resp is not None else None
            if not d or "result" not in d:
                # an error answer is an acceptable way not to acknowledge an unsupported version
                is_err = bool(d and "error" in d)
                if (isinstance(req, str) and req in supported) or not is_err or req == "__absent__":
                    # (a request that names no version at all asked for nothing unsupported: it is answered with a version)
                    ctx.violation("no_initialize_result", f"initialize {req!r} answered {d!r}", case)
                elif d["error"].get("code") == -32603:
                    # "internal error" is what the dispatcher makes of an exception escaping the initialize handler: the
                    # request was not refused, the handler crashed on it
                    ctx.violation("initialize_handler_crashed", f"initialize requesting {req!r} was answered with the internal-error "
                                  f"code: {d['error']!r} (neither a supported version nor a refusal)", case)
                ctx.record(case, shape="error", cls="error_answer")
                continue
            ans = d["result"].get("protocolVersion")
            if not (isinstance(ans, str) and ans in supported):
                mech = "unsupported_version_acknowledged"
                ctx.violation(mech, f"requested {req!r}; server answered protocolVersion={ans!r} which it does not support "
                              f"(supports {supported})", case)
            if isinstance(req, str) and req in supported and ans != req:
                ctx.violation("supported_version_not_echoed", f"requested supported {req!r}, answered {ans!r}", case)
            if not (isinstance(req, str) and req in supported) and req != "__absent__" and ans == req:
                pass  # already reported above as unsupported acknowledged
            if sess is None:
                ctx.violation("no_session_recorded", f"initialize {req!r} returned session id {sid!r} but no session", case)
            elif sess.protocol_version != ans:
                ctx.violation("session_version_differs", f"session records {sess.protocol_version!r}, answered {ans!r}", case)
            cls = "supported" if (isinstance(req, str) and req in supported) else \
                "absent" if req == "__absent__" else "nonstring" if case.get("nonstring") else "unsupported"
            ctx.record(case, shape=ans, cls=cls)
    for case, sid, answered, later in dropped_obs:
        ctx.count("sessions_dropped_then_used")
        if later is not None and later != answered:
            ctx.violation("session_version_differs", f"handshake requesting {case['req']!r} was answered {answered!r}; its session "
                          f"record was dropped and the client went on using the id: the record now kept under that id carries "
                          f"{later!r}", dict(case, via="session_dropped_then_used"))
    if ctx.exhaustive is None:
        ctx.exhaustive = ctx.tier == "thorough"

    # ---- several handshakes in flight on one handler at once -------------------
    if ctx.shard[0] == 0:
        reqs_pool = list(supported) + ["2026-01-01", "1999-01-01", "__absent__", "2025-06-18\n"]
        rngc = ctx.sub_rng("c04conc")

        async def overlapping(groups):
            outs = []
            for group in groups:
                srv = MCPServer("s")
                h = srv.protocol_handler
                msgs = []
                for k, req in enumerate(group):
                    params: Dict[str, Any] = {"clientInfo": {"name": f"c{k}", "version": "1"}, "capabilities": {}}
                    if req != "__absent__":
                        params["protocolVersion"] = req
                    msgs.append(parse_message({"jsonrpc": "2.0", "id": k, "method": "initialize", "params": params}))
                res = await asyncio.gather(*[h.handle_message(m) for m in msgs], return_exceptions=True)
                outs.append((group, [(r, (h.session_manager.get_session(r[1]) if isinstance(r, tuple) and r[1] else None)) for r in res]))
            return outs
        groups = [list(p) for p in itertools.permutations(reqs_pool[:4], 2)] + \
                 [[rngc.choice(reqs_pool) for _ in range(rngc.randint(2, 5))] for _ in range(60 if ctx.tier == "quick" else 1500)]
        try:
            outs, _ = run_virtual(overlapping, groups)
        except HangDetected as e:
            ctx.violation("hang", f"overlapping handshakes: {e}", {"overlapping": True})
            outs = []
        for group, results in outs:
            case = {"overlapping_handshakes": group}
            for k, (r, sess) in enumerate(results):
                req = group[k]
                ctx.count("initialize_handled")
                ctx.count("overlapping_initializes")
                if not isinstance(r, tuple):
                    ctx.violation("initialize_raised", f"overlapping handshakes {group}: #{k} raised {r!r}", case)
                    continue
                d = r[0].model_dump(exclude_none=True) if r[0] is not None else None
                ans = ((d or {}).get("result") or {}).get("protocolVersion")
                if not (isinstance(ans, str) and ans in supported):
                    ctx.violation("unsupported_version_acknowledged" if ans is not None else "no_initialize_result",
                                  f"overlapping handshakes {group}: #{k} (requested {req!r}) answered {d!r}", case)
                    continue
                if req in supported and ans != req:
                    ctx.violation("supported_version_not_echoed", f"overlapping handshakes {group}: #{k} requested supported {req!r}, "
                                  f"answered {ans!r}", case)
                if sess is None or sess.protocol_version != ans:
                    ctx.violation("session_version_differs", f"overlapping handshakes {group}: #{k} answered {ans!r}, its session "
                                  f"records {getattr(sess, 'protocol_version', None)!r}", case)
            ctx.record(case, shape=len(results), nontrivial=True, cls="overlapping_handshakes")

    # ---- end-to-end pairing --------------------------------------------------
    ecases = [c for c in e2e_cases(ctx) if ctx.mine()]

    async def e2e_batch(cs):
        outs = []
        for case in cs:
            srv = MCPServer("s")
            h = srv.protocol_handler
            c2s_s, c2s_r = anyio.create_memory_object_stream(16)
            s2c_s, s2c_r = anyio.create_memory_object_stream(16)
            seen = {"sid": None, "written": []}

            async def pump():
                async for m in c2s_r:
                    wire = m.model_dump(exclude_none=True)
                    seen["written"].append(wire)
                    resp, sid = await h.handle_message(parse_message(wire))
                    if sid:
                        seen["sid"] = sid
                    if resp is not None:
                        await s2c_s.send(parse_message(resp.model_dump(exclude_none=True)))
            pt = asyncio.create_task(pump())
            try:
                res = await send_initialize(s2c_r, c2s_s, timeout=2.0, supported_versions=list(case["supported"]),
                                            preferred_version=case["preferred"])
                out = ("ok", res.protocolVersion)
            except BaseException as e:  # noqa
                if isinstance(e, (KeyboardInterrupt, SystemExit)):
                    raise
                out = ("raise", e)
            await asyncio.sleep(0.01)
            pt.cancel()
            sess = h.session_manager.get_session(seen["sid"]) if seen["sid"] else None
            outs.append((case, out, sess, seen["written"]))
            for s in (c2s_s, c2s_r, s2c_s, s2c_r):
                s.close()
        return outs

    try:
        outs, _ = run_virtual(e2e_batch, ecases)
    except HangDetected as e:
        ctx.violation("hang", str(e), {"e2e": True})
        outs = []
    for case, (kind, val), sess, written in outs:
        ctx.count("handshakes")
        both = [v for v in case["supported"] if v in supported]
        if kind == "ok":
            if val not in case["supported"] or val not in supported:
                ctx.violation("agreed_on_unsupported_version", f"handshake settled on {val!r}; client offers "
                              f"{case['supported']}, server supports {supported}", case)
            if sess is None or sess.protocol_version != val:
                ctx.violation("session_version_differs", f"client settled on {val!r}, server session records "
                              f"{getattr(sess, 'protocol_version', None)!r}", case)
            if not any(w.get("method") == "notifications/initialized" for w in written):
                ctx.violation("initialized_missing", "handshake succeeded without notifications/initialized", case)
            shape = "ok:" + str(val)
        else:
            if not case["supported"] and not written:
                pass      # (an empty offer refused before anything was sent: no handshake took place, any refusal will do)
            elif not isinstance(val, VersionMismatchError):
                ctx.violation("handshake_wrong_failure", f"handshake failed with {val!r} instead of a version mismatch", case)
            if any(w.get("method") == "notifications/initialized" for w in written):
                ctx.violation("initialized_after_mismatch", "notifications/initialized sent although the handshake failed", case)
            shape = "mismatch"
        ctx.record(case, shape=shape, cls="e2e:" + shape.split(":")[0])
    ctx.require_reached("initialize_handled")
    ctx.require_reached("handshakes")


def replay(ctx, case):
    import vf.props.c04 as me
    if "supported" in case:
        od, oe = me.direct_cases, me.e2e_cases
        me.direct_cases = lambda c: iter([{"req": "2025-06-18"}])
        me.e2e_cases = lambda c: iter([case])
    else:
        od, oe = me.direct_cases, me.e2e_cases
        me.direct_cases = lambda c: iter([case, {"req": "2025-06-18"}])
        me.e2e_cases = lambda c: iter([{"supported": ["2025-06-18"], "preferred": None}])
    try:
        run(ctx)
    finally:
        me.direct_cases, me.e2e_cases = od, oe
