"""C17 - JSON encoding is backend-independent and always a single NDJSON frame."""
from __future__ import annotations

import os
import pickle
import shutil
import subprocess
import tempfile
from typing import Any, List

from vf import gen
from vf.core import PY, ROOT, child_env
from vf.ref import tagged

ID = "C17"
LEVEL = "exploration"
SHARDS = {"quick": 1, "thorough": 16}
BUDGET_S = {"quick": 90.0, "thorough": 600.0}
TECHNIQUE = ("runtime monitoring: differential execution of fast_json in worker processes with and without orjson "
             "importable; type-tagged round-trip oracle and single-frame monitor on every encoding")
LEVEL_TEXT = ("Each JSON value of a bounded-exhaustive grammar (depth<=3 over 47 atoms incl. 64-bit integer boundaries, "
              "float extremes, every C0 control, U+0085/2028/2029, BMP edges, astral, non-ASCII keys) and seeded deep "
              "values is encoded under both backends in separate processes and every encoding is decoded under both; "
              "all four decode(encode(v)) must equal v type-strictly and no compact encoding may contain a raw line break."
              " Also values nested 200-1300 levels (beyond the fast backend's native 254/1024 limits), built and compared iteratively inside the workers."
              " Also each backend's encodings fed through the library's real line reader (one line in, one message out)."
              ' Also decode-scribble-decode and encode-edit-encode call histories.'
              ' Also load() on text and binary files positioned after a first line, for documents only the standard-library parser accepts.'
              ' Also dump()/load() through text handles that are not UTF-8 (cp1252, latin-1, ascii with replace / backslashreplace, utf-16), compared between the backends.')
LEVEL_NOTE = ("Trusted: sys.modules['orjson']=None before import really disables orjson (the worker reports HAS_ORJSON and "
              "the run is inconclusive if both workers report the same); Python's pickle to ship values to the workers.")
RULE = ("values from grammar V3 (exhaustive) + all single C0/boundary code points + seeded random values (depth<=6, nesting "
        "to 40); non-trivial = value is not a bare atom already in the atom list; distinct = hash of the tagged value.")
ASSUMPTIONS = ["integers restricted to [-2^63, 2^64-1]; strings contain no lone surrogates; no NaN/Infinity (not JSON)"]


def fast_json_loads_bytes(raw: bytes, handle: str):
    """What the bytes of a file written through a text handle say when read as JSON text in that handle's encoding
    (separators and escapes may differ between the backends; the value may not)."""
    import json as _json
    enc = handle.split("/")[0]
    try:
        return _json.loads(raw.decode(enc))
    except Exception as e:  # noqa
        return ("undecodable", type(e).__name__)


def values_for(ctx) -> List[Any]:
    rng = ctx.sub_rng("c17")
    vals: List[Any] = list(gen.grammar(3 if ctx.tier == "thorough" else 2))
    # every C0 control, DEL, C1 NEL, separators, BMP edges as single-char strings and as keys
    for cp in list(range(0x00, 0x21)) + [0x7f, 0x80, 0x85, 0x9f, 0xa0, 0x2028, 0x2029, 0xd7ff, 0xe000, 0xfeff,
                                        0xfffd, 0xfffe, 0xffff, 0x10000, 0x1f600, 0x10ffff]:
        ch = chr(cp)
        vals += [ch, {ch: ch}, [ch + "x" + ch]]
    # integer boundaries
    for b in (7, 8, 15, 16, 31, 32, 52, 53, 62, 63, 64):
        for d in (-2, -1, 0, 1):
            for sgn in (1, -1):
                i = sgn * (2**b) + d
                if -2**63 <= i <= 2**64 - 1:
                    vals += [i, [i], {"n": i}]
    n = 4000 if ctx.tier == "quick" else 120000
    for k in range(n):
        v = gen.rand_json(rng, depth=rng.choice([1, 2, 3, 4, 6]))
        if k % 50 == 0:
            v = gen.nest(v, rng.choice([10, 25, 40]), rng)
        vals.append(v)
    return vals


DEEP_DEPTHS = [200, 253, 254, 255, 256, 257, 300, 512, 999, 1000, 1001, 1023, 1024, 1025, 1026, 1100, 1300]
DEEP_LEAVES = [1, "x\u2028\u00e9", None, 2**63, -0.0, {"a": [None, 1.5]}]


def deep_specs(ctx):
    out = []
    for d in DEEP_DEPTHS:
        for j, kind in enumerate("ldm"):
            out.append((kind, d, DEEP_LEAVES[(d + j) % len(DEEP_LEAVES)]))
    return out


def _run_worker(backend: str, inp: str, outp: str):
    r = subprocess.run([PY, "-B", "-m", "vf.workers.json_worker", backend, inp, outp], env=child_env(), cwd=ROOT,
                       capture_output=True, text=True, timeout=1200)
    if r.returncode != 0:
        raise RuntimeError(f"worker {backend} failed: {r.stderr[-500:]}")
    return pickle.load(open(outp, "rb"))


def run(ctx):
    vals = [v for v in values_for(ctx) if ctx.mine()]
    tmp = tempfile.mkdtemp(prefix="vf_c17_")
    try:
        inp = os.path.join(tmp, "in.pkl")
        deep = deep_specs(ctx) if ctx.shard[0] == 0 else []
        pickle.dump({"values": vals, "foreign": None, "deep": deep}, open(inp, "wb"))
        first = {b: _run_worker(b, inp, os.path.join(tmp, f"out1_{b}.pkl")) for b in ("orjson", "stdlib")}
        if first["orjson"]["has_orjson"] is not True or first["stdlib"]["has_orjson"] is not False:
            ctx.inconclusive_because(f"backend selection not effective: orjson worker HAS_ORJSON="
                                     f"{first['orjson']['has_orjson']}, stdlib worker={first['stdlib']['has_orjson']}")
            return
        second = {}
        for b, other in (("orjson", "stdlib"), ("stdlib", "orjson")):
            pickle.dump({"values": [], "foreign": [e[1] if e[0] == "ok" else None for e in first[other]["enc"]]},
                        open(inp, "wb"))
            second[b] = _run_worker(b, inp, os.path.join(tmp, f"out2_{b}.pkl"))
    finally:
        shutil.rmtree(tmp, ignore_errors=True)

    for i, v in enumerate(vals):
        tv = tagged(v)
        case = {"value": v}
        shapes = []
        for b in ("orjson", "stdlib"):
            for form in ("enc", "enc_kw"):
                st, enc = first[b][form][i]
                ctx.count("encodings")
                if st != "ok":
                    ctx.violation("encode_failed", f"{b} backend could not encode ({form}): {enc}", case)
                    continue
                if not isinstance(enc, str):
                    ctx.violation("encode_not_str", f"{b}: dumps returned {type(enc).__name__}", case)
                    continue
                if "\n" in enc or "\r" in enc:
                    ctx.violation("raw_line_break_in_encoding", f"{b} ({form}): encoding contains a raw line break: {enc[:80]!r}", case)
            pr = first[b].get("pretty", [None] * (i + 1))[i]
            if pr is not None:
                ctx.count("pretty_then_compact_sequences")
                if pr[0] != "ok":
                    ctx.violation("encode_failed", f"{b}: pretty encoding failed: {pr[1]}", case)
            st, dec = first[b]["self_dec"][i]
            if st != "ok" or tagged(dec) != tv:
                ctx.violation("self_round_trip", f"{b}: decode(encode(v)) = {dec!r} != v", case)
            st, dec = first[b]["self_dec_bytes"][i]
            if st != "ok" or tagged(dec) != tv:
                ctx.violation("self_round_trip_bytes", f"{b}: decode(encode(v).encode()) = {dec!r} != v", case)
            st, dec = second[b]["foreign_dec"][i]
            ctx.count("cross_decodes")
            if st != "ok" or tagged(dec) != tv:
                ctx.violation("cross_round_trip", f"{b} decoding the other backend's encoding gave {dec!r} != v", case)
            st, dec = second[b]["foreign_dec_bytes"][i]
            if st != "ok" or tagged(dec) != tv:
                ctx.violation("cross_round_trip_bytes", f"{b} decoding the other backend's UTF-8 bytes gave {dec!r} != v", case)
            rd = first[b].get("redecode", [None] * (i + 1))[i]
            if rd is not None:
                ctx.count("decode_scribble_decode_sequences")
                if rd[0] != "ok" or tagged(rd[1][0]) != tv or tagged(rd[1][1]) != tv:
                    ctx.violation("decoded_value_shared_between_calls", f"{b}: decoding the same text again after the first "
                                  f"result was edited in place gave {rd[1]!r}", case)
            for key in ("file_text", "file_binary"):
                fr = first[b][key][i] if i < len(first[b][key]) else None
                if fr is None:
                    continue
                ctx.count("file_round_trips")
                other = first["stdlib" if b == "orjson" else "orjson"][key][i]
                if fr[0] != "ok":
                    mech = "file_api_backend_dependent" if other and other[0] == "ok" else "file_api_failed"
                    ctx.violation(mech, f"{b}: dump()/load() on a {'text' if key == 'file_text' else 'binary'} file failed "
                                  f"({fr[1]})" + (" while the other backend succeeds" if mech.endswith("dependent") else ""), case)
                else:
                    raw, dec = fr[1]
                    if tagged(dec) != tv:
                        ctx.violation("file_round_trip", f"{b}: load(dump(v)) on a {key} gave {dec!r}", case)
            fh = first[b].get("file_handles", [None] * (i + 1))[i] if i < len(first[b].get("file_handles", [])) else None
            if fh is not None and b == "orjson":
                fo = first["stdlib"]["file_handles"][i] or {}
                for hk, r in fh.items():
                    ctx.count("file_handle_round_trips")
                    ro = fo.get(hk)
                    if r[0] != "ok" or (ro and ro[0] != "ok"):
                        if (r[0] == "ok") != (ro is not None and ro[0] == "ok"):
                            ctx.violation("file_api_backend_dependent", f"dump()/load() through a text handle ({hk}): orjson backend "
                                          f"{r[0]} ({str(r[1])[:80]}), stdlib backend {ro and ro[0]} ({str(ro and ro[1])[:80]})", case)
                        continue
                    if tagged(r[1][1]) != tv or tagged(ro[1][1]) != tv:
                        ctx.violation("file_round_trip", f"dump() then load() through a text handle ({hk}) gave "
                                      f"{r[1][1]!r} (orjson backend) / {ro[1][1]!r} (stdlib backend)", case)
                    elif r[1][0] != ro[1][0] and tagged(fast_json_loads_bytes(r[1][0], hk)) != tagged(fast_json_loads_bytes(ro[1][0], hk)):
                        ctx.violation("file_bytes_backend_dependent", f"the file written through a text handle ({hk}) holds "
                                      f"{r[1][0][:60]!r} with the fast backend and {ro[1][0][:60]!r} without", case)
            shapes.append(first[b]["enc"][i][1] if first[b]["enc"][i][0] == "ok" else None)
        nontrivial = isinstance(v, (list, dict)) or (isinstance(v, str) and len(v) > 0) or isinstance(v, (int, float))
        ctx.record(case, shape=None, nontrivial=nontrivial,
                   cls=type(v).__name__ + (":same" if shapes[0] == shapes[1] else ":differ"),
                   sample={"value": v, "orjson": shapes[0], "stdlib": shapes[1]})
    # ---- every encoding is one NDJSON frame for the library's own line reader -----------------------------------
    # (each backend's text, wrapped in a notification, is fed to the real stdio reader: one line in, one message out)
    from vf.stdio_harness import run_stdio_script
    from vf.ref import msg_to_wire
    SEP = set("\u0085\u2028\u2029\x0b\x0c\x1c\x1d\x1e\r\n")

    def has_sep(v, depth=0):
        if isinstance(v, str):
            return bool(SEP & set(v))
        if depth > 6:
            return False
        if isinstance(v, list):
            return any(has_sep(x, depth + 1) for x in v)
        if isinstance(v, dict):
            return any(has_sep(k, depth + 1) or has_sep(x, depth + 1) for k, x in v.items())
        return False
    picked = [i for i, v in enumerate(vals) if has_sep(v)][:400] + list(range(0, len(vals), max(1, len(vals) // 100)))
    for b in ("orjson", "stdlib"):
        idx = [i for i in picked if first[b]["enc"][i][0] == "ok" and isinstance(first[b]["enc"][i][1], str)]
        for k in range(0, len(idx), 150):
            part = idx[k:k + 150]
            steps = []
            for i in part:
                steps.append(("feed", ('{"jsonrpc":"2.0","method":"notifications/frame","params":{"i":%d,"v":%s}}\n'
                                       % (i, first[b]["enc"][i][1])).encode("utf-8")))
            steps.append(("settle",))
            try:
                out = run_stdio_script(steps)
            except Exception as e:  # noqa
                ctx.inconclusive_because(f"frame check could not drive the stdio reader: {e!r}")
                break
            got = {}
            for m in out["read"]:
                w = msg_to_wire(m)
                if isinstance(w, dict) and w.get("method") == "notifications/frame":
                    got[(w.get("params") or {}).get("i")] = (w.get("params") or {}).get("v")
            ctx.count("frames_fed_to_line_reader", len(part))
            for i in part:
                if i not in got:
                    ctx.violation("encoding_not_one_frame", f"{b}: the encoding of this value, sent as one line, did not come "
                                  f"out of the library's line reader as one message: {first[b]['enc'][i][1][:80]!r}",
                                  {"value": vals[i], "backend": b})
                elif tagged(got[i]) != tagged(vals[i]):
                    ctx.violation("cross_round_trip", f"{b}: value changed on its way through the line reader: {got[i]!r}",
                                  {"value": vals[i], "backend": b})
    # ---- very deep values: nesting beyond what the fast backend encodes (254) / decodes (1024) natively ---------
    for j, (kind, depth, leaf) in enumerate(deep):
        case = {"deep": [kind, depth, leaf]}
        shapes = []
        for b in ("orjson", "stdlib"):
            rec = first[b]["deep"][j]
            other = first["stdlib" if b == "orjson" else "orjson"]["deep"][j]
            for form in ("enc", "enc_kw"):
                ctx.count("deep_encodings")
                r = rec[form]
                if r[0] != "ok":
                    mech = "deep_value_backend_dependent" if other[form][0] == "ok" else "encode_failed"
                    ctx.violation(mech, f"{b}: could not encode ({form}) a value nested {depth} levels ({kind}): {r[1]}", case)
                else:
                    if not r[1]:
                        ctx.violation("self_round_trip", f"{b}: encoding ({form}) of a value nested {depth} levels is not the expected text", case)
                    if r[2]:
                        ctx.violation("raw_line_break_in_encoding", f"{b} ({form}): raw line break in deep encoding", case)
            for form in ("dec_compact", "dec_spaced", "dec_bytes", "file_positioned_text", "file_positioned_binary"):
                ctx.count("deep_decodings")
                r = rec[form]
                if r[0] != "ok":
                    mech = "deep_value_backend_dependent" if other[form][0] == "ok" else "decode_failed"
                    ctx.violation(mech, f"{b}: could not decode ({form}) a document nested {depth} levels ({kind}): {r[1]}", case)
                elif r[1][0] != "leaf" or tagged(r[1][1]) != tagged(leaf):
                    ctx.violation("cross_round_trip", f"{b}: decoding ({form}) a document nested {depth} levels gave {r[1]!r}", case)
            r = rec["file"]
            if r[0] != "ok" and other["file"][0] != "ok":
                # the streaming encoder of the standard library recurses in Python and gives up near 1000 levels under
                # either backend alike: not a backend dependence
                ctx.count("deep_file_api_fails_under_both_backends")
            elif r[0] != "ok" or r[1][0] != "leaf" or tagged(r[1][1]) != tagged(leaf):
                mech = "file_api_backend_dependent" if other["file"][0] == "ok" and r[0] != "ok" else "file_round_trip"
                ctx.violation(mech, f"{b}: dump()/load() of a value nested {depth} levels: {r!r}", case)
            shapes.append([rec[f][0] for f in ("enc", "enc_kw", "dec_compact")])
        ctx.record(case, shape=shapes, nontrivial=True, cls=f"deep:{kind}:{'>254' if depth > 254 else '<=254'}{':>1024' if depth > 1024 else ''}",
                   sample={"kind": kind, "depth": depth, "leaf": leaf, "orjson": shapes[0], "stdlib": shapes[1]})
    ctx.exhaustive = None
    ctx.extra["grammar_values"] = len(gen.grammar(3 if ctx.tier == "thorough" else 2))
    ctx.require_reached("cross_decodes")


def replay(ctx, case):
    import vf.props.c17 as me
    orig = me.values_for
    me.values_for = lambda c: [case["value"], 0, 1]
    try:
        run(ctx)
    finally:
        me.values_for = orig
