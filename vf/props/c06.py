"""C06 - stdio outbound framing: one message, one line, in order, content preserved."""
from __future__ import annotations

import asyncio
import json
from typing import Any, Dict, List, Tuple

from vf import gen
from vf.ref import tagged
from vf.stdio_harness import run_stdio_script

ID = "C06"
LEVEL = "exploration"
BACKENDS = ["pydantic", "fallback"]   # every case is executed under both validation backends
LOGLEVELS = ["default", "debug"]   # every case also runs with the root logger at DEBUG (as --verbose does)
SHARDS = {"quick": 4, "thorough": 16}
BUDGET_S = {"quick": 90.0, "thorough": 600.0}
TECHNIQUE = ("runtime monitoring: byte-level recorder on the child's stdin (scripted process; real child in thorough) + "
             "NDJSON line/ordering/content oracle over outbound message sequences with unserialisable items injected")
LEVEL_TEXT = ("Sequences of 1-8 outbound messages over {typed request/notification/response/error, legacy unified message, "
              "plain dict, compact pre-serialised string (ASCII-escaped and raw UTF-8)} with payload strings containing "
              "LF, CR, U+2028, NUL, quotes and astral characters, with unserialisable objects inserted at every position, "
              "are written to the real StdioClient; the bytes received by the child must be exactly one LF-terminated "
              "line per serialisable message, in order, decoding to the message, with no raw line break inside a line, "
              "and closing the write stream must close stdin."
              " Also sequences of 100-1000 messages, and two writers on stdin: 64 KiB-1.1 MiB messages in flight to a slowly draining child while inbound batches are answered with rejections (every stdin line must be whole JSON)."
              ' Also messages sent right before the context is left, pretty-printed and newline-terminated strings, directly instantiated envelopes; stdin EOF is judged while the client context is still open.'
              ' Also typed messages whose payload holds a value without a JSON image (arbitrary object, undecodable bytes), under both backends.'
              ' Also typed envelope messages carrying extra members (trace context, vendor extension).'
              ' Also typed and plain messages nested 200-600 levels, and payloads in which one container object is referenced from several places.'
              ' Also one client object entered two or three times, each life judged like a first one; results that are a string, a number, a boolean or an array.'
              ' Also the same message several times in a row, typed and plain, also around something unserialisable.')
LEVEL_NOTE = ("Trusted: ScriptedProcess.stdin byte capture (thorough adds a real cat-like child and a real pipe); expected "
              "value of a typed message = its wire dict with None-valued top-level optionals omitted.")
RULE = ("case = sequence of message specs. Non-trivial: >=2 messages or a payload with a separator character or an "
        "unserialisable item. distinct = hash(case)+hash(number of lines).")
ASSUMPTIONS = ["pre-serialised strings are compact single-line JSON (as the quantifier states)",
               "a dict holding a lone surrogate may be written escaped or dropped (not representable in UTF-8 otherwise)"]

PAYLOAD_STRINGS = ["plain", "line\nbreak", "cr\rret", "crlf\r\n", "ls\u2028ps\u2029", "nul\u0000", "q\"uo\\te", "\U0001f600astral",
                   "\u0085nel", "\u00e9\u20ac", "</script>", "\ufeff", "\x1b[0m", "\t", ""]


def mk(spec: Tuple[str, Any, Any]):
    """spec = (shape, payload, id) -> (object to send, expected wire value | UNSER | OPTIONAL(value))"""
    from chuk_mcp.protocol.messages import json_rpc_message as J
    shape, payload, mid = spec
    params = {"text": payload, "nested": {"n": None, "l": [payload, None]}}
    if shape == "typed_request":
        return J.create_request("tools/call", params, id=mid), {"jsonrpc": "2.0", "id": mid, "method": "tools/call", "params": params}
    if shape == "typed_request_noparams":
        return J.create_request("ping", None, id=mid), {"jsonrpc": "2.0", "id": mid, "method": "ping"}
    if shape == "typed_notification":
        return J.create_notification("notifications/x", params), {"jsonrpc": "2.0", "method": "notifications/x", "params": params}
    if shape == "typed_response":
        return J.create_response(mid, params), {"jsonrpc": "2.0", "id": mid, "result": params}
    if shape == "typed_error":
        return (J.create_error_response(mid, -32000, str(payload), data={"d": payload}),
                {"jsonrpc": "2.0", "id": mid, "error": {"code": -32000, "message": str(payload), "data": {"d": payload}}})
    # the envelope classes instantiated directly, relying on every declared default (jsonrpc is one of them)
    if shape == "direct_request":
        return J.JSONRPCRequest(id=mid, method="tools/call", params=params), {"jsonrpc": "2.0", "id": mid, "method": "tools/call", "params": params}
    if shape == "direct_notification":
        return J.JSONRPCNotification(method="notifications/x", params=params), {"jsonrpc": "2.0", "method": "notifications/x", "params": params}
    if shape == "direct_response":
        return J.JSONRPCResponse(id=mid, result=params), {"jsonrpc": "2.0", "id": mid, "result": params}
    if shape == "direct_error":
        return (J.JSONRPCError(id=mid, error={"code": -32000, "message": str(payload)}),
                {"jsonrpc": "2.0", "id": mid, "error": {"code": -32000, "message": str(payload)}})
    if shape == "direct_legacy":
        return J.JSONRPCMessage(id=mid, method="tools/call", params=params), {"jsonrpc": "2.0", "id": mid, "method": "tools/call", "params": params}
    if shape == "direct_validate":
        return (J.JSONRPCRequest.model_validate({"id": mid, "method": "tools/call", "params": params}),
                {"jsonrpc": "2.0", "id": mid, "method": "tools/call", "params": params})
    if shape.startswith("extra_"):
        # members beyond the declared ones (the envelope classes allow them: a trace context, a vendor extension)
        extras = {"traceparent": "00-4bf92f3577b34da6a3ce929d0e0e4736-00f067aa0ba902b7-01", "x-vendor": {"k": [payload, 1]}}
        if shape == "extra_request":
            return (J.JSONRPCRequest(id=mid, method="tools/call", params=params, **extras),
                    dict({"jsonrpc": "2.0", "id": mid, "method": "tools/call", "params": params}, **extras))
        if shape == "extra_notification":
            return (J.JSONRPCNotification(method="notifications/x", params=params, **extras),
                    dict({"jsonrpc": "2.0", "method": "notifications/x", "params": params}, **extras))
        if shape == "extra_response":
            return (J.JSONRPCResponse.model_validate(dict({"id": mid, "result": params}, **extras)),
                    dict({"jsonrpc": "2.0", "id": mid, "result": params}, **extras))
        if shape == "extra_error":
            return (J.JSONRPCError(id=mid, error={"code": -32000, "message": str(payload)}, **extras),
                    dict({"jsonrpc": "2.0", "id": mid, "error": {"code": -32000, "message": str(payload)}}, **extras))
        if shape == "extra_unified":
            return (J.JSONRPCMessage.model_validate(dict({"jsonrpc": "2.0", "id": mid, "method": "tools/call", "params": params}, **extras)),
                    dict({"jsonrpc": "2.0", "id": mid, "method": "tools/call", "params": params}, **extras))
    if shape.startswith("scalar_"):
        # a response whose result is not an object: a string (with whatever it holds), a number, a boolean, an array
        val = {"scalar_str": payload, "scalar_int": 0, "scalar_float": 1.5, "scalar_true": True, "scalar_false": False,
               "scalar_list": [payload, None, 1]}[shape.rsplit("_", 1)[0] if shape.count("_") > 1 else shape]
        if shape.endswith("_typed"):
            return J.create_response(mid, val), {"jsonrpc": "2.0", "id": mid, "result": val}
        return {"jsonrpc": "2.0", "id": mid, "result": val}, {"jsonrpc": "2.0", "id": mid, "result": val}
    if shape.startswith("aliased_"):
        # one container object referenced from several places of the payload (a constant schema shared by two tools, a row
        # repeated in a table): no cycle, ordinary JSON
        leaf = {"text": payload, "n": None}
        row = [payload, leaf]
        ap = {"a": leaf, "b": leaf, "rows": [row, row, row], "nested": {"again": leaf, "empty": [[], []]}}
        ap["nested"]["empty"][1] = ap["nested"]["empty"][0]
        import copy
        plain = copy.deepcopy(ap)   # (what must arrive: the same value, aliasing is not a JSON notion)
        kind = shape[len("aliased_"):]
        if kind == "typed_request":
            return J.create_request("tools/call", ap, id=mid), {"jsonrpc": "2.0", "id": mid, "method": "tools/call", "params": plain}
        if kind == "typed_response":
            return J.create_response(mid, ap), {"jsonrpc": "2.0", "id": mid, "result": plain}
        if kind == "typed_error":
            return (J.create_error_response(mid, -32000, "m", data=ap),
                    {"jsonrpc": "2.0", "id": mid, "error": {"code": -32000, "message": "m", "data": plain}})
        if kind == "direct_notification":
            return J.JSONRPCNotification(method="notifications/x", params=ap), {"jsonrpc": "2.0", "method": "notifications/x", "params": plain}
        if kind == "dict":
            return {"jsonrpc": "2.0", "id": mid, "method": "tools/call", "params": ap}, {"jsonrpc": "2.0", "id": mid, "method": "tools/call", "params": plain}
    if shape.startswith("deep"):
        # payloads nested a few hundred levels (well inside what both validation backends and both JSON backends
        # represent; beyond the 255 levels of the typed layer's own JSON writer): still one line each, whatever the shape
        depth, kind = shape[4:].split("_", 1)
        v: Any = {"leaf": payload}
        for i in range(int(depth)):
            v = {"n": v} if i % 3 else [v]
        dparams = {"name": "t", "arguments": {"deep": v}}
        if kind == "typed_request":
            return J.create_request("tools/call", dparams, id=mid), {"jsonrpc": "2.0", "id": mid, "method": "tools/call", "params": dparams}
        if kind == "typed_response":
            return J.create_response(mid, dparams), {"jsonrpc": "2.0", "id": mid, "result": dparams}
        if kind == "typed_notification":
            return J.create_notification("notifications/x", dparams), {"jsonrpc": "2.0", "method": "notifications/x", "params": dparams}
        if kind == "dict":
            d = {"jsonrpc": "2.0", "id": mid, "method": "tools/call", "params": dparams}
            return dict(d), d
    if shape == "legacy_request":
        return J.JSONRPCMessage.create_request("tools/call", params, id=mid), {"jsonrpc": "2.0", "id": mid, "method": "tools/call", "params": params}
    if shape == "legacy_notification":
        return J.JSONRPCMessage.create_notification("notifications/y", params), {"jsonrpc": "2.0", "method": "notifications/y", "params": params}
    if shape == "legacy_response":
        return J.JSONRPCMessage.create_response(mid, params), {"jsonrpc": "2.0", "id": mid, "result": params}
    if shape == "dict":
        d = {"jsonrpc": "2.0", "id": mid, "method": "tools/call", "params": params}
        return dict(d), d
    if shape == "dict_notification":
        d = {"jsonrpc": "2.0", "method": "notifications/z", "params": params}
        return dict(d), d
    if shape == "str_ascii":
        d = {"jsonrpc": "2.0", "id": mid, "method": "tools/call", "params": params}
        return json.dumps(d, separators=(",", ":")), d
    if shape == "str_utf8":
        d = {"jsonrpc": "2.0", "id": mid, "result": params}
        return json.dumps(d, separators=(",", ":"), ensure_ascii=False), d
    if shape == "str_pretty":
        # a pre-serialised string need not be compact: line breaks between tokens are insignificant JSON whitespace
        d = {"jsonrpc": "2.0", "id": mid, "method": "tools/call", "params": params}
        return json.dumps(d, indent=2, ensure_ascii=False), d
    if shape == "str_trailing_newline":
        d = {"jsonrpc": "2.0", "method": "notifications/t", "params": params}
        return json.dumps(d) + "\r\n", d
    if shape == "unser_object":
        return object(), UNSER
    if shape == "unser_set":
        return {"jsonrpc": "2.0", "method": "notifications/bad", "params": {"s": {1, 2}}}, UNSER
    if shape == "unser_circular":
        c: List[Any] = []
        c.append(c)
        return {"jsonrpc": "2.0", "method": "notifications/bad", "params": {"c": c}}, UNSER
    if shape == "unser_bytes":
        return {"jsonrpc": "2.0", "method": "notifications/bad", "params": {"b": b"\xff"}}, UNSER
    if shape in ("unser_typed_object", "unser_typed_bytes", "unser_typed_legacy_object"):
        # a typed message whose payload holds something that has no JSON image at all
        class Opaque:
            pass
        junk = b"\xff\xfe" if shape == "unser_typed_bytes" else Opaque()
        from chuk_mcp.protocol.messages.json_rpc_message import JSONRPCRequest as _LegacyReq, JSONRPCMessage as _Unified
        if shape == "unser_typed_legacy_object":
            return _LegacyReq(id=mid, method="tools/call", params={"x": junk, "ok": 1}), UNSER
        return _Unified.create_request("tools/call", {"x": junk, "ok": 1}, id=mid), UNSER
    if shape == "unser_deep":
        d: Any = {"leaf": 1}
        for _ in range(6000):
            d = {"n": d}
        return {"jsonrpc": "2.0", "method": "notifications/deep", "params": d}, UNSER
    if shape == "unser_badrepr":
        class BadRepr:
            def __repr__(self):
                raise RuntimeError("repr exploded")
        return BadRepr(), UNSER
    if shape == "surrogate_dict":
        d = {"jsonrpc": "2.0", "method": "notifications/s", "params": {"s": "\ud800"}}
        return dict(d), ("OPTIONAL", d)
    if shape == "unser_surrogate_str":
        return '{"jsonrpc":"2.0","method":"notifications/s","params":{"s":"\ud800"}}', UNSER
    raise KeyError(shape)


UNSER = ("UNSER",)
GOOD_SHAPES = ["typed_request", "typed_request_noparams", "typed_notification", "typed_response", "typed_error",
               "legacy_request", "legacy_notification", "legacy_response", "dict", "dict_notification", "str_ascii", "str_utf8",
               "direct_request", "direct_notification", "direct_response", "direct_error", "direct_legacy", "direct_validate",
               "str_pretty", "str_trailing_newline",
               "extra_request", "extra_notification", "extra_response", "extra_error", "extra_unified"]
SCALAR_SHAPES = [f"scalar_{k}{suffix}" for k in ("str", "int", "float", "true", "false", "list") for suffix in ("", "_typed")]
ALIASED_SHAPES = ["aliased_typed_request", "aliased_typed_response", "aliased_typed_error", "aliased_direct_notification", "aliased_dict"]
DEEP_SHAPES = [f"deep{d}_{k}" for d in (200, 260, 400, 600) for k in ("typed_request", "typed_response", "typed_notification", "dict")]
BAD_SHAPES = ["unser_object", "unser_set", "unser_circular", "unser_bytes", "surrogate_dict", "unser_surrogate_str",
              "unser_deep", "unser_badrepr", "unser_typed_object", "unser_typed_bytes", "unser_typed_legacy_object"]
IDS = [1, 0, "a", "123", 2**63, "\u00fc"]


def gen_cases(ctx):
    rng = ctx.sub_rng("c06")
    # every shape x every payload string, alone and followed by a sentinel
    for sh in GOOD_SHAPES:
        for p in PAYLOAD_STRINGS:
            yield [(sh, p, 1), ("dict_notification", "sentinel", None)]
    # the same message several times in a row (a heartbeat, equal progress ticks), typed and plain, also around something
    # unserialisable: every one of them is a message
    for sh in ("typed_notification", "dict_notification", "direct_notification", "str_utf8", "typed_request"):
        yield [(sh, "tick", 9)] * 3 + [("dict_notification", "sentinel", None)]
        yield [(sh, "tick", 9), ("unser_object", "x", None), (sh, "tick", 9), ("typed_notification", "tick", None), ("dict_notification", "tick", None)]
    for sh in SCALAR_SHAPES:
        for p in (PAYLOAD_STRINGS if "str" in sh or "list" in sh else PAYLOAD_STRINGS[:1]):
            yield [(sh, p, 4), ("dict_notification", "sentinel", None)]
    for sh in ALIASED_SHAPES:
        for p in PAYLOAD_STRINGS[:4]:
            yield [(sh, p, 3), ("dict_notification", "sentinel", None)]
    for sh in DEEP_SHAPES:
        yield [("typed_notification", "before", None), (sh, "deep\npayload", 7), ("dict_notification", "sentinel", None)]
    # unserialisable at every position of a 3-message sequence
    base = [("typed_request", "a\nb", 1), ("dict", "c d", 2), ("str_utf8", "e\rf", 3)]
    for bad in BAD_SHAPES:
        for pos in range(len(base) + 1):
            seq = list(base)
            seq.insert(pos, (bad, "x", None))
            yield seq
        yield [(bad, "x", None)]
        yield [(bad, "x", None), (bad, "y", None), ("typed_notification", "after", None)]
    # more messages than the write stream buffers, some of them unserialisable
    for L in ((101, 250) if ctx.tier == "quick" else (100, 101, 250, 1000)):
        for bad_every in (0, 7):
            yield [((BAD_SHAPES[k % len(BAD_SHAPES)] if bad_every and k % bad_every == 3 else GOOD_SHAPES[k % len(GOOD_SHAPES)]),
                    PAYLOAD_STRINGS[k % len(PAYLOAD_STRINGS)], IDS[k % len(IDS)]) for k in range(L)]
    n = 1500 if ctx.tier == "quick" else 20000
    for _ in range(n):
        L = rng.randint(1, 8)
        seq = []
        for _ in range(L):
            sh = rng.choice(GOOD_SHAPES) if rng.random() < 0.8 else rng.choice(BAD_SHAPES)
            p = rng.choice(PAYLOAD_STRINGS) if rng.random() < 0.6 else gen.rand_string(rng)
            if rng.random() < 0.15:
                p = gen.rand_json(rng, depth=3)
            seq.append((sh, p, rng.choice(IDS)))
        yield seq


def exec_case(ctx, seq) -> None:
    case = {"seq": [list(s) for s in seq]}
    objs, expected = [], []
    for spec in seq:
        try:
            o, e = mk(tuple(spec))
        except Exception as ex:  # noqa - the library refuses to build it: not an outbound message
            ctx.count("unbuildable")
            continue
        objs.append(o)
        expected.append(e)
    steps: List[Any] = []
    for o in objs:
        steps += [("send", o)]
    steps += [("settle",), ("close_write",), ("settle",)]
    try:
        out = run_stdio_script(steps)
    except Exception as e:  # noqa
        ctx.violation("writer_crashed_harness", f"session failed: {e!r}", case)
        ctx.record(case, shape="crash")
        return
    ctx.count("sessions")
    data: bytes = out["stdin_before_exit"]
    ctx.count("stdin_bytes", len(data))
    if data and not data.endswith(b"\n"):
        ctx.violation("unterminated_last_line", f"stdin bytes do not end with LF: {data[-40:]!r}", case)
    lines = data.split(b"\n")[:-1] if data else []
    if b"\r" in data.replace(b"\\r", b""):
        # a raw CR byte anywhere is a raw line break inside a line
        ctx.violation("raw_line_break_in_line", "raw CR byte written to the child", case)
    got = []
    for ln in lines:
        try:
            got.append(json.loads(ln.decode("utf-8")))
        except Exception as e:  # noqa
            got.append(("UNDECODABLE", ln[:80]))
    items = []
    for e in expected:
        if e is UNSER:
            continue
        if isinstance(e, tuple) and e and e[0] == "OPTIONAL":
            items.append((tagged(e[1]), False))
        else:
            items.append((tagged(e), True))
    got_t = [tagged(g) if not (isinstance(g, tuple) and g and g[0] == "UNDECODABLE") else g for g in got]
    from vf.ref import seq_match
    ok, why = seq_match(got_t, items)
    if not ok:
        req = [v for v, r in items if r]
        if any(isinstance(g, tuple) and g and g[0] == "UNDECODABLE" for g in got_t):
            mech = "line_not_json"
        elif len(got_t) < len(req):
            mech = "message_lost_after_unserialisable" if any(e is UNSER for e in expected) else "message_lost"
        elif len(got_t) > len(items):
            mech = "extra_line"
        elif sorted(map(repr, got_t)) == sorted(map(repr, req)):
            mech = "lines_reordered"
        else:
            mech = "content_altered"
        ctx.violation(mech, f"{len(lines)} lines written for {len(items)} serialisable messages: {why[:400]}", case,
                      [ln[:200].decode('utf-8', 'replace') for ln in lines])
    # judged while the client context is still open: leaving the context closes everything anyway
    closed = any(ev[0] == "stdin.aclose" for ev in out.get("proc_events_before_exit", out["proc_events"]))
    if not closed:
        ctx.violation("stdin_not_closed", "closing the write stream did not close the child's stdin (the child would "
                      "not see EOF before the client context is left)", case)
    nontrivial = len(seq) >= 2 or any(s[0] in BAD_SHAPES for s in seq) or \
        any(isinstance(s[1], str) and any(ch in s[1] for ch in "\n\r \u0000") for s in seq)
    ctx.record(case, shape=len(lines), nontrivial=nontrivial,
               cls=("with_unser" if any(e is UNSER for e in expected) else "clean") + f":len{min(len(seq), 4)}",
               sample={"seq": [list(s) for s in seq][:4], "lines": [ln[:100].decode("utf-8", "replace") for ln in lines][:4]})


def exit_right_after_send_tier(ctx):
    """The application sends and leaves the context at once (a last notification, a cancellation notice): what the
    write stream accepted must still reach the child."""
    import importlib
    from chuk_mcp.transports.stdio.parameters import StdioParameters
    from vf.recorders import OpenProcessPatch, ScriptedProcess
    from vf.vloop import run_virtual
    SC = importlib.import_module("chuk_mcp.transports.stdio.stdio_client")
    rng = ctx.sub_rng("exitsend")
    for k in range(16 if ctx.tier == "quick" else 200):
        if not ctx.mine():
            continue
        n = rng.choice([1, 2, 5, 20, 99, 100, 101, 150])
        seq = [(GOOD_SHAPES[(k + i) % len(GOOD_SHAPES)], PAYLOAD_STRINGS[(k + i) % len(PAYLOAD_STRINGS)], IDS[i % len(IDS)]) for i in range(n)]
        objs, expected = [], []
        for spec in seq:
            try:
                o, e = mk(tuple(spec))
            except Exception:
                continue
            objs.append(o)
            expected.append(e)
        api = ("stdio_client", "client_object")[k % 2]
        case = {"exit_right_after_send": True, "n": n, "api": api, "k": k}

        async def main():
            with OpenProcessPatch(lambda command, **kw: ScriptedProcess([], hold_open=True)) as patch:
                if api == "stdio_client":
                    async with SC.stdio_client(StdioParameters(command="x")) as (r, w):
                        for o in objs:
                            await w.send(o)
                else:
                    async with SC.StdioClient(StdioParameters(command="x")) as client:
                        r, w = client.get_streams()
                        for o in objs:
                            await w.send(o)
                return patch.spawned[0].stdin_bytes()
        try:
            data, _ = run_virtual(main, max_iterations=2_000_000)
        except Exception as e:  # noqa
            ctx.violation("writer_crashed_harness", f"exit right after send: {e!r}", case)
            continue
        ctx.count("sessions")
        ctx.count("exit_right_after_send_sessions")
        ctx.count("stdin_bytes", len(data))
        got = []
        for ln in data.split(b"\n")[:-1]:
            try:
                got.append(tagged(json.loads(ln.decode("utf-8"))))
            except Exception:
                got.append(("UNDECODABLE", ln[:60]))
        want = [tagged(e) for e in expected]
        if got != want:
            mech = "message_lost_at_context_exit" if len(got) < len(want) and got == want[:len(got)] else "content_altered"
            ctx.violation(mech, f"{len(want)} messages were accepted on the write stream right before the context was left; "
                          f"{len(got)} reached the child", case)
        ctx.record(case, shape=[len(got), len(want)], nontrivial=True, cls=f"exit_after_send:{'>=100' if n >= 100 else '<100'}",
                   sample={"case": case, "accepted": len(want), "reached_child": len(got)})


def reentered_client_tier(ctx):
    """One StdioClient object used as a context manager several times (a reconnect): every life is judged like a first one
    - how a life ended (write stream closed by the application first, or the context simply left) is the dimension."""
    import importlib
    from chuk_mcp.transports.stdio.parameters import StdioParameters
    from vf.recorders import OpenProcessPatch, ScriptedProcess
    from vf.vloop import run_virtual
    SC = importlib.import_module("chuk_mcp.transports.stdio.stdio_client")
    for k in range(8 if ctx.tier == "quick" else 64):
        if not ctx.mine():
            continue
        lives = 2 + k % 2
        close_first = bool(k & 2)            # the application closes its write end before leaving (every life but the last)
        n = (1, 3, 7, 12)[(k // 4) % 4]
        per_life = []
        for life in range(lives):
            seq = [(GOOD_SHAPES[(k + life + i) % len(GOOD_SHAPES)], PAYLOAD_STRINGS[(k + i) % len(PAYLOAD_STRINGS)], IDS[i % len(IDS)])
                   for i in range(n)]
            objs, expected = [], []
            for spec in seq:
                try:
                    o, e = mk(tuple(spec))
                except Exception:
                    continue
                objs.append(o)
                expected.append(e)
            per_life.append((objs, expected))
        case = {"reentered_client": True, "lives": lives, "close_write_first": close_first, "n": n, "k": k}

        async def main():
            outs = []
            with OpenProcessPatch(lambda command, **kw: ScriptedProcess([], hold_open=True)) as patch:
                client = SC.StdioClient(StdioParameters(command="x"))
                for life, (objs, _) in enumerate(per_life):
                    async with client:
                        r, w = client.get_streams()
                        for o in objs:
                            await w.send(o)
                        await asyncio.sleep(0.05)
                        if close_first and life < lives - 1:
                            await w.aclose()
                            await asyncio.sleep(0.05)
                    outs.append(patch.spawned[life].stdin_bytes())
            return outs
        try:
            outs, _ = run_virtual(main, max_iterations=2_000_000)
        except Exception as e:  # noqa
            ctx.violation("writer_crashed_harness", f"re-entered client object: {e!r}", case)
            continue
        ctx.count("sessions", lives)
        ctx.count("reentered_client_lives", lives)
        shape = []
        for life, data in enumerate(outs):
            got = []
            for ln in data.split(b"\n")[:-1]:
                try:
                    got.append(tagged(json.loads(ln.decode("utf-8"))))
                except Exception:
                    got.append(("UNDECODABLE", ln[:60]))
            want = [tagged(e) for e in per_life[life][1]]
            if got != want:
                mech = "message_lost" if len(got) < len(want) else "content_altered"
                ctx.violation(mech, f"life {life + 1} of {lives} of one StdioClient object: {len(want)} messages accepted on the "
                              f"write stream, {len(got)} lines reached the child", case)
            shape.append([len(got), len(want)])
        ctx.record(case, shape=shape, nontrivial=True, cls="reentered_client", sample={"case": case, "lines_per_life": shape})


def two_writer_tier(ctx):
    """The library writes to the child's stdin from two places: the writer task (messages accepted on the write
    stream) and the reader (the error it answers a batch with at a version without batching).  With large messages
    and a child that drains slowly both are in flight together: the byte stream must still be whole lines."""
    rng = ctx.sub_rng("twowriters")
    n_cases = 24 if ctx.tier == "quick" else 300
    for k in range(n_cases):
        if not ctx.mine():
            continue
        if ctx.out_of_time("two-writer sessions"):
            break
        version = ("2025-06-18", "2025-06-18", "2025-03-26", None)[k % 4]
        sizes = [rng.choice([10, 70_000, 140_000, 300_000, 65_535, 65_536, 65_537, 1_100_000]) for _ in range(rng.randint(1, 4))]
        n_batches = rng.randint(1, 5)
        delay = rng.choice([0.0, 0.01, 0.5])
        steps: List[Any] = []
        if version:
            steps.append(("version", version))
        expected = []
        batch_line = (json.dumps([{"jsonrpc": "2.0", "method": "notifications/b", "params": {"i": 1}},
                                  {"jsonrpc": "2.0", "id": 9, "method": "ping"}]) + "\n").encode()
        slots = sorted(rng.randint(0, len(sizes)) for _ in range(n_batches))
        for i, sz in enumerate(sizes):
            for _ in range(slots.count(i)):
                steps.append(("feed", batch_line))
            shape = ("dict", "typed_request", "str_utf8", "typed_response")[(k + i) % 4]
            o, e = mk((shape, "é" * (sz // 2) if i % 2 else "x" * sz, i + 1))
            steps.append(("send", o))
            expected.append(e)
        for _ in range(slots.count(len(sizes))):
            steps.append(("feed", batch_line))
        steps += [("wait", 600.0), ("close_write",), ("wait", 60.0)]
        case = {"two_writers": True, "k": k, "version": version, "sizes": sizes, "batches_at": slots, "stdin_delay": delay}
        try:
            out = run_stdio_script(steps, stdin_delay=delay, tie_seed=k)
        except Exception as ex:  # noqa
            ctx.violation("writer_crashed_harness", f"two-writer session failed: {ex!r}", case)
            continue
        ctx.count("sessions")
        ctx.count("two_writer_sessions")
        if version == "2025-06-18":
            ctx.count("two_writer_nobatch_sessions")
        data: bytes = out["stdin_before_exit"]
        ctx.count("stdin_bytes", len(data))
        if data and not data.endswith(b"\n"):
            ctx.violation("unterminated_last_line", f"stdin bytes do not end with LF: {data[-40:]!r}", case)
        got, rejections, broken = [], 0, 0
        for ln in data.split(b"\n")[:-1]:
            try:
                v = json.loads(ln.decode("utf-8"))
            except Exception:
                broken += 1
                continue
            if isinstance(v, dict) and "error" in v and "method" not in v:
                rejections += 1
                continue
            got.append(tagged(v))
        ctx.count("rejections_written", rejections)
        if broken:
            ctx.violation("line_not_json", f"{broken} stdin line(s) are not JSON: writes from the writer task and the "
                          f"reader's batch rejection were interleaved inside a line (sizes {sizes}, version {version})", case)
        elif got != [tagged(e) for e in expected]:
            ctx.violation("content_altered", f"{len(got)} message lines reached the child for {len(expected)} sent "
                          f"(sizes {sizes}, version {version}, {rejections} rejections)", case)
        ctx.record(case, shape=[len(got), rejections], nontrivial=True,
                   cls=f"two_writers:{version}:{'slow' if delay else 'fast'}",
                   sample={"version": version, "sizes": sizes, "batches_at": slots, "stdin_delay": delay,
                           "lines": len(got), "rejections": rejections})


def real_child_tier(ctx):
    """Real pipe: a child copies stdin to a file until EOF and exits 0."""
    import os
    import sys
    import tempfile
    import anyio
    from chuk_mcp.transports.stdio.stdio_client import stdio_client
    from chuk_mcp.transports.stdio.parameters import StdioParameters
    from vf.core import ROOT
    from vf.ref import seq_match

    tmp = tempfile.mkdtemp(prefix="vf_c06_")
    try:
        for k, seq in enumerate(list(gen_cases(ctx))[:400:8]):
            if ctx.out_of_time("real child"):
                break
            path = os.path.join(tmp, f"o{k}.bin")
            objs, expected = [], []
            for spec in seq:
                try:
                    o, e = mk(tuple(spec))
                except Exception:
                    continue
                objs.append(o)
                expected.append(e)

            async def main():
                params = StdioParameters(command=sys.executable,
                                         args=["-B", os.path.join(ROOT, "children", "stdin_sink.py"), path])
                async with stdio_client(params) as (r, w):
                    for o in objs:
                        await w.send(o)
                    await w.aclose()
                    for _ in range(100):
                        if os.path.exists(path + ".done"):
                            break
                        await anyio.sleep(0.05)

            try:
                anyio.run(main)
            except Exception as e:  # noqa
                ctx.inconclusive_because(f"real child tier failed: {e!r}")
                return
            case = {"seq": [list(s) for s in seq], "real_child": True}
            ctx.count("real_child_sessions")
            if not os.path.exists(path + ".done"):
                ctx.violation("stdin_not_closed", "real child never saw EOF on stdin after the write stream was closed", case)
                continue
            data = open(path, "rb").read()
            got = []
            for ln in data.split(b"\n")[:-1]:
                try:
                    got.append(tagged(json.loads(ln.decode("utf-8"))))
                except Exception:
                    got.append(("UNDECODABLE", ln[:60]))
            items = [(tagged(e[1]), False) if (isinstance(e, tuple) and e[0] == "OPTIONAL") else (tagged(e), True)
                     for e in expected if e is not UNSER]
            ok, why = seq_match(got, items)
            if not ok or (data and not data.endswith(b"\n")):
                ctx.violation("real_child_bytes_differ", f"real child received unexpected bytes: {why[:300]}", case)
            ctx.record(case, shape=len(got), cls="real_child")
    finally:
        import shutil
        shutil.rmtree(tmp, ignore_errors=True)


def run(ctx):
    for seq in gen_cases(ctx):
        if not ctx.mine():
            continue
        if ctx.out_of_time():
            break
        exec_case(ctx, seq)
    two_writer_tier(ctx)
    exit_right_after_send_tier(ctx)
    reentered_client_tier(ctx)
    if ctx.tier == "thorough" and ctx.shard[0] == 0:
        real_child_tier(ctx)
    ctx.require_reached("sessions")
    ctx.require_reached("stdin_bytes")
    if ctx.counters.get("two_writer_nobatch_sessions"):
        ctx.require_reached("rejections_written")


def replay(ctx, case):
    if case.get("exit_right_after_send"):
        ctx.notes.append("regenerated from the seed: re-running that tier")
        exit_right_after_send_tier(ctx)
        return
    if case.get("reentered_client"):
        ctx.notes.append("regenerated from the seed: re-running that tier")
        reentered_client_tier(ctx)
        return
    if case.get("two_writers"):
        ctx.notes.append("two-writer cases are regenerated from the seed: re-running that tier")
        two_writer_tier(ctx)
        return
    exec_case(ctx, [tuple(s) for s in case["seq"]])
    ctx.record({"x": 1}, shape=1)
