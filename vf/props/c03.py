"""C03 - client initialization never settles on a protocol version it did not offer."""
from __future__ import annotations

import asyncio
import itertools
from typing import Any, Dict, List

from vf.recorders import Pipe
from vf.vloop import run_virtual, vsleep_until, HangDetected
from vf.props.c13 import ref_batching

ID = "C03"
LEVEL = "exploration"
BACKENDS = ["pydantic", "fallback"]   # every case is executed under both validation backends
LOGLEVELS = ["default", "debug"]   # every case also runs with the root logger at DEBUG (as --verbose does)
SHARDS = {"quick": 4, "thorough": 16}
BUDGET_S = {"quick": 90.0, "thorough": 600.0}
TECHNIQUE = ("runtime monitoring: write/read stream trace recorder around the real send_initialize (and the tracked "
             "variant) with a trace specification: proposal, acceptance, exactly-one initialized after acceptance, batching mode")
LEVEL_TEXT = ("Every non-empty ordered supported list of length <=3 over a 6-version universe (156 lists) x preferred "
              "version x ~25 server answers (each listed version, unsupported, invented, malformed, JSON-RPC errors of many "
              "codes, silence) is executed on the virtual loop (quick: all lists with the answer classes + seeded triples; "
              "thorough: full product); the recorded trace must satisfy the handshake specification."
              ' Also a write stream that fails at the n-th message.'
              ' Also timeout-then-retry sequences with a late answer to the abandoned attempt.'
              ' Every case also runs under the dependency-free validation backend.'
              ' Also handshake histories on ONE list object edited in place between calls (against an echoing server), and every entry point of the library that takes supported_versions, found by signature.'
              " Also a write stream that stalls (for longer than the handshake's patience) on the initialized notification, and every entry point that takes supported_versions, found by signature."
              " Also error answers that carry the server's own version list in error.data, from a server that answers a re-sent initialize with a version the caller never offered.")
LEVEL_NOTE = ("Trusted: virtual loop, recording proxies; 'belongs to that version' for batching uses the independent date "
              "rule (older than 2025-06-18). Malformed results may raise any exception (the statement demands the "
              "version-mismatch error only for a well-formed different version).")
RULE = ("case = (supported list, preferred, answer, tracked?). Non-trivial: all cases where the server answers or stays "
        "silent (every case). distinct = hash(case)+hash(outcome class, writes).")
ASSUMPTIONS = ["supported lists contain no duplicates", "timeout 2.0 virtual seconds"]

UNIVERSE = ["2025-06-18", "2025-03-26", "2024-11-05", "2026-01-01", "2023-01-01", "1.0"]
TIMEOUT = 2.0


def all_lists():
    out = []
    for L in (1, 2, 3):
        out += [list(p) for p in itertools.permutations(UNIVERSE, L)]
    return out


def answers_for(lst: List[str]) -> List[Dict[str, Any]]:
    a: List[Dict[str, Any]] = []
    for v in UNIVERSE + ["", "2025-06-18 ", "2025-6-18", "latest", "2025-06-19"]:
        a.append({"kind": "version", "v": v})
    a += [{"kind": "malformed", "what": w} for w in
          ("int_version", "null_version", "list_version", "missing_version", "result_list", "result_string",
           "missing_caps", "missing_server_info", "result_empty")]
    a += [{"kind": "error", "code": c, "msg": m} for c, m in
          ((-32602, "Unsupported protocol version"), (-32602, "bad params"), (-32603, "boom"), (-32000, "closed"),
           (-32601, "no such method"), (-32008, "version mismatch"), (401, "unauthorized"), (-32001, "timeout"))]
    # error answers that carry the server's own list in error.data (the specification's example for a version mismatch),
    # from a server that goes on answering: whatever the client does with that list, an initialize it sends afterwards
    # is answered with a version the caller never offered
    unoffered = [v for v in UNIVERSE if v not in lst] + ["2099-12-31"]
    for code, msg in ((-32602, "Unsupported protocol version"), (-32008, "version mismatch"), (-32603, "boom")):
        a.append({"kind": "error", "code": code, "msg": msg, "then": unoffered[0],
                  "data": {"supported": [unoffered[0], lst[-1]], "requested": lst[0]}})
    a.append({"kind": "error", "code": -32602, "msg": "Unsupported protocol version", "then": unoffered[-1],
              "data": {"supported": [lst[0], unoffered[-1]], "requested": lst[0]}})
    a.append({"kind": "error", "code": -32602, "msg": "unsupported PROTOCOL VERSION", "then": unoffered[0],
              "data": {"supported": list(lst) + unoffered[:1]}})
    a.append({"kind": "silence"})
    a.append({"kind": "late"})       # answer after the deadline
    a.append({"kind": "distractors_then", "v": lst[0]})
    return a


def gen_cases(ctx):
    rng = ctx.sub_rng("c03")
    lists = all_lists()
    if ctx.tier == "thorough":
        for lst in lists:
            for pref in UNIVERSE + [None, "", "foreign"]:
                for ans in answers_for(lst):
                    yield {"supported": lst, "preferred": pref, "answer": ans, "tracked": (len(lst) + len(ans["kind"])) % 2 == 0}
    else:
        reps = [{"kind": "version", "v": None}, {"kind": "version", "v": "OTHER_LISTED"},
                {"kind": "version", "v": "2025-06-19"}, {"kind": "malformed", "what": "missing_version"},
                {"kind": "error", "code": -32603, "msg": "boom"}, {"kind": "silence"}]
        for lst in lists:
            for pref in (None, lst[-1], "foreign"):
                for ans in reps:
                    a = dict(ans)
                    if a["kind"] == "version" and a["v"] is None:
                        a["v"] = pref if pref in lst else lst[0]
                    if a.get("v") == "OTHER_LISTED":
                        a["v"] = lst[-1]
                    yield {"supported": lst, "preferred": pref, "answer": a, "tracked": len(lst) % 2 == 0}
        for _ in range(3000):
            lst = rng.choice(lists)
            yield {"supported": lst, "preferred": rng.choice(UNIVERSE + [None, "", "foreign"]),
                   "answer": rng.choice(answers_for(lst)), "tracked": rng.random() < 0.5}
    # the write stream fails at the n-th message (the peer went away / a concurrent shutdown closed it)
    for lst in lists[:6]:
        for nth in (1, 2):
            for exc in ("broken", "closed", "oserror"):
                for tracked in (False, True):
                    yield {"supported": lst, "preferred": None, "answer": {"kind": "version", "v": lst[0]}, "tracked": tracked,
                           "write_fault": {"at": nth, "exc": exc}}
    # the peer is slow to take the n-th message (for longer than the timeout): the call may take as long, or fail - but it
    # must not report success without the initialized notification having gone out
    for lst in lists[:4]:
        for nth in (1, 2):
            for stall in (TIMEOUT + 1.0, TIMEOUT * 3):
                for tracked in (False, True):
                    yield {"supported": lst, "preferred": None, "answer": {"kind": "version", "v": lst[0]}, "tracked": tracked,
                           "write_fault": {"at": nth, "exc": f"stall:{stall}"}}
    # default list (None) = the library's own
    for ans in answers_for(["2025-06-18"]):
        yield {"supported": None, "preferred": None, "answer": ans, "tracked": True}
        yield {"supported": None, "preferred": "2024-11-05", "answer": ans, "tracked": False}


def build_answer(ans: Dict[str, Any], rid) -> Any:
    ok = {"protocolVersion": None, "capabilities": {"tools": {"listChanged": True}},
          "serverInfo": {"name": "srv", "version": "1.0"}}
    if ans["kind"] in ("version", "distractors_then", "late"):
        r = dict(ok)
        r["protocolVersion"] = ans.get("v", "2025-06-18")
        return {"jsonrpc": "2.0", "id": rid, "result": r}
    if ans["kind"] == "malformed":
        w = ans["what"]
        r: Any = dict(ok)
        r["protocolVersion"] = "2025-06-18"
        if w == "int_version":
            r["protocolVersion"] = 20250618
        elif w == "null_version":
            r["protocolVersion"] = None
        elif w == "list_version":
            r["protocolVersion"] = ["2025-06-18"]
        elif w == "missing_version":
            del r["protocolVersion"]
        elif w == "result_list":
            r = ["2025-06-18"]
        elif w == "result_string":
            r = "2025-06-18"
        elif w == "missing_caps":
            del r["capabilities"]
        elif w == "missing_server_info":
            del r["serverInfo"]
        elif w == "result_empty":
            r = {}
        return {"jsonrpc": "2.0", "id": rid, "result": r}
    if ans["kind"] == "error":
        err = {"code": ans["code"], "message": ans["msg"]}
        if "data" in ans:
            err["data"] = ans["data"]
        return {"jsonrpc": "2.0", "id": rid, "error": err}
    return None


class FaultySend:
    """Write stream whose n-th send() raises instead of delivering (nothing is recorded for it)."""

    def __init__(self, inner, at: int, exc: str):
        self._inner, self._at, self._exc, self.n = inner, at, exc, 0

    async def send(self, item):
        import anyio
        self.n += 1
        if self.n == self._at and self._exc.startswith("stall:"):
            # the peer is slow to take this message (longer than the call's timeout): it is delivered when the stall ends,
            # unless the sender gives up (is cancelled) first
            await asyncio.sleep(float(self._exc.split(":")[1]))
            return await self._inner.send(item)
        if self.n == self._at:
            raise {"broken": anyio.BrokenResourceError, "closed": anyio.ClosedResourceError,
                   "oserror": lambda: OSError("pipe gone")}[self._exc]()
        return await self._inner.send(item)

    def __getattr__(self, name):
        return getattr(self._inner, name)


def exec_case(ctx, case: Dict[str, Any], shared_list: Any = None) -> None:
    from chuk_mcp.protocol.messages.initialize.send_messages import (send_initialize,
                                                                      send_initialize_with_client_tracking)
    from chuk_mcp.protocol.messages.json_rpc_message import parse_message
    from chuk_mcp.protocol.types.errors import VersionMismatchError, RetryableError, NonRetryableError
    from chuk_mcp.protocol.types.versioning import SUPPORTED_VERSIONS
    import importlib
    SC = importlib.import_module("chuk_mcp.transports.stdio.stdio_client")
    from chuk_mcp.transports.stdio.parameters import StdioParameters

    ans = dict(case["answer"])
    lst = case["supported"] if case["supported"] is not None else list(SUPPORTED_VERSIONS)
    if shared_list is not None:
        lst = list(shared_list)      # what the caller's list holds at the moment of this call

    async def main():
        pipe = Pipe()
        loop = asyncio.get_running_loop()
        obs: Dict[str, Any] = {}
        client = SC.StdioClient(StdioParameters(command="never-started")) if case["tracked"] else None

        async def server():
            req = await pipe.srv_recv.receive()
            obs["first"] = req
            rid = req.id
            if ans["kind"] == "echo":
                # a server that supports everything: it answers with whatever was proposed
                ans.update(kind="version", v=(req.params or {}).get("protocolVersion"))
            if ans["kind"] == "silence":
                return
            if ans["kind"] == "late":
                await vsleep_until(TIMEOUT + 0.2)
            if ans["kind"] == "distractors_then":
                pipe.srv_send.send_nowait(parse_message({"jsonrpc": "2.0", "method": "notifications/message",
                                                         "params": {"level": "info", "data": "hello"}}))
                pipe.srv_send.send_nowait(parse_message({"jsonrpc": "2.0", "id": "other", "result": {
                    "protocolVersion": "2026-01-01", "capabilities": {}, "serverInfo": {"name": "x", "version": "0"}}}))
                await vsleep_until(0.7)
            wire = build_answer(ans, rid)
            try:
                pipe.srv_send.send_nowait(parse_message(wire))
            except Exception as e:  # noqa
                obs["unbuildable"] = repr(e)
            if ans.get("then"):
                # the server stays up: any further initialize is answered with the version named by the case
                while True:
                    nxt = await pipe.srv_recv.receive()
                    if getattr(nxt, "method", None) == "initialize" and getattr(nxt, "id", None) is not None:
                        obs["further_initialize"] = obs.get("further_initialize", 0) + 1
                        pipe.srv_send.send_nowait(parse_message(build_answer({"kind": "version", "v": ans["then"]}, nxt.id)))

        st = asyncio.create_task(server(), name="server")
        t0 = loop.time()
        kw = dict(timeout=TIMEOUT, supported_versions=(list(case["supported"]) if case["supported"] is not None else None),
                  preferred_version=case["preferred"])
        if shared_list is not None:
            kw["supported_versions"] = shared_list     # the caller's own list object, not a copy
        wf = case.get("write_fault")
        write = FaultySend(pipe.write, wf["at"], wf["exc"]) if wf else pipe.write
        try:
            if case["tracked"]:
                res = await send_initialize_with_client_tracking(pipe.read, write, client, **kw)
            else:
                res = await send_initialize(pipe.read, write, **kw)
            obs["outcome"] = ("return", res)
        except BaseException as e:  # noqa
            if isinstance(e, (KeyboardInterrupt, SystemExit)):
                raise
            obs["outcome"] = ("raise", e)
        obs["t_done"] = loop.time() - t0
        obs["n_events_at_return"] = len(pipe.trace.events)
        await asyncio.sleep(1.0)  # anything written after return shows up in the trace
        st.cancel()
        obs["trace"] = pipe.trace
        obs["binfo"] = client.get_batching_info() if client is not None else None
        pipe.close()
        return obs

    try:
        obs, _ = run_virtual(main, max_iterations=50_000)
    except HangDetected as e:
        ctx.violation("hang", str(e), case)
        ctx.record(case, shape="hang")
        return
    if "unbuildable" in obs:
        ctx.count("unbuildable_answers")
    ctx.count("handshakes")
    trace = obs["trace"]
    sends = [e for e in trace.events if e["op"] == "send"]
    recvs = [e for e in trace.events if e["op"] == "receive" and e.get("done")]
    okind, oval = obs["outcome"]
    expected_proposal = case["preferred"] if (case["preferred"] and case["preferred"] in lst) else lst[0]

    wf = case.get("write_fault")
    if wf:
        # the handshake cannot have completed: success would mean "initialized was sent", which it was not
        ctx.count("write_fault_handshakes")
        notes_sent = [e for e in sends if getattr(e["obj"], "method", None) == "notifications/initialized"]
        if str(wf["exc"]).startswith("stall:"):
            # a slow peer, not a broken one: success is possible (after the stall) - but only with the notification out
            notes_before_return = [e for e in notes_sent if trace.events.index(e) < obs["n_events_at_return"]]
            if okind == "return" and len(notes_before_return) != 1:
                ctx.violation("success_without_initialized_notification", f"the peer was slow to take message #{wf['at']} "
                              f"({wf['exc']}): the call returned {oval!r} after {obs['t_done']}s with {len(notes_before_return)} "
                              f"initialized notifications delivered before it returned ({len(notes_sent)} in all)", case)
            if okind != "return" and notes_sent:
                ctx.violation("initialized_after_failure", f"slow peer: the call raised {oval!r} yet an initialized notification "
                              f"was delivered", case)
            ctx.record(case, shape=[okind, type(oval).__name__, len(notes_sent)], cls=f"write_stall:{wf['at']}",
                       sample={"case": case, "outcome": [okind, type(oval).__name__], "t_done": obs["t_done"]})
            return
        if okind == "return":
            ctx.violation("success_without_initialized_notification", f"the write stream failed at message #{wf['at']} "
                          f"({wf['exc']}) yet the call returned {oval!r}; {len(notes_sent)} initialized notifications were "
                          f"delivered", case)
        if case["tracked"] and okind == "return" and obs["binfo"]["protocol_version"] is not None and not notes_sent:
            ctx.violation("tracked_version_set_on_failure", f"tracked client has version {obs['binfo']} although the "
                          f"handshake never completed", case)
        if obs["t_done"] > TIMEOUT + 0.001:
            ctx.violation("deadline_overrun", f"ended at {obs['t_done']}", case)
        ctx.record(case, shape=[okind, type(oval).__name__, len(notes_sent)], cls=f"write_fault:{wf['at']}:{wf['exc']}",
                   sample={"case": case, "outcome": [okind, type(oval).__name__]})
        return
    # ---- first write: initialize proposing the right version ---------------
    if not sends:
        ctx.violation("nothing_written", "no initialize request written", case)
        ctx.record(case, shape="nothing")
        return
    first = sends[0]["obj"].model_dump(exclude_none=True)
    if first.get("method") != "initialize" or "id" not in first:
        ctx.violation("first_write_not_initialize", f"first write is {first!r}", case)
    else:
        p = first.get("params") or {}
        if p.get("protocolVersion") != expected_proposal:
            ctx.violation("wrong_version_proposed", f"proposed {p.get('protocolVersion')!r}, expected {expected_proposal!r} "
                          f"(list {lst}, preferred {case['preferred']!r})", case)
        if not isinstance(p.get("capabilities"), dict) or not isinstance(p.get("clientInfo"), dict):
            ctx.violation("initialize_params_incomplete", f"initialize params {p!r}", case)
    inits = [e for e in sends if getattr(e["obj"], "method", None) == "initialize"]
    notes = [e for e in sends if getattr(e["obj"], "method", None) == "notifications/initialized"]
    others = [e for e in sends if e not in inits and e not in notes]
    if len(inits) != 1:
        ctx.violation("initialize_write_count", f"{len(inits)} initialize requests written", case)
    if others:
        ctx.violation("unexpected_write", f"unexpected writes {[e['item'] for e in others]}", case)
    late_writes = [e for e in sends if trace.events.index(e) >= obs["n_events_at_return"]]
    if late_writes:
        ctx.violation("write_after_return", f"writes after the call returned: {[e['item'] for e in late_writes]}", case)

    # ---- classify the answer ------------------------------------------------
    ak = ans["kind"]
    accepted_version = None
    if ak in ("version", "distractors_then") and "unbuildable" not in obs:
        v = ans["v"]
        if v in lst:
            accepted_version = v
    if accepted_version is not None:
        # must succeed
        if okind != "return":
            ctx.violation("listed_version_rejected", f"server answered listed version {accepted_version!r} but the call "
                          f"raised {oval!r}", case)
        else:
            if getattr(oval, "protocolVersion", None) != accepted_version:
                ctx.violation("returned_version_differs", f"returned version {getattr(oval, 'protocolVersion', None)!r} "
                              f"!= server answer {accepted_version!r}", case)
            if len(notes) != 1:
                ctx.violation("initialized_count", f"{len(notes)} initialized notifications on success", case)
            else:
                n = notes[0]
                d = n["obj"].model_dump(exclude_none=True)
                if "id" in d:
                    ctx.violation("initialized_has_id", f"initialized notification carries an id: {d!r}", case)
                resp_rx = [e for e in recvs if e["item"].get("id") == first.get("id")]
                if not resp_rx or n["seq"] < resp_rx[0]["seq"]:
                    ctx.violation("initialized_before_acceptance", "initialized notification written before the "
                                  "server's answer was received", case)
            if case["tracked"]:
                bi = obs["binfo"]
                if bi["protocol_version"] != accepted_version or bi["batching_enabled"] != ref_batching(accepted_version):
                    ctx.violation("tracked_batching_mode", f"tracked client reports {bi}, negotiated {accepted_version!r}", case)
        shape = "accepted"
    else:
        # must not succeed, must not send initialized
        if okind == "return":
            mech = "settled_on_unoffered_version" if ak in ("version", "distractors_then") else \
                "returned_on_bad_answer"
            ctx.violation(mech, f"call returned {oval!r} for answer {ans!r}; client list {lst}", case)
        if notes:
            ctx.violation("initialized_after_failure", f"initialized notification sent although answer was {ans!r}", case)
        if case["tracked"] and obs["binfo"]["protocol_version"] is not None:
            ctx.violation("tracked_version_set_on_failure", f"tracked client has version {obs['binfo']} after failure", case)
        if okind == "raise":
            if ak in ("version", "distractors_then") and "unbuildable" not in obs:
                if not isinstance(oval, VersionMismatchError):
                    ctx.violation("mismatch_wrong_exception", f"unoffered version {ans['v']!r} raised {oval!r} instead "
                                  f"of VersionMismatchError", case)
            elif ak == "error":
                if not isinstance(oval, (RetryableError, NonRetryableError, VersionMismatchError)):
                    ctx.violation("error_wrong_exception", f"JSON-RPC error {ans['code']} raised {oval!r}", case)
                elif not isinstance(oval, VersionMismatchError) and oval.code != ans["code"]:
                    ctx.violation("error_wrong_exception", f"JSON-RPC error {ans['code']} raised code {oval.code}", case)
            elif ak in ("silence", "late"):
                if not isinstance(oval, TimeoutError):
                    ctx.violation("silence_wrong_exception", f"silence raised {oval!r}", case)
                elif abs(obs["t_done"] - TIMEOUT) > 0.001:
                    ctx.violation("timeout_time", f"TimeoutError at {obs['t_done']}", case)
        shape = "rejected:" + (type(oval).__name__ if okind == "raise" else "RETURNED")
    if obs["t_done"] > TIMEOUT + 0.001:
        ctx.violation("deadline_overrun", f"ended at {obs['t_done']}", case)
    ctx.record(case, shape=[shape, len(notes)], cls=f"{ak}:{shape.split(':')[0]}",
               sample={"case": case, "proposed": (first.get('params') or {}).get('protocolVersion'),
                       "outcome": shape, "writes": [e["item"] for e in sends]})


def exec_retry(ctx, case: Dict[str, Any]) -> None:
    """A first attempt times out; its answer arrives late; the caller retries on the same streams and the server
    answers the retry in its own way.  The retry's outcome must be decided by the answer to the retry alone."""
    from chuk_mcp.protocol.messages.initialize.send_messages import (send_initialize,
                                                                      send_initialize_with_client_tracking)
    from chuk_mcp.protocol.messages.json_rpc_message import parse_message
    from chuk_mcp.protocol.types.errors import VersionMismatchError
    import importlib
    SC = importlib.import_module("chuk_mcp.transports.stdio.stdio_client")
    from chuk_mcp.transports.stdio.parameters import StdioParameters
    lst, second = case["supported"], case["second"]

    async def main():
        pipe = Pipe()
        loop = asyncio.get_running_loop()
        client = SC.StdioClient(StdioParameters(command="never-started")) if case["tracked"] else None
        outs = []

        async def server():
            r1 = await pipe.srv_recv.receive()
            await vsleep_until(TIMEOUT + 0.1)
            # the answer to the abandoned first attempt: a perfectly acceptable version
            pipe.srv_send.send_nowait(parse_message(build_answer({"kind": "version", "v": lst[0]}, r1.id)))
            while True:
                r2 = await pipe.srv_recv.receive()
                if getattr(r2, "method", None) == "initialize":
                    break
            if second["kind"] != "silence":
                await asyncio.sleep(0.1)
                pipe.srv_send.send_nowait(parse_message(build_answer(second, r2.id)))

        st = asyncio.create_task(server(), name="server")
        kw = dict(timeout=TIMEOUT, supported_versions=list(lst), preferred_version=None)
        for attempt in (1, 2):
            if attempt == 2:
                await vsleep_until(TIMEOUT + 0.2)
            try:
                if case["tracked"]:
                    res = await send_initialize_with_client_tracking(pipe.read, pipe.write, client, **kw)
                else:
                    res = await send_initialize(pipe.read, pipe.write, **kw)
                outs.append(("return", res))
            except BaseException as e:  # noqa
                if isinstance(e, (KeyboardInterrupt, SystemExit)):
                    raise
                outs.append(("raise", e))
        await asyncio.sleep(0.5)
        st.cancel()
        trace = pipe.trace
        binfo = client.get_batching_info() if client is not None else None
        pipe.close()
        return outs, trace, binfo

    try:
        (outs, trace, binfo), _ = run_virtual(main, max_iterations=100_000)
    except HangDetected as e:
        ctx.violation("hang", f"retry: {e}", case)
        return
    ctx.count("handshakes", 2)
    ctx.count("retry_sequences")
    sends = [e for e in trace.events if e["op"] == "send"]
    notes = [e for e in sends if getattr(e["obj"], "method", None) == "notifications/initialized"]
    (k1, v1), (k2, v2) = outs
    if k1 != "raise" or not isinstance(v1, TimeoutError):
        ctx.violation("silence_wrong_exception", f"first attempt (server silent) ended with {v1!r}", case)
    ok_version = second["kind"] == "version" and second["v"] in lst
    if ok_version:
        if k2 != "return" or getattr(v2, "protocolVersion", None) != second["v"]:
            ctx.violation("returned_version_differs", f"retry answered with listed version {second['v']!r}; the call gave {v2!r} "
                          f"(the late answer to the first attempt said {lst[0]!r})", case)
        if len(notes) != 1:
            ctx.violation("initialized_count", f"{len(notes)} initialized notifications after a successful retry", case)
        if case["tracked"] and binfo["protocol_version"] != second["v"]:
            ctx.violation("tracked_batching_mode", f"tracked client reports {binfo} after the retry agreed on {second['v']!r}", case)
    else:
        if k2 == "return":
            ctx.violation("stale_answer_accepted", f"the retry was answered with {second!r} yet the call returned "
                          f"{getattr(v2, 'protocolVersion', v2)!r} - the late answer to the abandoned first attempt", case)
        if notes:
            ctx.violation("initialized_after_failure", f"{len(notes)} initialized notifications although the retry failed", case)
        if case["tracked"] and binfo["protocol_version"] is not None:
            ctx.violation("tracked_version_set_on_failure", f"tracked client has {binfo} after a failed retry", case)
    ctx.record(case, shape=[k1, k2, len(notes)], nontrivial=True, cls=f"retry:{second['kind']}",
               sample={"case": case, "outcomes": [k1, type(v1).__name__, k2, type(v2).__name__]})


def exec_history(ctx, hist: Dict[str, Any]) -> None:
    """Several initializations in one process given ONE list object, which the caller edits in place between them."""
    shared: List[str] = []
    for k, step in enumerate(hist["steps"]):
        shared[:] = step["list"]
        case = {"supported": list(step["list"]), "preferred": step.get("preferred"), "answer": step["answer"],
                "tracked": bool(step.get("tracked")), "history": hist, "history_step": k}
        ctx.count("history_handshakes")
        exec_case(ctx, case, shared_list=shared)


def history_cases(ctx):
    A, B, C, D = "2025-06-18", "2025-03-26", "2024-11-05", "2026-01-01"
    echo = {"kind": "echo"}
    out = []
    for tracked in (False, True):
        # the first entry is withdrawn / replaced / preceded by a new one; the preferred version is withdrawn / added
        out.append({"steps": [{"list": [A, B], "answer": echo, "tracked": tracked}, {"list": [B], "answer": echo, "tracked": tracked}]})
        out.append({"steps": [{"list": [B, C], "answer": echo, "tracked": tracked}, {"list": [D, B, C], "answer": echo, "tracked": tracked},
                              {"list": [C], "answer": {"kind": "version", "v": B}, "tracked": tracked}]})
        out.append({"steps": [{"list": [A, B], "preferred": B, "answer": echo, "tracked": tracked},
                              {"list": [A], "preferred": B, "answer": echo, "tracked": tracked},
                              {"list": [A, C], "preferred": C, "answer": echo, "tracked": tracked}]})
        out.append({"steps": [{"list": [A], "preferred": C, "answer": echo, "tracked": tracked},
                              {"list": [A, C], "preferred": C, "answer": echo, "tracked": tracked},
                              {"list": [C, A], "preferred": None, "answer": {"kind": "version", "v": A}, "tracked": tracked}]})
    rng = ctx.sub_rng("c03hist")
    pool = [A, B, C, D, "2023-01-01"]
    for _ in range(20 if ctx.tier == "quick" else 400):
        steps = []
        for _k in range(rng.randint(2, 4)):
            lst = rng.sample(pool, rng.randint(1, 3))
            steps.append({"list": lst, "preferred": rng.choice([None, None, rng.choice(pool)]),
                          "answer": rng.choice([echo, echo, {"kind": "version", "v": rng.choice(pool)}]), "tracked": rng.random() < 0.5})
        out.append({"steps": steps})
    return out


def entry_point_tier(ctx):
    """Every callable of the library that takes `supported_versions` (found by signature, not from a list) against a
    server that echoes whatever is proposed: the proposal - and so the version settled on - must come from the caller's
    list, whichever entry point was used."""
    import importlib
    import inspect
    import json
    import pkgutil
    import chuk_mcp
    from chuk_mcp.transports.stdio.parameters import StdioParameters
    from vf.recorders import OpenProcessPatch, ScriptedProcess
    found = {}
    for mi in pkgutil.walk_packages(chuk_mcp.__path__, "chuk_mcp."):
        if mi.name.endswith("__main__"):
            continue
        try:
            m = importlib.import_module(mi.name)
        except Exception:  # noqa
            continue
        for n, f in vars(m).items():
            g = getattr(f, "__wrapped__", f)
            if callable(f) and getattr(g, "__module__", None) == m.__name__ and not inspect.isclass(f):
                try:
                    sig = inspect.signature(g)
                except (TypeError, ValueError):
                    continue
                if "supported_versions" in sig.parameters and "server" in "".join(sig.parameters) :
                    found[f"{m.__name__}.{n}"] = (f, sig)
    ctx.extra["version_taking_entry_points"] = sorted(found)
    for name, (fn, sig) in sorted(found.items()):
        for lst, pref in ((["2024-11-05"], None), (["2025-03-26", "2024-11-05"], None), (["2025-03-26", "2024-11-05"], "2024-11-05"),
                          (["2026-01-01", "2025-06-18"], "2025-06-18")):
            case = {"entry_point": name, "supported": lst, "preferred": pref}
            want = pref if pref in lst else lst[0]
            proposed: List[Any] = []

            def factory(command, **kw):
                p = ScriptedProcess([], hold_open=True)
                orig = p.stdin.send

                async def send(data):
                    await orig(data)
                    for line in data.split(b"\n"):
                        try:
                            req = json.loads(line)
                        except Exception:  # noqa
                            continue
                        if isinstance(req, dict) and req.get("method") == "initialize":
                            v = (req.get("params") or {}).get("protocolVersion")
                            proposed.append(v)
                            p.feed((json.dumps({"jsonrpc": "2.0", "id": req["id"], "result": {
                                "protocolVersion": v, "capabilities": {}, "serverInfo": {"name": "echo", "version": "1"}}}) + "\n").encode())
                p.stdin.send = send
                return p

            async def main():
                out: Dict[str, Any] = {}
                first = next(iter(sig.parameters))
                kw = {first: StdioParameters(command="scripted"), "supported_versions": list(lst), "preferred_version": pref}
                if "timeout" in sig.parameters:
                    kw["timeout"] = 2.0
                try:
                    with OpenProcessPatch(factory):
                        obj = fn(**kw)
                        if hasattr(obj, "__aenter__"):
                            async with obj as got:
                                init = got[2] if isinstance(got, tuple) and len(got) > 2 else None
                                out["settled"] = getattr(init, "protocolVersion", None)
                        else:
                            # the old API: an async generator that yields (read, write, init result) once
                            try:
                                async for got in obj:
                                    init = got[2] if isinstance(got, tuple) and len(got) > 2 else None
                                    out["settled"] = getattr(init, "protocolVersion", None)
                            finally:
                                await obj.aclose()
                except BaseException as e:  # noqa
                    if isinstance(e, (KeyboardInterrupt, SystemExit)):
                        raise
                    out["error"] = e
                return out
            try:
                out, _ = run_virtual(main, max_iterations=200_000)
            except HangDetected as e:
                ctx.violation("hang", f"{name}: {e}", case)
                continue
            ctx.count("entry_point_handshakes")
            if proposed != [want]:
                ctx.violation("wrong_version_proposed", f"{name}(supported_versions={lst}, preferred_version={pref!r}) proposed "
                              f"{proposed!r}, expected [{want!r}]", case)
            if out.get("settled") is not None and out["settled"] not in lst:
                ctx.violation("settled_on_unoffered_version", f"{name}(supported_versions={lst}) settled on {out['settled']!r}", case)
            ctx.record(case, shape=[proposed, out.get("settled"), type(out.get("error")).__name__], nontrivial=True,
                       cls="entry_point:" + name.rsplit(".", 1)[-1], sample={"case": case, "proposed": proposed, "settled": out.get("settled")})
    ctx.require_reached("entry_point_handshakes")


def run(ctx):
    if ctx.shard[0] == 0:
        entry_point_tier(ctx)
    for hist in history_cases(ctx):
        if ctx.mine():
            exec_history(ctx, hist)
    for lst in (["2025-06-18", "2025-03-26"], ["2025-03-26"], ["2024-11-05", "2025-06-18", "2099-01-01"]):
        for second in ({"kind": "version", "v": "1999-01-01"}, {"kind": "version", "v": lst[-1]}, {"kind": "error", "code": -32600, "msg": "no"},
                       {"kind": "error", "code": -32603, "msg": "boom"}, {"kind": "silence"}, {"kind": "malformed", "what": "missing_version"}):
            for tracked in (False, True):
                case = {"retry": True, "supported": lst, "second": second, "tracked": tracked}
                if ctx.mine():
                    exec_retry(ctx, case)
    for case in gen_cases(ctx):
        if not ctx.mine():
            continue
        if ctx.out_of_time():
            break
        exec_case(ctx, case)
    ctx.require_reached("handshakes")


def replay(ctx, case):
    if case.get("history"):
        exec_history(ctx, case["history"])
        return
    if case.get("retry"):
        exec_retry(ctx, case)
        return
    exec_case(ctx, case)
    ctx.record({"x": 1}, shape=1)
