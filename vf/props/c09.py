"""C09 - Pydantic and fallback validation backends agree on all spec-valid traffic."""
from __future__ import annotations

import os
import pickle
import shutil
import subprocess
import tempfile
from typing import Any, Dict, List

from vf import modelgen
from vf.core import PY, ROOT, child_env
from vf.ref import tagged

ID = "C09"
LEVEL = "exploration"
SHARDS = {"quick": 1, "thorough": 8}
BUDGET_S = {"quick": 120.0, "thorough": 900.0}
TECHNIQUE = ("runtime monitoring: differential execution - the same generated valid wire objects validated and re-serialised "
             "in two worker processes (Pydantic v2 / MCP_FORCE_FALLBACK=1); reports compared field by field")
LEVEL_TEXT = ("For every McpPydanticBase subclass found by walking chuk_mcp.protocol (discovered, not listed) type-directed "
              "valid wire objects (every value class per field, optional-field subsets, aliases under wire names, extra "
              "members) and JSON-RPC envelopes of all four kinds with every id shape are validated under both backends in "
              "separate processes; acceptance, the class at every model-typed position, the type-tagged re-serialisation, "
              "message kind and type(id) must be identical, and each documented invariant must be enforced by both or neither."
              " Numeric ranges of the priority members are pinned from the schema (0..1 inclusive) and probed on both sides under both backends."
              " The reverse-order workers also hold an application module whose generic aliases share names with model classes; extras named after the implementation's vocabulary."
              ' Also 80 wire objects pinned from the 2025-06-18 specification (vf/spec_examples.py) for 45 models, and unknown members spelled like the Python name of an aliased field.'
              ' Also, at every model-typed position, the object whose required members hold the empty value of their type; and every module imported in a process where Pydantic cannot be imported at all.'
              ' Also every case validated by four threads released together (the fallback backend, first use of each class in the process), compared with the single-threaded Pydantic run.'
              ' Also what == gives for each validated object against the same wire object validated again and against the previous object of its class.'
              " Also the JSON text form with the method's own defaults (model_dump_json() without arguments), parsed back and compared.")
LEVEL_NOTE = ("Trusted: MCP_FORCE_FALLBACK=1 selects the fallback (each worker reports PYDANTIC_AVAILABLE; the run is "
              "inconclusive if the two reports do not differ); the generator's notion of spec-valid (required present, "
              "Literals at their value, no explicit null for optional members). Transport parameter classes are config "
              "objects, not traffic, and are excluded.")
RULE = ("case = (model class, wire object) | JSON-RPC envelope | invariant probe. Non-trivial: object has >=1 member; "
        "distinct = hash(case).")
ASSUMPTIONS = ["int-for-float fields compare numerically (a wire 1 for a float field may come back as 1 or 1.0)"]


def run_workers(cases: List[Dict[str, Any]]):
    tmp = tempfile.mkdtemp(prefix="vf_models_")
    try:
        inp = os.path.join(tmp, "in.pkl")
        pickle.dump(cases, open(inp, "wb"))
        outs = {}
        procs = {}
        # each backend validates the cases twice, in separate processes: in the given order and in reverse order
        # (per-process caches keyed too coarsely make the outcome depend on which class was validated first)
        rinp = os.path.join(tmp, "in_rev.pkl")
        pickle.dump(list(reversed(cases)), open(rinp, "wb"))
        for b in ("pydantic", "fallback"):
            for order, path in (("fwd", inp), ("rev", rinp)):
                env = child_env()
                env.pop("MCP_FORCE_FALLBACK", None)
                if order == "rev":
                    # the reverse-order processes also hold an unrelated application module whose generic aliases share
                    # their names with model classes
                    env["VF_APP_MODULE"] = "1"
                procs[(b, order)] = subprocess.Popen([PY, "-B", "-m", "vf.workers.model_worker", b, path,
                                                      os.path.join(tmp, f"{b}_{order}.pkl")],
                                                     env=env, cwd=ROOT, stdout=subprocess.PIPE, stderr=subprocess.PIPE)
        # ... and once more with four threads validating every case simultaneously
        # (the fallback backend only: with Pydantic installed the first use of a class whose annotations were not
        # resolvable at class creation rebuilds it inside Pydantic, and that rebuild is not thread-safe in Pydantic 2.13
        # itself - AttributeError __pydantic_core_schema__ seen once in four threads - which is not this library's code;
        # the threaded fallback run is compared with the single-threaded Pydantic run)
        for b in ("fallback",):
            env = child_env()
            env.pop("MCP_FORCE_FALLBACK", None)
            env["VF_THREADS"] = "4"
            procs[(b, "thr")] = subprocess.Popen([PY, "-B", "-m", "vf.workers.model_worker", b, inp,
                                                  os.path.join(tmp, f"{b}_thr.pkl")],
                                                 env=env, cwd=ROOT, stdout=subprocess.PIPE, stderr=subprocess.PIPE)
        for (b, order), p in procs.items():
            _, err = p.communicate(timeout=1500)
            if p.returncode != 0:
                raise RuntimeError(f"{b}/{order} worker failed: {err.decode(errors='replace')[-800:]}")
            o = pickle.load(open(os.path.join(tmp, f"{b}_{order}.pkl"), "rb"))
            if order == "rev":
                o["reports"] = list(reversed(o["reports"]))
                outs[b + "_rev"] = o
            elif order == "thr":
                outs[b + "_thr"] = o
            else:
                outs[b] = o
        return outs
    finally:
        shutil.rmtree(tmp, ignore_errors=True)


def num_tagged(v: Any) -> Any:
    """tagged() but ints and integral floats compare equal (declared-float fields)."""
    if isinstance(v, bool) or v is None or isinstance(v, str):
        return tagged(v)
    if isinstance(v, (int, float)):
        return ("num", float(v)) if float(v) == v and abs(v) < 2**53 else tagged(v)
    if isinstance(v, (list, tuple)):
        return ("list", tuple(num_tagged(x) for x in v))
    if isinstance(v, dict):
        return ("dict", tuple(sorted((str(k), num_tagged(x)) for k, x in v.items())))
    return tagged(v)


def first_diff(a: Any, b: Any, path: str = "") -> str:
    if isinstance(a, dict) and isinstance(b, dict):
        for k in sorted(set(a) | set(b), key=str):
            if k not in a:
                return f"{path}.{k}: missing under pydantic, fallback has {b[k]!r}"
            if k not in b:
                return f"{path}.{k}: pydantic has {a[k]!r}, missing under fallback"
            d = first_diff(a[k], b[k], f"{path}.{k}")
            if d:
                return d
        return ""
    if isinstance(a, list) and isinstance(b, list):
        if len(a) != len(b):
            return f"{path}: lengths {len(a)} vs {len(b)}"
        for i, (x, y) in enumerate(zip(a, b)):
            d = first_diff(x, y, f"{path}[{i}]")
            if d:
                return d
        return ""
    if num_tagged(a) != num_tagged(b):
        return f"{path}: pydantic {a!r} ({type(a).__name__}) vs fallback {b!r} ({type(b).__name__})"
    return ""


def classify_dump_diff(diff: str, case) -> str:
    d = diff.lower()
    if "(str) vs fallback" in diff and "(int)" in diff or "(int) vs fallback" in diff and "(str)" in diff:
        return "str_int_coercion_differs"
    if "(float)" in diff and "(int)" in diff:
        return "float_int_coercion_differs"
    if "(bool)" in diff:
        return "bool_coercion_differs"
    if "missing under" in diff:
        return "member_presence_differs"
    return "dump_differs"


def import_tier(ctx):
    """Without Pydantic *installed* (not just switched off): every module of the library must still import."""
    import json as _json
    tmp = tempfile.mkdtemp(prefix="vf_c09imp_")
    try:
        outp = os.path.join(tmp, "out.json")
        env = child_env()
        env.pop("MCP_FORCE_FALLBACK", None)
        r = subprocess.run([PY, "-B", "-m", "vf.workers.nopydantic_import_worker", outp], env=env, cwd=ROOT,
                           capture_output=True, text=True, timeout=300)
        if r.returncode != 0 or not os.path.exists(outp):
            ctx.inconclusive_because(f"no-pydantic import worker failed: {r.stderr[-300:]}")
            return
        o = _json.load(open(outp))
    finally:
        shutil.rmtree(tmp, ignore_errors=True)
    if o["pydantic_available"] is not False:
        ctx.inconclusive_because("blocking pydantic was not effective in the import worker")
        return
    ctx.count("modules_imported_without_pydantic", o["imported"])
    for mod, err in sorted(o["failed"].items()):
        ctx.violation("module_unimportable_without_pydantic", f"with Pydantic not installed, importing {mod} fails: {err}",
                      {"module": mod})
    if o.get("params_error"):
        ctx.violation("module_unimportable_without_pydantic", f"with Pydantic not installed the transports' parameter models "
                      f"cannot be built: {o['params_error']}", {"module": "transport parameters"})
    ctx.record({"import_tier": True}, shape=[o["imported"], len(o["failed"])], nontrivial=True, cls="import_without_pydantic",
               sample={"imported": o["imported"], "failed": o["failed"]})


def run(ctx):
    if ctx.shard[0] == 0:
        import_tier(ctx)
    rng = ctx.sub_rng("c09")
    cases, per_class = modelgen.build_cases(rng, ctx.tier)
    env_cases = modelgen.envelope_cases()
    inv_cases = modelgen.invariant_cases()
    from vf import spec_examples
    allc = cases + env_cases + inv_cases + spec_examples.cases()
    mine = [c for c in allc if ctx.mine()]
    ctx.extra["model_classes_discovered"] = len(per_class)
    ctx.extra["cases_per_class"] = {k.split(":")[1] + "@" + k.split(":")[0].split(".")[-2]: v for k, v in per_class.items()}
    try:
        outs = run_workers(mine)
    except Exception as e:  # noqa
        ctx.inconclusive_because(f"workers failed: {e!r}")
        return
    if outs["pydantic"]["pydantic_available"] is not True or outs["fallback"]["pydantic_available"] is not False:
        ctx.inconclusive_because("backend selection not effective (PYDANTIC_AVAILABLE identical in both workers)")
        return
    pairs = list(zip(mine, outs["pydantic"]["reports"], outs["fallback"]["reports"], ["fwd"] * len(mine))) + \
        list(zip(mine, outs["pydantic_rev"]["reports"], outs["fallback_rev"]["reports"], ["rev"] * len(mine))) + \
        list(zip(mine, outs["pydantic"]["reports"], outs["fallback_thr"]["reports"], ["threads"] * len(mine)))
    ctx.count("thread_disagreements_fallback", outs["fallback_thr"].get("thread_disagreements", 0))
    for c, rp, rf, order in pairs:
        ctx.count("cases_compared")
        ctx.count("order:" + order)
        case = {k: v for k, v in c.items()}
        if order == "rev":
            case["validation_order"] = "reverse"
        if order == "threads":
            case["validation"] = "four threads at once"
            for side, rr in (("fallback", rf),):
                if rr.get("thread_disagreement"):
                    ctx.violation("threads_disagree", f"{c.get('cls', 'envelope')}: four threads validating the same object at the same "
                                  f"moment under the {side} backend did not all see the same: {rr['thread_disagreement']}", case)
        cls = c.get("cls", "envelope").split(":")[-1]
        if c["kind"] == "invariant":
            okp, okf = rp.get("ok"), rf.get("ok")
            if okp != okf:
                only = "fallback" if okp else "pydantic"
                ctx.violation(f"invariant_enforced_only_by_{only}:{cls}",
                              f"{cls} {str(c['wire'])[:80]}: pydantic {'accepts' if okp else 'rejects'}, fallback "
                              f"{'accepts' if okf else 'rejects'} ({rp.get('err') or rf.get('err')})", case)
            if c["valid"] and not (okp and okf):
                ctx.violation("valid_input_rejected", f"{cls}: valid invariant probe rejected: {rp.get('err')} / {rf.get('err')}", case)
            ctx.record(case, shape=[okp, okf], cls="invariant")
            continue
        if c["kind"] == "envelope":
            if not rp.get("ok") or not rf.get("ok"):
                ctx.violation("valid_envelope_rejected", f"envelope {c['wire']!r}: pydantic ok={rp.get('ok')} "
                              f"({rp.get('err')}), fallback ok={rf.get('ok')} ({rf.get('err')})", case)
                ctx.record(case, shape="reject", cls="envelope")
                continue
            if rp["kind"] != rf["kind"] or rp["kind"] != c["expect"]:
                ctx.violation("envelope_kind_differs", f"{c['wire']!r}: kind pydantic={rp['kind']} fallback={rf['kind']} "
                              f"expected {c['expect']}", case)
            if c.get("float_id"):
                if (rp["id_type"], tagged(rp["id"])) != (rf["id_type"], tagged(rf["id"])):
                    ctx.violation("id_type_changed", f"id {c['wire']['id']!r}: pydantic parses it as {rp['id']!r} ({rp['id_type']}), "
                                  f"fallback as {rf['id']!r} ({rf['id_type']})", case)
            elif "id" in c["wire"]:
                want = type(c["wire"]["id"]).__name__
                for lab, r in (("pydantic", rp), ("fallback", rf)):
                    if r["id_type"] != want or tagged(r["id"]) != tagged(c["wire"]["id"]):
                        ctx.violation("id_type_changed", f"{lab}: id {c['wire']['id']!r} ({want}) parsed as {r['id']!r} "
                                      f"({r['id_type']})", case)
                    if r.get("typed_ok") and (r["typed_id_type"] != want or tagged(r["typed_id"]) != tagged(c["wire"]["id"])):
                        ctx.violation("id_type_changed", f"{lab} typed class: id {c['wire']['id']!r} ({want}) became "
                                      f"{r['typed_id']!r} ({r['typed_id_type']})", case)
            if rp.get("typed_ok") != rf.get("typed_ok"):
                ctx.violation("typed_envelope_acceptance_differs", f"{c['wire']!r}: typed class accepted by pydantic="
                              f"{rp.get('typed_ok')} fallback={rf.get('typed_ok')} ({rp.get('typed_err') or rf.get('typed_err')})", case)
            d = first_diff(rp.get("dump"), rf.get("dump"))
            if d:
                ctx.violation("envelope_dump_differs", f"{c['wire']!r}: {d}", case)
            if rp.get("typed_ok") and rf.get("typed_ok"):
                d = first_diff(rp.get("typed_dump"), rf.get("typed_dump"))
                if d:
                    ctx.violation("envelope_dump_differs", f"typed {c['wire']!r}: {d}", case)
            ctx.record(case, shape=[rp["kind"], rp["id_type"], rf["id_type"]], cls="envelope:" + c["expect"])
            continue
        # ---- model case ---------------------------------------------------------------
        okp, okf = rp.get("ok"), rf.get("ok")
        if not okp or not okf:
            if okp != okf:
                ctx.violation("acceptance_differs", f"{cls}: pydantic {'accepts' if okp else 'rejects'}, fallback "
                              f"{'accepts' if okf else 'rejects'}: {rp.get('err') or rf.get('err')}", case)
            elif c["kind"] == "spec_example":
                # not an object derived from the model's own declaration but one the specification shows
                ctx.violation(f"spec_example_rejected:{cls}@{c['cls'].split(':')[0].split('.')[-2]}:{c['tag']}",
                              f"{c['cls']}: example #{c['example']} from the 2025-06-18 specification {str(c['wire'])[:160]} is "
                              f"rejected by both backends: {str(rp.get('err'))[:200]}", case)
            else:
                ctx.count("generated_object_rejected_by_both")
            ctx.record(case, shape=[okp, okf], cls="model_reject")
            continue
        if rp.get("tree") != rf.get("tree"):
            d = first_diff(rp.get("tree"), rf.get("tree"))
            ctx.violation("model_variant_differs", f"{cls}: typed differently - {d}", case,
                          {"pydantic": rp.get("tree"), "fallback": rf.get("tree")})
        if "dump_err" in rp or "dump_err" in rf:
            if ("dump_err" in rp) != ("dump_err" in rf):
                shadow = sorted(set(c["wire"]) & modelgen.API_NAMES) if isinstance(c.get("wire"), dict) else []
                if shadow and "dump_err" in rf and "not callable" in str(rf.get("dump_err")):
                    ctx.violation("api_named_extra_member_shadows_method_under_fallback",
                                  f"{cls}: extra member(s) {shadow} - fallback dump fails ({rf.get('dump_err')}), pydantic dumps", case)
                else:
                    ctx.violation("dump_failure_differs", f"{cls}: {rp.get('dump_err')} / {rf.get('dump_err')}", case)
        else:
            d = first_diff(rp["dump"], rf["dump"])
            if d:
                mech = classify_dump_diff(d, c)
                try:
                    mf = modelgen.discover_models()[c["cls"]].model_fields
                    if any(f.alias and f.alias != a and a in c["wire"] and f.alias in c["wire"] for a, f in mf.items()):
                        mech = "python_named_member_next_to_aliased_member_differs"
                except Exception:  # noqa
                    pass
                ctx.violation(mech, f"{cls}: re-serialisation differs - {d}", case)
        if "json_default" in rp and "json_default" in rf and "dump_err" not in rp and "dump_err" not in rf:
            dj = first_diff(rp["json_default"], rf["json_default"])
            if dj:
                mechj = classify_dump_diff(dj, c)
                try:
                    mfj = modelgen.discover_models()[c["cls"]].model_fields
                    if any(f.alias and f.alias != a and a in c["wire"] for a, f in mfj.items()):
                        mechj = "python_named_member_next_to_aliased_member_differs"
                except Exception:  # noqa
                    pass
                ctx.violation(mechj if mechj.startswith("python_named") else "default_json_text_differs",
                              f"{cls}: model_dump_json() with no arguments differs between the backends - {dj}", case)
            else:
                ctx.count("default_json_texts_compared")
        elif ("json_default_err" in rp) != ("json_default_err" in rf) and "dump_err" not in rp and "dump_err" not in rf:
            ctx.violation("default_json_text_differs", f"{cls}: model_dump_json() with no arguments: pydantic "
                          f"{rp.get('json_default_err', 'ok')}, fallback {rf.get('json_default_err', 'ok')}", case)
        ep, ef = dict(rp.get("eq") or {}), dict(rf.get("eq") or {})
        if rp.get("eq_prev_case") != rf.get("eq_prev_case"):
            # the two backends do not have the same previous object of this class (one of them rejected a case in
            # between - an acceptance difference judged where it occurs): only the self-comparison is comparable
            ep = {k: v for k, v in ep.items() if k == "same_wire_twice"}
            ef = {k: v for k, v in ef.items() if k == "same_wire_twice"}
            ctx.count("equality_previous_not_comparable")
        if order != "threads" and ep != ef and "err" not in ep and "err" not in ef:
            mech = "equality_differs"
            try:
                mf = modelgen.discover_models()[c["cls"]].model_fields
                keys = set(c["wire"]) | set(rp.get("eq_prev_keys") or [])
                if any(f.alias and f.alias != a and a in keys for a, f in mf.items()):
                    # one of the two objects carries an unknown member spelled like the Python name of an aliased field:
                    # the recorded defect (the member is renamed / lost), seen through ==
                    mech = "python_named_member_next_to_aliased_member_differs"
            except Exception:  # noqa
                pass
            ctx.violation(mech, f"{cls}: comparing validated objects gives pydantic={rp.get('eq')} fallback={rf.get('eq')} "
                          f"(same_wire_twice: this wire object validated twice; previous_of_class: against the previously "
                          f"validated object of the class)", case)
        elif order != "threads" and rp.get("eq"):
            ctx.count("equality_observations")
        ctx.record(case, shape=None, nontrivial=bool(c["wire"]), cls="model:" + cls,
                   sample={"cls": c["cls"], "wire": c["wire"], "tree": rp.get("tree")})
    ctx.require_reached("cases_compared")


def replay(ctx, case):
    try:
        outs = run_workers([case])
    except Exception as e:  # noqa
        ctx.inconclusive_because(repr(e))
        return
    import vf.props.c09 as me
    orig = me.run_workers
    bc, ec, ic = modelgen.build_cases, modelgen.envelope_cases, modelgen.invariant_cases
    modelgen.build_cases = lambda r, t: ([case] if case["kind"] in ("model", "spec_example") else [], {})
    modelgen.envelope_cases = lambda: [case] if case["kind"] == "envelope" else []
    modelgen.invariant_cases = lambda: [case] if case["kind"] == "invariant" else []
    try:
        run(ctx)
    finally:
        modelgen.build_cases, modelgen.envelope_cases, modelgen.invariant_cases = bc, ec, ic
    ctx.record({"x": 1}, shape=1)
    ctx.record({"x": 2}, shape=1)
