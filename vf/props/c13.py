"""C13 - batches are accepted exactly for protocol versions older than 2025-06-18."""
from __future__ import annotations

import itertools
import json
from typing import Any, Dict, List

from vf.ref import classify, norm_wire, msg_to_wire, strict_eq, inbound_class, seq_match
from vf.stdio_harness import run_stdio_script

ID = "C13"
LEVEL = "exploration"
BACKENDS = ["pydantic", "fallback"]   # every case is executed under both validation backends
LOGLEVELS = ["default", "debug"]   # every case also runs with the root logger at DEBUG (as --verbose does)
SHARDS = {"quick": 4, "thorough": 16}
BUDGET_S = {"quick": 90.0, "thorough": 900.0}
TECHNIQUE = ("runtime monitoring: differential oracle supports_batching vs ProtocolVersion.compare over the date "
             "grid (exhaustive in thorough) + read-stream/stdin recorder on a scripted child for the transport behaviour")
LEVEL_TEXT = ("The decision function is compared with the library's own version ordering for every dddd-dd-dd string "
              "(quick: boundary-dense grid of ~60k strings; thorough: all 2.1M strings of years 1990-2199) and checked "
              "for monotonicity; the real StdioClient is then driven by a scripted child with batches of 0-4 mixed "
              "members under every version class, including version changes mid-connection and a tracked handshake."
              " Also tracked handshakes at versions only the caller offers, batches of 100-1000 members, and two clients alive in one process at different versions."
              ' Also a paused consumer with 0-150 messages ahead of a batch while the version changes (all-or-nothing oracle).'
              ' Also responses that carry a protocolVersion member between negotiation and batch.'
              " Also strings the library's own format validator accepts although they are not plain ASCII dates (other Unicode digits, trailing line breaks, other dashes): decision and ordering must agree on them."
              ' Also a re-entered client whose second handshake settles on the same version as the first.'
              ' Also a batch rejected while a message of several pipe buffers is being written to the child (both lines must stay whole), odd version strings, re-entry under the same version.'
              " Also a connection on which nothing is negotiated, opened (directly, as a client object, from a spawned task) inside each handshake wrapper's open block."
              ' Also the first batch written by the server the moment it reads notifications/initialized (and 1-100 ms later), through every handshake wrapper.'
              ' Also batches of 400 kB members (a line beyond a megabyte) arriving in 4 and 64 KiB reads.')
LEVEL_NOTE = ("Trusted: ScriptedProcess stand-in for anyio.open_process (the OS pipe is covered by C05's real-child tier); "
              "the reference validator in vf/ref.py decides which batch members are valid.")
RULE = ("A: version strings (year x month x day grid); B: (version schedule, batch members). Non-trivial A: string parses; "
        "B: batch has >=1 member or is the empty batch at a non-batching version. distinct = hash(case)+hash(observed).")
ASSUMPTIONS = ["'valid member' = accepted by the independent JSON-RPC 2.0 validator in vf/ref.py",
               "a nested array inside a batch is an invalid member"]

CUTOFF = "2025-06-18"


def decision_cases(ctx):
    if ctx.tier == "thorough":
        for y in range(1990, 2200):
            yield [f"{y:04d}-{m:02d}-{d:02d}" for m in range(100) for d in range(100)]
    else:
        months = [0, 1, 5, 6, 7, 12, 99]
        days = [0, 1, 17, 18, 19, 31, 99]
        blk = []
        for y in range(1990, 2200):
            for m in months:
                for d in days:
                    blk.append(f"{y:04d}-{m:02d}-{d:02d}")
        yield blk
        for y in (2024, 2025, 2026):
            yield [f"{y:04d}-{m:02d}-{d:02d}" for m in range(100) for d in range(100)]


MEMBERS = {
    "req": {"jsonrpc": "2.0", "id": 7, "method": "ping"},
    "req_s": {"jsonrpc": "2.0", "id": "s-1", "method": "roots/list", "params": {}},
    "note": {"jsonrpc": "2.0", "method": "notifications/message", "params": {"level": "info", "data": "é"}},
    "resp": {"jsonrpc": "2.0", "id": "r-1", "result": {"ok": True}},
    "err": {"jsonrpc": "2.0", "id": "r-2", "error": {"code": -32000, "message": "x"}},
    "bad_version": {"jsonrpc": "1.0", "id": 1, "method": "ping"},
    "bad_obj": {"foo": 1},
    "bad_scalar": 42,
    "bad_str": "hello",
    "bad_null": None,
    "bad_both": {"jsonrpc": "2.0", "id": 3, "result": {}, "error": {"code": 1, "message": "m"}},
    "bad_nested": [{"jsonrpc": "2.0", "id": 9, "method": "ping"}],
}
# members far larger than a pipe read (a base64 blob in a result, a long log record)
MEMBERS["big_note"] = {"jsonrpc": "2.0", "method": "notifications/message", "params": {"level": "info", "data": "B" * 400_000}}
MEMBERS["big_resp"] = {"jsonrpc": "2.0", "id": "r-big", "result": {"blob": "R" * 400_000}}
MEMBERS["big_req"] = {"jsonrpc": "2.0", "id": "q-big", "method": "sampling/createMessage", "params": {"messages": [], "pad": "Q" * 400_000}}
MEMBERS["resp_says_old_version"] = {"jsonrpc": "2.0", "id": 71, "result": {"protocolVersion": "2024-11-05", "upstream": "gateway"}}
MEMBERS["resp_says_new_version"] = {"jsonrpc": "2.0", "id": 72, "result": {"protocolVersion": "2025-06-18", "serverInfo": {"name": "x", "version": "1"},
                                                                        "capabilities": {}}}


def _deep(n):
    d = {"leaf": 1}
    for _ in range(n):
        d = {"n": d}
    return d


# invalid members that are also hard to print: deeply nested junk (the library logs the offending member)
MEMBERS["bad_deep300"] = {"foo": _deep(300)}
MEMBERS["bad_deep900"] = {"foo": _deep(900)}
VALID = [k for k in MEMBERS if not k.startswith("bad")]
INVALID = [k for k in MEMBERS if k.startswith("bad")]

VERSIONS = [None, "2024-11-05", "2025-03-26", "2025-06-18", "2025-06-17", "2025-06-19", "2026-01-01",
            "1999-12-31", "garbage", ""]


def ref_batching(v) -> bool:
    """Independent statement of the rule: no version, or date strictly older than 2025-06-18."""
    if not v:
        return True
    import re
    if not re.fullmatch(r"\d{4}-\d{2}-\d{2}", v):
        return True  # unparseable: the property only speaks about well-formed strings; library keeps batching
    return tuple(map(int, v.split("-"))) < (2025, 6, 18)


def transport_cases(ctx):
    rng = ctx.sub_rng("c13b")
    # batches: every single member, the empty batch, pairs valid/invalid, seeded up to 4
    batches: List[List[str]] = [[]] + [[k] for k in MEMBERS]
    for a, b in itertools.product(list(MEMBERS), repeat=2):
        if (a in INVALID) != (b in INVALID) or ctx.tier == "thorough":
            batches.append([a, b])
    n_seeded = 60 if ctx.tier == "quick" else 1500
    for _ in range(n_seeded):
        batches.append([rng.choice(list(MEMBERS)) for _ in range(rng.randint(3, 4))])
    for v in VERSIONS:
        for b in batches:
            yield {"schedule": [["version", v], ["batch", b]]}
    # version change mid-connection: batch, change, batch (and a single message in between)
    for v1, v2 in itertools.permutations(["2025-03-26", "2025-06-18", "2024-11-05", "2025-06-19", None], 2):
        for b in ([["req", "note"], ["resp", "bad_obj", "note"]] if ctx.tier == "quick"
                  else [[k] for k in VALID] + [["req", "note"], ["resp", "bad_obj", "note"], ["bad_scalar", "err"]]):
            yield {"schedule": [["version", v1], ["batch", b], ["single", "note"], ["version", v2], ["batch", b],
                                ["single", "req"]]}
    # tracked handshake decides the mode
    for v in ["2024-11-05", "2025-03-26", "2025-06-18"]:
        for b in [["req", "note"], ["resp"], []]:
            yield {"handshake": v, "schedule": [["batch", b], ["single", "note"]]}
    # ... also when the caller offers (and the server picks) a version the library itself does not list
    for v in OFFERED_ONLY:
        for b in [["req", "note"], ["resp"]]:
            yield {"handshake": v, "offered": [v, "2025-06-18"], "schedule": [["batch", b], ["single", "note"]]}
    # an ordinary response whose result happens to carry a protocolVersion member (a gateway reporting its upstream)
    # arrives between the negotiation and a batch: the mode stays the negotiated one
    for v in (None, "2025-03-26", "2025-06-18", "2024-11-05", "2025-06-19"):
        for sayer in ("resp_says_old_version", "resp_says_new_version"):
            for b in (["req", "note"], ["resp"]):
                yield {"schedule": [["version", v], ["single", sayer], ["batch", b], ["single", "note"]]}
                hv = v or "2025-06-18"
                yield {"handshake": hv, "offered": [hv, "2025-06-18"], "schedule": [["single", sayer], ["batch", b], ["single", "note"]]}
    # batches with more members than the read stream buffers (100)
    for v in (None, "2025-03-26", "2025-06-18"):
        for n in (100, 101, 150) if ctx.tier == "quick" else (100, 101, 150, 400, 1000):
            yield {"schedule": [["version", v], ["batch", [rng.choice(VALID if rng.random() < 0.8 else INVALID) for _ in range(n)]],
                                ["single", "note"]]}
    # two batches in one chunk / batch split across chunks
    for v in ["2025-03-26", "2025-06-18"]:
        yield {"schedule": [["version", v], ["batch2", ["req", "note"], ["resp", "err"]]]}
        yield {"schedule": [["version", v], ["batch_split", ["req", "note", "resp"]]]}


# well-formed versions a caller may put in supported_versions although the library's own list lacks them
OFFERED_ONLY = ["2025-06-17", "2025-06-19", "2025-11-25", "2024-01-01", "2099-12-31"]


def exec_transport(ctx, case: Dict[str, Any]) -> None:
    steps: List[Any] = []
    expected_read: List[Any] = []
    expected_rejections = 0
    cur_v: Any = None
    reactive = None
    if "handshake" in case:
        hv = case["handshake"]

        def reactive(proc, data, _hv=hv):  # answer initialize
            for line in data.decode().splitlines():
                try:
                    o = json.loads(line)
                except Exception:
                    continue
                if o.get("method") == "initialize":
                    proc.feed((json.dumps({"jsonrpc": "2.0", "id": o["id"], "result": {
                        "protocolVersion": _hv, "capabilities": {}, "serverInfo": {"name": "s", "version": "1"}}})
                        + "\n").encode())
        steps.append(("init", dict({"timeout": 5.0}, **({"supported_versions": case["offered"]} if case.get("offered") else {}))))
        cur_v = hv
    for st in case["schedule"]:
        if st[0] == "version":
            if st[1] is not None:
                steps.append(("version", st[1]))
                cur_v = st[1]
            steps.append(("settle",))
        elif st[0] in ("batch", "batch2", "batch_split"):
            blists = [st[1]] if st[0] != "batch2" else [st[1], st[2]]
            payload = b""
            for bl in blists:
                arr = [MEMBERS[k] for k in bl]
                payload += (json.dumps(arr) + "\n").encode()
                if ref_batching(cur_v):
                    for k in bl:
                        c = inbound_class(MEMBERS[k])
                        if c != "invalid":
                            expected_read.append((MEMBERS[k], c == "valid"))
                else:
                    expected_rejections += 1
            if st[0] == "batch_split":
                mid = len(payload) // 2
                steps += [("feed", payload[:mid]), ("settle",), ("feed", payload[mid:]), ("settle",)]
            else:
                steps += [("feed", payload), ("settle",)]
        elif st[0] == "single":
            steps += [("feed", (json.dumps(MEMBERS[st[1]]) + "\n").encode()), ("settle",)]
            expected_read.append((MEMBERS[st[1]], True))
    try:
        out = run_stdio_script(steps, reactive=reactive)
    except Exception as e:  # noqa
        ctx.violation("harness_or_crash", f"driving StdioClient failed: {e!r}", case)
        ctx.record(case, shape="crash")
        return
    ctx.count("stdio_sessions")
    if "init_error" in out:
        ctx.inconclusive_because(f"handshake failed in harness: {out['init_error']!r}")
        return
    got = []
    for m in out["read"]:
        if isinstance(m, list):
            ctx.violation("list_delivered", f"a list object was delivered on the read stream: {m!r}", case)
            continue
        got.append(msg_to_wire(m))
    if "handshake" in case:
        got = [g for g in got if not (isinstance(g.get("result"), dict) and "protocolVersion" in g["result"]
                                      and g.get("id") not in (71, 72))]   # the answer to the handshake itself
    exp_n = [(norm_wire(e), req) for e, req in expected_read]
    got_n = [norm_wire(g) for g in got]
    ok, why = seq_match(got_n, exp_n)
    if not ok:
        required = [e for e, req in exp_n if req]
        if len(got_n) > len(exp_n) and not ref_batching(cur_v):
            mech = "rejected_batch_member_delivered"
        elif any(r not in got_n for r in required):
            mech = "valid_member_lost"
        elif any(g not in [e for e, _ in exp_n] for g in got_n):
            mech = "invalid_member_delivered"
        else:
            mech = "members_reordered"
        ctx.violation(mech, f"read stream delivered {got!r}, expected {[e for e, _ in expected_read]!r}: {why}", case)
    # what was written back to the child
    lines = [l for l in out["stdin"].split(b"\n") if l.strip()]
    back = []
    for l in lines:
        try:
            back.append(json.loads(l))
        except Exception:
            ctx.violation("garbage_written_back", f"non-JSON line written to child: {l!r}", case)
    if "handshake" in case:
        back = [b for b in back if b.get("method") not in ("initialize", "notifications/initialized")]
    rej = [b for b in back if isinstance(b, dict) and isinstance(b.get("error"), dict)]
    if len(back) != len(rej):
        ctx.violation("unexpected_write_back", f"unexpected lines written to the child: {back!r}", case)
    if len(rej) != expected_rejections:
        ctx.violation("rejection_count", f"{len(rej)} rejection errors written, expected {expected_rejections}", case, rej)
    for r in rej:
        kind, why = classify(r, allow_null_id_error=True)
        if kind != "error" or r["error"].get("code") != -32600:
            ctx.violation("rejection_malformed", f"rejection {r!r} is not a -32600 error ({why})", case)
    if not out["reader_alive"]:
        ctx.violation("reader_died", "stdout reader no longer delivers messages after the script", case)
    # tracked mode agrees with the rule
    bi = out["batching_info"]
    if bi["batching_enabled"] != ref_batching(cur_v) or bi["supports_batch_function"] != ref_batching(cur_v):
        ctx.violation("stale_batching_mode", f"client reports {bi}, version {cur_v!r}", case)
    nontrivial = any(st[0].startswith("batch") for st in case["schedule"])
    ctx.record(case, shape=[len(got), len(rej)], nontrivial=nontrivial,
               cls=("handshake" if "handshake" in case else f"{'batching' if ref_batching(cur_v) else 'nobatch'}"),
               sample={"case": case, "delivered": got, "written_back": rej})


def exec_wrapper_handshake(ctx, case: Dict[str, Any]) -> None:
    """The negotiated version must reach the stdio reader through every public way of doing the handshake:
    stdio_client_with_initialize, connect_to_server(StdioParameters) / MCPClient, StdioTransport + MCPClient."""
    import asyncio
    import importlib
    import anyio
    from vf.recorders import OpenProcessPatch, ScriptedProcess
    from vf.vloop import run_virtual
    from chuk_mcp.transports.stdio.parameters import StdioParameters
    SC = importlib.import_module("chuk_mcp.transports.stdio.stdio_client")
    hv, variant, members = case["handshake"], case["variant"], case["batch"]

    def factory(command, **kw):
        p = ScriptedProcess([], hold_open=True)
        orig = p.stdin.send

        async def send(data):
            await orig(data)
            for line in data.decode().splitlines():
                try:
                    o = json.loads(line)
                except Exception:
                    continue
                if o.get("method") == "initialize":
                    p.feed((json.dumps({"jsonrpc": "2.0", "id": o["id"], "result": {
                        "protocolVersion": hv, "capabilities": {}, "serverInfo": {"name": "s", "version": "1"}}}) + "\n").encode())
                if o.get("method") == "notifications/initialized" and case.get("batch_on_initialized") is not None:
                    # the server writes its first batch the moment it has read the initialized notification (the handshake
                    # is complete on both sides), or a few milliseconds later
                    line_ = (json.dumps([MEMBERS[k] for k in members]) + "\n").encode()
                    d_ = case["batch_on_initialized"]
                    if d_ == 0:
                        p.feed(line_)
                    else:
                        asyncio.get_running_loop().call_later(d_, p.feed, line_)
        p.stdin.send = send
        return p

    async def main():
        got = []
        with OpenProcessPatch(factory) as patch:
            params = StdioParameters(command="scripted")

            inner_got: List[Any] = []
            inner_stdin: List[bytes] = []

            async def inner_connection():
                # a second connection opened while the first one's block is open, on which nothing is negotiated: it
                # accepts batches, whatever the connection around it settled on
                how = case.get("inner")
                n_before = len(patch.spawned)

                async def use(read):
                    proc2 = patch.spawned[n_before]
                    proc2.feed((json.dumps([MEMBERS[k] for k in members]) + "\n").encode())
                    proc2.feed((json.dumps(MEMBERS["note"]) + "\n").encode())
                    await asyncio.sleep(0.01)
                    while True:
                        try:
                            inner_got.append(read.receive_nowait())
                        except (anyio.WouldBlock, anyio.EndOfStream, anyio.ClosedResourceError):
                            break
                    inner_stdin.append(proc2.stdin_bytes())

                async def open_and_use():
                    if how == "client_object":
                        async with SC.StdioClient(StdioParameters(command="scripted-inner")) as c2:
                            await use(c2.get_streams()[0])
                    else:
                        async with SC.stdio_client(StdioParameters(command="scripted-inner")) as (r2, w2):
                            await use(r2)
                if how == "spawned_task":
                    await asyncio.create_task(open_and_use())
                else:
                    await open_and_use()

            async def after(read):
                if case.get("inner"):
                    await inner_connection()
                proc = patch.spawned[0]
                if case.get("batch_on_initialized") is not None:
                    await asyncio.sleep(0.2)     # (the batch was written by the server itself, see the factory)
                elif case.get("pieces"):
                    # the line reaches the client the way a pipe delivers it: in reads of at most 64 KiB
                    whole = (json.dumps([MEMBERS[k] for k in members]) + "\n").encode()
                    for i_ in range(0, len(whole), case["pieces"]):
                        proc.feed(whole[i_:i_ + case["pieces"]])
                        await asyncio.sleep(0)
                else:
                    proc.feed((json.dumps([MEMBERS[k] for k in members]) + "\n").encode())
                proc.feed((json.dumps(MEMBERS["note"]) + "\n").encode())
                await asyncio.sleep(0.01)
                while True:
                    try:
                        got.append(read.receive_nowait())
                    except (anyio.WouldBlock, anyio.EndOfStream, anyio.ClosedResourceError):
                        break
                return proc.stdin_bytes()
            if variant == "with_initialize":
                async with SC.stdio_client_with_initialize(params, timeout=5.0, supported_versions=[hv]) as (read, write, init):
                    stdin = await after(read)
            elif variant == "connect_to_server":
                from chuk_mcp.client.connection import connect_to_server
                async with connect_to_server(params) as client:
                    stdin = await after(client._streams[0])
            else:
                from chuk_mcp.transports.stdio.transport import StdioTransport
                from chuk_mcp.client.client import MCPClient
                async with StdioTransport(params) as tr:
                    client = MCPClient(tr)
                    await client.initialize()
                    stdin = await after((await tr.get_streams())[0])
        return got, stdin, inner_got, inner_stdin

    try:
        (got, stdin, inner_got, inner_stdin), _ = run_virtual(main, max_iterations=300_000)
    except Exception as e:  # noqa
        ctx.violation("wrapper_handshake_failed", f"{variant} at {hv}: {e!r}", case)
        ctx.record(case, shape="crash")
        return
    ctx.count("stdio_sessions")
    if case.get("inner"):
        ctx.count("inner_connections")
        got_i = [norm_wire(msg_to_wire(m)) for m in inner_got if not isinstance(m, list)]
        exp_i = [(norm_wire(MEMBERS[k]), inbound_class(MEMBERS[k]) == "valid") for k in members
                 if inbound_class(MEMBERS[k]) != "invalid"] + [(norm_wire(MEMBERS["note"]), True)]
        ok_i, why_i = seq_match(got_i, exp_i)
        if not ok_i:
            ctx.violation("valid_member_lost", f"a connection without a negotiated version, opened ({case['inner']}) inside a "
                          f"{variant} block that settled on {hv}: {why_i}", case)
        wrote = [l for l in b"".join(inner_stdin).split(b"\n") if l.strip() and b'"error"' in l]
        if wrote:
            ctx.violation("rejection_count", f"a connection without a negotiated version, opened ({case['inner']}) inside a "
                          f"{variant} block that settled on {hv}, wrote {len(wrote)} rejection(s): {wrote[0][:120]!r}", case)
    got_w = [norm_wire(msg_to_wire(m)) for m in got if not isinstance(m, list)]
    exp = []
    if ref_batching(hv):
        exp += [(norm_wire(MEMBERS[k]), inbound_class(MEMBERS[k]) == "valid") for k in members
                if inbound_class(MEMBERS[k]) != "invalid"]
    exp.append((norm_wire(MEMBERS["note"]), True))
    ok, why = seq_match(got_w, exp)
    if not ok:
        mech = "rejected_batch_member_delivered" if not ref_batching(hv) else "valid_member_lost"
        ctx.violation(mech, f"handshake through {variant} at {hv}: {why}", case)
    rej = []
    for l in stdin.split(b"\n"):
        if l.strip():
            try:
                o = json.loads(l)
            except Exception:
                continue
            if isinstance(o, dict) and isinstance(o.get("error"), dict):
                rej.append(o)
    want = 0 if ref_batching(hv) else 1
    if len(rej) != want:
        ctx.violation("rejection_count", f"handshake through {variant} at {hv}: {len(rej)} rejection errors, expected {want}", case)
    ctx.record(case, shape=[len(got_w), len(rej)], cls="wrapper_handshake:" + variant,
               sample={"case": case, "delivered": len(got_w), "rejections": len(rej)})


def exec_slow_consumer(ctx, case: Dict[str, Any]) -> None:
    """The application is not reading while a batch arrives behind a run of single messages (so the reader is blocked
    somewhere in the middle of delivering), the version changes, then reading resumes.  Whatever the reader had
    decided for that batch, it must be all or nothing: every valid member delivered in order and no rejection, or
    no member delivered and exactly one rejection."""
    v1, v2, n_before, members = case["v1"], case["v2"], case["singles"], case["batch"]
    steps: List[Any] = []
    if v1:
        steps.append(("version", v1))
    steps.append(("pause_reading",))
    singles = [{"jsonrpc": "2.0", "method": "notifications/message", "params": {"level": "info", "data": i}} for i in range(n_before)]
    payload = b"".join((json.dumps(m) + "\n").encode() for m in singles)
    payload += (json.dumps([MEMBERS[k] for k in members]) + "\n").encode()
    steps += [("feed", payload), ("settle",)]
    if v2:
        steps.append(("version", v2))
    steps += [("settle",), ("resume_reading",), ("wait", 1.0)]
    try:
        out = run_stdio_script(steps)
    except Exception as e:  # noqa
        ctx.violation("harness_or_crash", f"slow consumer: {e!r}", case)
        return
    ctx.count("stdio_sessions")
    ctx.count("slow_consumer_sessions")
    got = [msg_to_wire(m) for m in out["read"] if not isinstance(m, list)]
    tail = [norm_wire(g) for g in got if not (g.get("method") == "notifications/message" and isinstance((g.get("params") or {}).get("data"), int))]
    n_singles = len(got) - len(tail)
    if n_singles != n_before:
        ctx.violation("valid_member_lost", f"slow consumer: {n_singles} of {n_before} single messages delivered", case)
    full = [(norm_wire(MEMBERS[k]), inbound_class(MEMBERS[k]) == "valid") for k in members if inbound_class(MEMBERS[k]) != "invalid"]
    rej = []
    for l in out["stdin"].split(b"\n"):
        if l.strip():
            try:
                o = json.loads(l)
            except Exception:
                continue
            if isinstance(o, dict) and isinstance(o.get("error"), dict):
                rej.append(o)
    ok_all, why = seq_match(tail, full)
    accepted = ok_all and not rej
    rejected = not tail and len(rej) == 1
    if not (accepted or rejected):
        ctx.violation("batch_partially_delivered", f"version {v1!r} -> {v2!r} while a batch of {len(members)} was being delivered "
                      f"to a paused consumer ({n_before} messages ahead of it): {len(tail)} members delivered, {len(rej)} "
                      f"rejections - neither the whole batch nor a clean rejection ({why})", case)
    if not out["reader_alive"]:
        ctx.violation("reader_died", "slow consumer: reader no longer delivers", case)
    ctx.record(case, shape=[n_singles, len(tail), len(rej)], nontrivial=True, cls="slow_consumer",
               sample={"case": case, "singles": n_singles, "members": len(tail), "rejections": len(rej)})


def exec_reentered_client(ctx, case: Dict[str, Any]) -> None:
    """The same StdioClient object entered a second time: the new connection has negotiated nothing, whatever the
    previous one had agreed on."""
    import asyncio
    import importlib
    from vf.recorders import OpenProcessPatch, ScriptedProcess
    from vf.vloop import run_virtual
    from chuk_mcp.transports.stdio.parameters import StdioParameters
    SC = importlib.import_module("chuk_mcp.transports.stdio.stdio_client")
    v1, v2, members = case["first"], case["second"], case["batch"]

    async def main():
        with OpenProcessPatch(lambda command, **kw: ScriptedProcess([], hold_open=True)) as patch:
            client = SC.StdioClient(StdioParameters(command="scripted"))
            async with client:
                if v1:
                    client.set_protocol_version(v1)
                await asyncio.sleep(0.01)
            async with client:
                if v2:
                    client.set_protocol_version(v2)
                proc = patch.spawned[-1]
                read, _w = client.get_streams()
                proc.feed((json.dumps([MEMBERS[k] for k in members]) + "\n").encode())
                proc.feed((json.dumps(MEMBERS["note"]) + "\n").encode())
                await asyncio.sleep(0.05)
                got = []
                while True:
                    try:
                        got.append(read.receive_nowait())
                    except Exception:
                        break
                return got, proc.stdin_bytes(), client.get_batching_info()
    try:
        (got, stdin, binfo), _ = run_virtual(main, max_iterations=300_000)
    except Exception as e:  # noqa
        ctx.violation("harness_or_crash", f"re-entered client: {e!r}", case)
        return
    ctx.count("stdio_sessions")
    got_w = [norm_wire(msg_to_wire(m)) for m in got if not isinstance(m, list)]
    exp = []
    if ref_batching(v2):
        exp += [(norm_wire(MEMBERS[k]), inbound_class(MEMBERS[k]) == "valid") for k in members if inbound_class(MEMBERS[k]) != "invalid"]
    exp.append((norm_wire(MEMBERS["note"]), True))
    ok, why = seq_match(got_w, exp)
    if not ok or binfo["batching_enabled"] != ref_batching(v2):
        ctx.violation("stale_batching_mode", f"client object used at {v1!r}, left, entered again (now at {v2!r}): {why or binfo}", case)
    ctx.record(case, shape=[len(got_w), binfo["batching_enabled"]], nontrivial=True, cls="reentered_client",
               sample={"case": case, "delivered": len(got_w), "batching_info": binfo})


def exec_two_clients(ctx, case: Dict[str, Any]) -> None:
    """Two stdio clients alive in one process at different negotiated versions: each applies its own rule."""
    from vf.stdio_harness import run_multi_stdio
    va, vb, members = case["versions"][0], case["versions"][1], case["batch"]
    line = (json.dumps([MEMBERS[k] for k in members]) + "\n").encode()
    note = (json.dumps(MEMBERS["note"]) + "\n").encode()
    script: List[Any] = [("open", "a"), ("open", "b")]
    order = case.get("order", "ab")
    for name, v in (("a", va), ("b", vb)) if order == "ab" else (("b", vb), ("a", va)):
        if v is not None:
            script.append(("version", name, v))
    script += [("feed", "a", line), ("feed", "b", line), ("settle",), ("feed", "b", note), ("feed", "a", note), ("settle",)]
    try:
        res = run_multi_stdio(script)
    except Exception as e:  # noqa
        ctx.violation("harness_or_crash", f"two clients: {e!r}", case)
        return
    ctx.count("stdio_sessions")
    ctx.count("two_client_sessions")
    shape = []
    for name, v in (("a", va), ("b", vb)):
        got = [norm_wire(msg_to_wire(m)) for m in res[name]["read"] if not isinstance(m, list)]
        exp = []
        if ref_batching(v):
            exp += [(norm_wire(MEMBERS[k]), inbound_class(MEMBERS[k]) == "valid") for k in members
                    if inbound_class(MEMBERS[k]) != "invalid"]
        exp.append((norm_wire(MEMBERS["note"]), True))
        ok, why = seq_match(got, exp)
        if not ok:
            mech = "rejected_batch_member_delivered" if not ref_batching(v) else "valid_member_lost"
            ctx.violation(mech, f"two clients in one process (versions {va!r}, {vb!r}): client {name} at {v!r}: {why}", case)
        rej = []
        for l in res[name].get("stdin", b"").split(b"\n"):
            if l.strip():
                try:
                    o = json.loads(l)
                except Exception:
                    continue
                if isinstance(o, dict) and isinstance(o.get("error"), dict):
                    rej.append(o)
        want = 0 if ref_batching(v) else 1
        if len(rej) != want:
            ctx.violation("rejection_count", f"two clients in one process (versions {va!r}, {vb!r}): client {name} at {v!r} "
                          f"wrote {len(rej)} rejections, expected {want}", case)
        shape.append([len(got), len(rej)])
    ctx.record(case, shape=shape, nontrivial=True, cls="two_clients", sample={"case": case, "delivered_rejections": shape})


def rejection_during_big_write_tier(ctx):
    """At a version without batching, batches arrive while the application's own large message is being written to a
    slowly draining child (the rejection is written by the reader, the message by the writer task): every batch must still
    be answered with exactly one parsable -32600 line, and none of its members delivered."""
    from vf.stdio_harness import run_stdio_script
    rng = ctx.sub_rng("c13big")
    for k in range(8 if ctx.tier == "quick" else 80):
        if not ctx.mine():
            continue
        size = rng.choice([70_000, 200_000, 300_000, 1_100_000])
        n_batches = rng.randint(1, 4)
        delay = rng.choice([0.01, 0.5])
        batch = [MEMBERS["note"], MEMBERS["req"]]
        steps: List[Any] = [("version", "2025-06-18"), ("send", {"jsonrpc": "2.0", "id": "big", "method": "tools/call",
                                                               "params": {"blob": "\u00e9" * (size // 2)}})]
        for _ in range(n_batches):
            steps.append(("feed", (json.dumps(batch) + "\n").encode()))
        steps += [("wait", 600.0), ("close_write",), ("wait", 60.0)]
        case = {"rejection_during_big_write": True, "size": size, "batches": n_batches, "stdin_delay": delay, "k": k}
        try:
            out = run_stdio_script(steps, stdin_delay=delay, tie_seed=k)
        except Exception as ex:  # noqa
            ctx.violation("harness_or_crash", f"rejection during a big write: {ex!r}", case)
            continue
        ctx.count("stdio_sessions")
        ctx.count("big_write_sessions")
        data: bytes = out["stdin_before_exit"]
        rej, broken, others = 0, 0, 0
        for ln in data.split(b"\n")[:-1]:
            try:
                v = json.loads(ln.decode("utf-8"))
            except Exception:  # noqa
                broken += 1
                continue
            if isinstance(v, dict) and isinstance(v.get("error"), dict) and v["error"].get("code") == -32600:
                rej += 1
            else:
                others += 1
        delivered = [m for m in out["read"] if not isinstance(m, list)]
        if broken or rej != n_batches or others != 1:
            ctx.violation("rejection_count" if not broken else "rejection_not_parsable",
                          f"{n_batches} batches arrived at 2025-06-18 while a {size}-byte message was being written: the child read "
                          f"{rej} parsable -32600 lines, {others} other message lines and {broken} lines that are not JSON", case)
        if delivered:
            ctx.violation("rejected_batch_member_delivered", f"{len(delivered)} members of rejected batches were delivered", case)
        ctx.record(case, shape=[rej, others, broken], nontrivial=True, cls="rejection_during_big_write",
                   sample={"case": case, "rejections": rej, "broken_lines": broken})


def run(ctx):
    rejection_during_big_write_tier(ctx)
    from chuk_mcp.protocol.features.batching import supports_batching, BatchProcessor, should_reject_batch
    from chuk_mcp.protocol.types.versioning import ProtocolVersion

    # ---- A: decision function ---------------------------------------------
    n = 0
    for blk in decision_cases(ctx):
        if not ctx.mine():
            continue
        if ctx.out_of_time("decision grid"):
            ctx.exhaustive = False
            break
        prev = True
        prev_v = None
        for v in blk:  # blocks are generated in increasing string order
            try:
                got = supports_batching(v)
            except Exception as e:  # noqa
                ctx.violation("decision_raised", f"supports_batching({v!r}) raised {e!r}", {"version": v})
                continue
            try:
                want = ProtocolVersion.compare(v, CUTOFF) < 0
            except Exception as e:  # noqa
                ctx.violation("compare_raised", f"ProtocolVersion.compare({v!r}, cutoff) raised {e!r}", {"version": v})
                continue
            n += 1
            if got is not want:
                ctx.violation("decision_disagrees_with_ordering",
                              f"supports_batching({v!r})={got!r} but compare(v,{CUTOFF})<0 is {want}", {"version": v})
            if want != ref_batching(v):
                ctx.violation("ordering_disagrees_with_dates", f"compare({v!r},cutoff) inconsistent with the calendar order",
                              {"version": v})
            if got and not prev:
                ctx.violation("decision_not_monotone", f"batching off at {prev_v!r} but on at later {v!r}", {"version": v})
            prev, prev_v = got, v
        # BatchProcessor agrees with the function on block ends
        for v in (blk[0], blk[len(blk) // 2], blk[-1]):
            bp = BatchProcessor(v)
            if bp.batching_enabled != supports_batching(v) or bp.can_process_batch([]) != supports_batching(v) \
                    or should_reject_batch(v, []) == supports_batching(v):
                ctx.violation("processor_disagrees", f"BatchProcessor({v!r}) disagrees with supports_batching", {"version": v})
        ctx.record({"block": [blk[0], blk[-1]], "n": len(blk)}, shape=sum(1 for v in blk if ref_batching(v)),
                   cls="decision_block", sample={"block_first": blk[0], "block_last": blk[-1], "strings": len(blk)})
    ctx.count("decision_strings", n)
    if ctx.exhaustive is None:
        ctx.exhaustive = ctx.tier == "thorough"
    if ctx.shard[0] == 0:
        for v in (None, ""):
            if supports_batching(v) is not True:
                ctx.violation("no_version_must_batch", f"supports_batching({v!r}) is not True", {"version": v})

    # ---- A2: strings that are not plain ASCII dates: wherever the library's OWN format validator calls one well-formed,
    # its decision and its ordering have to agree on it as well (and the string, handed to a BatchProcessor, likewise)
    if ctx.shard[0] == 0:
        def _digits(text, zero):
            return "".join(chr(ord(zero) + int(ch)) if ch.isdigit() else ch for ch in text)
        odd = []
        for base_v in ("2024-11-05", "2025-03-26", "2025-06-17", "2025-06-18", "2025-06-19", "2026-01-01", "1999-12-31"):
            for zero in ("\u0660", "\u06f0", "\u0966", "\uff10", "\U0001d7ce"):   # Arabic-Indic, Persian, Devanagari, fullwidth, math bold
                odd.append(_digits(base_v, zero))
                odd.append(base_v[:5] + _digits(base_v[5:], zero))
                odd.append(_digits(base_v[:4], zero) + base_v[4:])
            odd += [base_v + "\n", "\n" + base_v, base_v + " ", " " + base_v, base_v + "\r\n", base_v + "\u2028", base_v + "\x00",
                    base_v.replace("-", "\u2010"), base_v.replace("-", "\u2212"), "+" + base_v[1:], base_v[:5] + "+" + base_v[6:],
                    base_v[:8] + "-" + base_v[9:], base_v.replace("-", "_"), base_v + "-00", "0" + base_v, base_v[1:]]
        called_wellformed = 0
        for v in odd:
            try:
                wf = ProtocolVersion.validate_format(v)
            except Exception as e:  # noqa
                ctx.violation("format_validator_raised", f"validate_format({v!r}) raised {e!r}", {"version": v})
                continue
            ctx.count("odd_version_strings")
            if not wf:
                continue
            called_wellformed += 1
            try:
                got, want = supports_batching(v), ProtocolVersion.compare(v, CUTOFF) < 0
            except Exception as e:  # noqa
                ctx.violation("decision_raised", f"{v!r} passes validate_format() but the decision/ordering raised {e!r}", {"version": v})
                continue
            if got is not want or BatchProcessor(v).batching_enabled is not want:
                ctx.violation("decision_disagrees_with_ordering",
                              f"{v!r} passes the library's validate_format(); supports_batching={got!r}, BatchProcessor="
                              f"{BatchProcessor(v).batching_enabled!r}, but compare(v,{CUTOFF})<0 is {want}", {"version": v})
        ctx.count("odd_strings_the_library_calls_wellformed", called_wellformed)
        ctx.record({"odd_versions": len(odd)}, shape=called_wellformed, cls="odd_version_strings", nontrivial=True,
                   sample={"strings": len(odd), "called_wellformed_by_library": called_wellformed})

    # ---- B: transport ------------------------------------------------------
    for case in transport_cases(ctx):
        if not ctx.mine():
            continue
        if ctx.out_of_time("transport"):
            break
        exec_transport(ctx, case)
    for variant in ("with_initialize", "connect_to_server", "stdio_transport_mcpclient"):
        for hv in ("2024-11-05", "2025-03-26", "2025-06-18") + (tuple(OFFERED_ONLY) if variant == "with_initialize" else ()):
            for b in (["req", "note"], ["resp", "bad_obj"], []):
                case = {"handshake": hv, "variant": variant, "batch": b}
                if ctx.mine():
                    exec_wrapper_handshake(ctx, case)
            if variant == "with_initialize":
                for pieces in (65536, 4096):
                    case = {"handshake": hv, "variant": variant, "batch": ["big_note", "req", "big_resp", "big_req", "note"], "pieces": pieces}
                    if ctx.mine():
                        exec_wrapper_handshake(ctx, case)
            for d_ in (0, 0.001, 0.01, 0.04, 0.1):
                case = {"handshake": hv, "variant": variant, "batch": ["req", "note", "resp"], "batch_on_initialized": d_}
                if ctx.mine():
                    exec_wrapper_handshake(ctx, case)
            if hv in ("2025-03-26", "2025-06-18"):
                for inner in ("stdio_client", "client_object", "spawned_task"):
                    case = {"handshake": hv, "variant": variant, "batch": ["req", "note", "resp"], "inner": inner}
                    if ctx.mine():
                        exec_wrapper_handshake(ctx, case)
    for v1, v2 in ((None, "2025-06-18"), ("2025-03-26", "2025-06-18"), ("2025-06-18", "2025-03-26"), ("2024-11-05", "2025-06-19"),
                   ("2025-03-26", "2024-11-05")):
        for n_before in (0, 50, 96, 97, 98, 99, 100, 101, 150):
            for b in (["req", "note", "resp", "err"], ["note", "bad_obj", "req"]):
                case = {"slow_consumer": True, "v1": v1, "v2": v2, "singles": n_before, "batch": b}
                if ctx.mine():
                    exec_slow_consumer(ctx, case)
    for v1, v2 in (("2025-06-18", None), ("2025-03-26", None), ("2025-06-18", "2025-03-26"), ("2025-03-26", "2025-06-18"), (None, None),
                   # the second connection settles on the very version the first one had
                   ("2025-06-18", "2025-06-18"), ("2025-03-26", "2025-03-26"), ("2026-01-01", "2026-01-01")):
        for b in (["req", "note"], ["resp", "bad_obj"]):
            case = {"reentered": True, "first": v1, "second": v2, "batch": b}
            if ctx.mine():
                exec_reentered_client(ctx, case)
    for va, vb in itertools.permutations([None, "2025-03-26", "2025-06-18", "2025-06-19", "2024-11-05"], 2):
        for b in (["req", "note"], ["resp", "bad_obj", "err"]):
            for order in ("ab", "ba"):
                case = {"versions": [va, vb], "batch": b, "order": order, "two_clients": True}
                if ctx.mine():
                    exec_two_clients(ctx, case)
    ctx.require_reached("decision_strings")
    ctx.require_reached("stdio_sessions")


def replay(ctx, case):
    if case.get("rejection_during_big_write"):
        rejection_during_big_write_tier(ctx)
        return
    if case.get("reentered"):
        exec_reentered_client(ctx, case)
        ctx.record({"x": 1}, shape=1)
        return
    if case.get("slow_consumer"):
        exec_slow_consumer(ctx, case)
        ctx.record({"x": 1}, shape=1)
        return
    if case.get("two_clients"):
        exec_two_clients(ctx, case)
        ctx.record({"x": 1}, shape=1)
        return
    if "variant" in case:
        exec_wrapper_handshake(ctx, case)
        ctx.record({"x": 1}, shape=1)
        return
    if "version" in case and "schedule" not in case:
        from chuk_mcp.protocol.features.batching import supports_batching
        from chuk_mcp.protocol.types.versioning import ProtocolVersion
        v = case["version"]
        got, want = supports_batching(v), ProtocolVersion.compare(v, CUTOFF) < 0
        ctx.record(case, shape=[got, want])
        ctx.record({"x": 1}, shape=1)
        if got is not want:
            ctx.violation("decision_disagrees_with_ordering", f"{v}: {got} vs {want}", case)
    else:
        exec_transport(ctx, case)
        ctx.record({"x": 1}, shape=1)
