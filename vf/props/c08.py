"""C08 - server dispatch: one response per request, none per notification, never a crash."""
from __future__ import annotations

import asyncio
import json
from typing import Any, Dict, List

from vf.ref import classify, strict_eq, tagged
from vf.vloop import run_virtual, HangDetected

ID = "C08"
LEVEL = "exploration"
BACKENDS = ["pydantic", "fallback"]   # every case is executed under both validation backends
LOGLEVELS = ["default", "debug"]   # every case also runs with the root logger at DEBUG (as --verbose does)
SHARDS = {"quick": 4, "thorough": 16}
BUDGET_S = {"quick": 90.0, "thorough": 600.0}
TECHNIQUE = ("runtime monitoring: return value / escaping exception of the real ProtocolHandler.handle_message on an "
             "MCPServer with registered tools, resources and custom methods, decided by an independent JSON-RPC validator "
             "and an error-class table")
LEVEL_TEXT = ("Requests and notifications over {core methods, registered tool/resource methods, every notifications/* "
              "name found in MessageMethod, seeded random method strings} x with/without id x params shapes x handler "
              "behaviours (returns str/dict/list/None/bytes/object, raises 6 exception types, wrong signature) x ids x "
              "message representation are dispatched; each outcome must be exactly one valid response with the same id "
              "(or none for notifications) with the documented error class, and nothing may escape."
              " An older and a newer server object with conflicting registrations live in the same process around the server under test."
              ' Also exceptions whose str() fails, tool names and URIs that a normalising lookup would conflate.'
              ' Also handlers that await a future cancelled by a third party; a request id on an UNREGISTERED notifications/... name must be answered -32601.'
              ' Also handlers that are awaitable-returning callables of other kinds (object with async __call__, decorated, returning a Task, partial, bound method).'
              ' Also the reserved _meta member in every JSON type.'
              ' Also requests that follow a notification naming their id (cancelled, progress) on a server whose application registers no handler for it.'
              ' Also tools whose ordinary return value looks like a tool result (a content member that is text, null, strings, a number, typed blocks; isError; structuredContent).')
LEVEL_NOTE = ("Trusted: vf/ref.py validator; the error-class table in this file (where the statement is silent - empty "
              "method string, non-hashable names, bad arguments to a known tool - every reasonable code is accepted).")
RULE = ("case = (method, id or none, params shape, representation). Non-trivial: all. distinct = hash(case)+hash(outcome "
        "kind and error code).")
ASSUMPTIONS = ["custom register_method handlers obey the (response, session_id) return contract or raise"]


class BadStr(Exception):
    """An exception that cannot be turned into text."""

    def __str__(self):
        raise RuntimeError("str() of this exception fails")

    __repr__ = __str__


def build_neighbour(tag: str):
    """Another server object living in the same process, registering the same names with other behaviour
    and a few names of its own: the server under test must never be influenced by it."""
    from chuk_mcp.server.server import MCPServer
    other = MCPServer(f"neighbour-{tag}", "9.9")

    async def wrong(**kw):
        return f"WRONG-SERVER-{tag}"

    async def wrong_handler(message, session_id):
        return other.protocol_handler.create_response(getattr(message, "id", None), {"wrong_server": tag}), None

    for name in sorted(GOOD_TOOLS | RAISING_TOOLS) + [f"only_{tag}"]:
        other.register_tool(name, wrong, {"type": "object"})
    other.register_resource("file:///ok.txt", wrong, "wrong")
    other.register_resource(f"file:///only_{tag}.txt", wrong, "wrong")
    for name in ["custom/ok", "custom/raise", f"custom/only_{tag}", "notifications/custom-raise"] + CUSTOM_RAISERS + list(CUSTOM_RESULTS):
        other.protocol_handler.register_method(name, wrong_handler)
    return other


def build_server(own_cancelled_handler: bool = True):
    from chuk_mcp.server.server import MCPServer
    older = build_neighbour("older")
    srv = MCPServer("verif-server", "1.0")
    srv._verif_neighbours = [older]

    async def echo(text: str = "x"):
        return f"echo:{text}"

    async def ret_dict(**kw):
        return {"k": [1, None, "é"], "kw": kw}

    async def ret_list():
        return ["a", {"b": 1}, 3]

    async def ret_none():
        return None

    async def ret_bytes():
        return b"\xff\x00raw"

    async def ret_obj():
        return object()

    def sync_tool(text: str = "x"):
        return "sync"

    def mk_raiser(exc):
        async def raiser(**kw):
            raise exc
        return raiser

    srv.register_tool("echo", echo, {"type": "object"}, "echo")
    srv.register_tool("dict", ret_dict, {"type": "object"})
    srv.register_tool("list", ret_list, {"type": "object"})
    srv.register_tool("none", ret_none, {"type": "object"})
    srv.register_tool("bytes", ret_bytes, {"type": "object"})
    srv.register_tool("obj", ret_obj, {"type": "object"})
    # tools whose (perfectly ordinary) return value has members named like those of a tool result
    for tname, tval in RESULTISH_TOOLS.items():
        def mk_ret(v):
            async def ret(**kw):
                return v
            return ret
        srv.register_tool(tname, mk_ret(tval), {"type": "object"})
    srv.register_tool("sync", sync_tool, {"type": "object"})
    srv.register_tool("caf\u00e9", echo, {"type": "object"})   # NFC; the NFD spelling is another (unknown) name
    for name, exc in (("raise_value", ValueError("bad \n value")), ("raise_key", KeyError("k")),
                      ("raise_runtime", RuntimeError("boom")), ("raise_type", TypeError("t")),
                      ("raise_timeout", asyncio.TimeoutError()), ("raise_custom", type("Custom", (Exception,), {})("c")),
                      ("raise_unicode", ValueError("\u2028 sep \U0001f600")), ("raise_noargs", NotImplementedError()),
                      ("raise_assert", AssertionError()), ("raise_lookup", LookupError()), ("raise_badstr", BadStr())):
        srv.register_tool(name, mk_raiser(exc), {"type": "object"})

    async def awaits_cancelled_future(**kw):
        # the tool waits for something that somebody else cancelled (a background task, a pooled connection): the
        # CancelledError it gets is the *handler's* failure - the dispatching task itself is not being cancelled
        fut = asyncio.get_running_loop().create_future()
        fut.cancel()
        return await fut
    srv.register_tool("raise_cancelled_inner", awaits_cancelled_future, {"type": "object"})

    async def res_ok():
        return "content   with separators\n"

    async def res_raise():
        raise OSError("disk")

    srv.register_resource("file:///ok.txt", res_ok, "ok")
    srv.register_resource("file:///bad.txt", res_raise, "bad")

    ph = srv.protocol_handler

    async def custom_ok(message, session_id):
        return ph.create_response(getattr(message, "id", None), {"custom": True}), None

    async def custom_raise(message, session_id):
        raise RuntimeError("custom handler failed")

    async def custom_note(message, session_id):
        return None, None

    async def custom_note_raise(message, session_id):
        raise ValueError("notification handler failed")

    def mk_custom_raiser(exc):
        async def h(message, session_id):
            raise exc
        return h

    # exceptions without arguments, with non-string arguments, with several arguments
    for name, exc in (("custom/raise_noargs", NotImplementedError()), ("custom/raise_timeout", TimeoutError()),
                      ("custom/raise_assert", AssertionError()), ("custom/raise_intarg", ValueError(7)),
                      ("custom/raise_twoargs", OSError(2, "No such file")), ("custom/raise_keyerror", KeyError("k")),
                      ("custom/raise_unicode", RuntimeError("\u2028\n\U0001f600")), ("custom/raise_stopasync", StopAsyncIteration()),
                      ("custom/raise_lookup", LookupError()), ("custom/raise_badstr", BadStr())):
        ph.register_method(name, mk_custom_raiser(exc))
    # handlers that have nothing (or something falsy) to return, through the handler's own response builder
    def mk_result(val):
        async def h(message, session_id):
            return ph.create_response(getattr(message, "id", None), val), None
        return h
    for name, val in CUSTOM_RESULTS.items():
        if not name.startswith("custom/kind_"):
            ph.register_method(name, mk_result(val))
    # the same, registered as other kinds of awaitable-returning callables
    import functools

    class CallableObject:
        def __init__(self, val, fail=False):
            self.val, self.fail, self.calls = val, fail, 0

        async def __call__(self, message, session_id):
            self.calls += 1
            if self.fail:
                raise RuntimeError("callable object failed")
            return ph.create_response(getattr(message, "id", None), self.val), None

        async def method(self, message, session_id):
            return ph.create_response(getattr(message, "id", None), self.val), None

    def passthrough(fn):
        @functools.wraps(fn)
        def wrapper(*a, **kw):
            return fn(*a, **kw)         # hands the coroutine on
        return wrapper

    def returns_task(val, fail=False):
        async def work(message):
            if fail:
                raise RuntimeError("task failed")
            return ph.create_response(getattr(message, "id", None), val), None

        def h(message, session_id):
            return asyncio.ensure_future(work(message))
        return h

    async def with_extra(extra, message, session_id):
        return ph.create_response(getattr(message, "id", None), extra), None

    async def failing(message, session_id):
        raise RuntimeError("decorated handler failed")
    ph.register_method("custom/kind_callable_object", CallableObject(CUSTOM_RESULTS["custom/kind_callable_object"]))
    ph.register_method("custom/kind_decorated", passthrough(mk_result(CUSTOM_RESULTS["custom/kind_decorated"])))
    ph.register_method("custom/kind_returns_task", returns_task(CUSTOM_RESULTS["custom/kind_returns_task"]))
    ph.register_method("custom/kind_partial", functools.partial(with_extra, CUSTOM_RESULTS["custom/kind_partial"]))
    ph.register_method("custom/kind_bound_method", CallableObject(CUSTOM_RESULTS["custom/kind_bound_method"]).method)
    ph.register_method("custom/raise_kind_callable_object", CallableObject(None, fail=True))
    ph.register_method("custom/raise_kind_decorated", passthrough(failing))
    ph.register_method("custom/raise_kind_returns_task", returns_task(None, fail=True))

    async def custom_awaits_cancelled(message, session_id):
        fut = asyncio.get_running_loop().create_future()
        fut.cancel()
        await fut
    ph.register_method("custom/raise_cancelled_inner", custom_awaits_cancelled)
    ph.register_method("custom/ok", custom_ok)
    ph.register_method("custom/raise", custom_raise)
    ph.register_method("notifications/custom-ok", custom_note)
    ph.register_method("notifications/custom-raise", custom_note_raise)
    if own_cancelled_handler:
        ph.register_method("notifications/cancelled", custom_note_raise)  # a standard name with a failing handler
    srv._verif_neighbours.append(build_neighbour("newer"))
    return srv


CUSTOM_RESULTS = {"custom/result_none": None, "custom/result_empty": {}, "custom/result_list": [], "custom/result_zero": 0,
                  "custom/result_false": False, "custom/result_str": "", "custom/result_nested_null": {"a": None, "b": [None]},
                  # handlers that are awaitable-returning callables of other kinds than a bare `async def` function
                  "custom/kind_callable_object": {"kind": "object with async __call__"},
                  "custom/kind_decorated": {"kind": "async def behind a pass-through decorator"},
                  "custom/kind_returns_task": {"kind": "plain function returning a Task"},
                  "custom/kind_partial": {"kind": "functools.partial of an async def"},
                  "custom/kind_bound_method": {"kind": "bound async method"}}
CUSTOM_RAISERS = ["custom/raise_noargs", "custom/raise_timeout", "custom/raise_assert", "custom/raise_intarg",
                  "custom/raise_twoargs", "custom/raise_keyerror", "custom/raise_unicode", "custom/raise_stopasync",
                  "custom/raise_lookup", "custom/raise_badstr", "custom/raise_cancelled_inner",
                  "custom/raise_kind_callable_object", "custom/raise_kind_decorated", "custom/raise_kind_returns_task"]
RAISING_TOOLS = {"raise_value", "raise_key", "raise_runtime", "raise_type", "raise_timeout", "raise_custom",
                 "raise_unicode", "sync", "raise_noargs", "raise_assert", "raise_lookup", "raise_badstr", "raise_cancelled_inner"}
RESULTISH_TOOLS = {"doc_text": {"title": "T", "content": "plain text"}, "doc_none": {"content": None},
                   "doc_strings": {"content": ["a", "b"]}, "doc_number": {"content": 3, "isError": "no"},
                   "doc_blocks": {"content": [{"type": "text", "text": "hello"}], "isError": False},
                   "doc_structured": {"structuredContent": {"k": 1}, "content": []}, "doc_iserror": {"isError": True}}
GOOD_TOOLS = {"echo", "dict", "list", "none", "bytes", "obj", "caf\u00e9"} | set(RESULTISH_TOOLS)

IDS = [0, -1, 1, 2**53, 2**63, "", "x", "123", "007", "id with space", "ü\U0001f600"]


def notification_names() -> List[str]:
    from chuk_mcp.protocol.messages.message_method import MessageMethod
    out = []
    for k, v in vars(MessageMethod).items():
        val = getattr(v, "value", v)
        if isinstance(val, str) and val.startswith("notifications/"):
            out.append(val)
    return sorted(set(out))


def params_shapes(method: str) -> List[Any]:
    base: List[Any] = ["__missing__", {}, {"extra": {"deep": [None, 1.5]}, "_meta": {"progressToken": 1}}]
    # the reserved member in every JSON type (a peer may send anything; whatever the handler makes of it is a response)
    base += [{"_meta": m} for m in (None, "abc", 7, [1, 2], True, {}, {"progressToken": None}, {"progressToken": {"o": 1}},
                                    {"progressToken": "tok", "other": [None]})]
    if method == "tools/call":
        base += [{"name": n} for n in sorted(GOOD_TOOLS | RAISING_TOOLS)]
        base += [{"name": "echo", "arguments": {"text": "hi  "}}, {"name": "echo", "arguments": None},
                 {"name": "echo", "arguments": "str"}, {"name": "echo", "arguments": [1]},
                 {"name": "echo", "arguments": {"unknown_kw": 1}}, {"name": "dict", "arguments": {"a": None, "b": {"c": []}}},
                 {"name": "nope"}, {"name": "only_older"}, {"name": "only_newer"}, {"name": ""},
                 {"name": "Echo"}, {"name": " echo"}, {"name": "echo "}, {"name": "ECHO"}, {"name": "cafe\u0301"}, {"name": "caf\u00e9"}, {"name": 5}, {"name": None}, {"arguments": {}},
                 {"name": ["unhashable"]}, {"name": {"un": "hashable"}}, {"name": "echo", "extra": True}]
    if method == "resources/read":
        base += [{"uri": "file:///ok.txt"}, {"uri": "file:///bad.txt"}, {"uri": "file:///missing"}, {"uri": "FILE:///ok.txt"}, {"uri": "file:///ok.txt "}, {"uri": "file:///OK.txt"},
                 {"uri": "file:///only_older.txt"},
                 {"uri": "file:///only_newer.txt"}, {"uri": 5},
                 {"uri": None}, {"uri": ["x"]}, {"uri": ""}]
    if method == "initialize":
        base += [{"protocolVersion": "2025-06-18", "clientInfo": {"name": "c", "version": "1"}, "capabilities": {}},
                 {"protocolVersion": 5}, {"clientInfo": "not-a-dict"}, {"clientInfo": None}]
    return base


def gen_cases(ctx):
    yield from _gen_cases(ctx)
    # requests that follow a notification naming their id (the peer's notifications/cancelled speaks of the peer's own
    # requests; a progress notification's token may equal an id by chance): still exactly one response
    for mid in IDS:
        for method in ("ping", "tools/list", "tools/call", "resources/read", "custom/ok", "custom/raise", "nope"):
            for note in ({"method": "notifications/cancelled", "params": {"requestId": mid, "reason": "gave up"}},
                         {"method": "notifications/progress", "params": {"progressToken": mid, "progress": 1}}):
                ps = {"name": "echo", "arguments": {"text": "x"}} if method == "tools/call" else \
                    {"uri": "file:///ok.txt"} if method == "resources/read" else {}
                yield {"method": method, "id": mid, "has_id": True, "params": ps, "rep": "parse", "after_note": note}


def _gen_cases(ctx):
    rng = ctx.sub_rng("c08")
    core = ["initialize", "ping", "tools/list", "tools/call", "resources/list", "resources/read", "custom/ok",
            "custom/raise"] + CUSTOM_RAISERS + list(CUSTOM_RESULTS)
    notes = notification_names() + ["notifications/custom-ok", "notifications/custom-raise", "notifications/unknown-thing"]
    randoms = ["", " ", "nope", "custom/only_older", "custom/only_newer", "tools/", "tools/call ", "TOOLS/CALL", "rpc.discover", " ", "a" * 300,
               "notifications/", "prompts/list", "completion/complete", "logging/setLevel", "sampling/createMessage"]
    for _ in range(40 if ctx.tier == "quick" else 400):
        randoms.append("".join(rng.choice("abc/._-$é ") for _ in range(rng.randint(1, 12))))
    reps = ["parse", "typed"]
    for method in core + notes + randoms:
        for with_id in (True, False):
            shapes = params_shapes(method)
            ids = IDS if with_id else [None]
            if ctx.tier == "quick" and len(shapes) > 6:
                idsel = [0, "x", "123", 2**53] if with_id else [None]
            else:
                idsel = ids
            for j, ps in enumerate(shapes):
                for mid in idsel:
                    for rep in reps:
                        yield {"method": method, "id": mid, "has_id": with_id, "params": ps, "rep": rep}
                # the same message arriving with a session id: live, deleted/expired, never issued
                for sess in ("live", "stale", "unknown"):
                    yield {"method": method, "id": idsel[j % len(idsel)], "has_id": with_id, "params": ps, "rep": "parse",
                           "session": sess}


def build_msg(case):
    from chuk_mcp.protocol.messages import json_rpc_message as J
    wire: Dict[str, Any] = {"jsonrpc": "2.0", "method": case["method"]}
    if case["has_id"]:
        wire["id"] = case["id"]
    if case["params"] != "__missing__":
        wire["params"] = case["params"]
    if case["rep"] == "typed":
        if case["has_id"]:
            return J.JSONRPCRequest.model_validate(wire)
        return J.JSONRPCNotification.model_validate(wire)
    return J.parse_message(wire)


def expected_codes(case) -> Any:
    """Returns ('result',) / ('error', {codes}) / ('either', {codes})."""
    m, p = case["method"], case["params"]
    pd = p if isinstance(p, dict) else {}
    registered = {"initialize", "ping", "tools/list", "tools/call", "resources/list", "resources/read", "custom/ok",
                  "custom/raise"} | set(CUSTOM_RAISERS) | set(CUSTOM_RESULTS)
    if m == "":
        return ("error", {-32600, -32601})
    if m not in registered and not m.startswith("notifications/"):
        return ("error", {-32601})
    if m.startswith("notifications/") and m not in ("notifications/initialized", "notifications/custom-ok",
                                                    "notifications/custom-raise", "notifications/cancelled"):
        return ("error", {-32601})
    if m in ("notifications/custom-raise", "notifications/cancelled"):
        return ("error", {-32603})
    if m in ("notifications/initialized", "notifications/custom-ok"):
        return ("anything",)  # a request id on a notification name: statement silent
    if m == "custom/raise" or m in CUSTOM_RAISERS:
        return ("error", {-32603})
    if m in ("ping", "tools/list", "resources/list", "custom/ok") or m in CUSTOM_RESULTS:
        return ("result",)
    if m == "initialize":
        if isinstance(pd.get("clientInfo", {}), dict) or pd.get("clientInfo") is None:
            return ("either", {-32602, -32603})
        return ("either", {-32602, -32603})
    if m == "tools/call":
        name = pd.get("name")
        try:
            hash(name)
        except TypeError:
            return ("error", {-32602, -32603})
        if name not in GOOD_TOOLS | RAISING_TOOLS:
            return ("error", {-32602})
        if name in RAISING_TOOLS:
            return ("error", {-32603})
        args = pd.get("arguments", {})
        if isinstance(args, dict) and (not args or (name == "echo" and set(args) <= {"text"}) or name == "dict"):
            return ("result",)
        return ("either", {-32602, -32603})
    if m == "resources/read":
        uri = pd.get("uri")
        try:
            hash(uri)
        except TypeError:
            return ("error", {-32602, -32603})
        if uri == "file:///ok.txt":
            return ("result",)
        if uri == "file:///bad.txt":
            return ("error", {-32603})
        return ("error", {-32602})
    return ("anything",)


def concurrent_tier(ctx):
    """Several messages in flight on one handler at once (a transport dispatching without waiting for the previous
    answer): handlers that await before returning / raising; every request still gets exactly one answer with ITS id
    and no notification gets any."""
    import itertools as _it
    rng = ctx.sub_rng("concurrent")
    slow = {"custom/slow_ok": ("ok", 0.02), "custom/slow_raise": ("raise", 0.03), "custom/slower_raise": ("raise", 0.06),
            "custom/slow_ok2": ("ok", 0.05)}
    n_rounds = 30 if ctx.tier == "quick" else 400
    for k in range(n_rounds):
        if not ctx.mine():
            continue
        L = rng.randint(2, 6)
        msgs = []
        for i in range(L):
            m = rng.choice(list(slow) + ["custom/ok", "custom/raise", "nope/unknown", "ping"])
            has_id = rng.random() < 0.7
            msgs.append({"method": m, "has_id": has_id, "id": rng.choice([0, i + 1, f"c{i}", -7, ""]) if has_id else None,
                         "start": rng.choice([0.0, 0.0, 0.01, 0.025])})
        ids = [m["id"] for m in msgs if m["has_id"]]
        same_ids = k % 3 == 0
        if same_ids:
            # several clients talk to one server and each counts its ids from the same start: requests in flight together
            # carry the same id (each on its own session)
            for m in msgs:
                if m["has_id"]:
                    m["id"] = (1, 0, "a", "", -7)[k % 5]
        elif len(set(map(repr, ids))) != len(ids):
            continue
        case = {"concurrent": msgs, "k": k, "same_ids": same_ids}

        async def main():
            srv = build_server()
            ph = srv.protocol_handler

            def mk(kind, delay):
                async def h(message, session_id):
                    await asyncio.sleep(delay)
                    if kind == "raise":
                        raise RuntimeError("slow handler failed")
                    return ph.create_response(getattr(message, "id", None), {"slow": True}), None
                return h
            for name, (kind, delay) in slow.items():
                ph.register_method(name, mk(kind, delay))
            outs = [None] * len(msgs)

            sessions = [ph.session_manager.create_session({"name": f"client-{i}"}, "2025-06-18") for i in range(len(msgs))] if same_ids else None

            async def one(i, m):
                await asyncio.sleep(m["start"])
                wire = {"jsonrpc": "2.0", "method": m["method"]}
                if m["has_id"]:
                    wire["id"] = m["id"]
                from chuk_mcp.protocol.messages.json_rpc_message import parse_message
                try:
                    if sessions is not None:
                        outs[i] = ("ok", await ph.handle_message(parse_message(wire), session_id=sessions[i]))
                    else:
                        outs[i] = ("ok", await ph.handle_message(parse_message(wire)))
                except BaseException as e:  # noqa
                    if isinstance(e, (KeyboardInterrupt, SystemExit, asyncio.CancelledError)):
                        raise
                    outs[i] = ("raised", e)
            await asyncio.gather(*(one(i, m) for i, m in enumerate(msgs)))
            return outs
        try:
            outs, _ = run_virtual(main, max_iterations=200_000)
        except HangDetected as e:
            ctx.violation("hang", f"concurrent dispatch: {e}", case)
            continue
        ctx.count("dispatched", len(msgs))
        ctx.count("concurrent_rounds")
        for m, (st, r) in zip(msgs, outs):
            if st == "raised":
                ctx.violation("dispatch_raised_on_request" if m["has_id"] else "dispatch_raised_on_notification",
                              f"concurrent dispatch: handle_message raised {r!r}", case)
                continue
            resp = r[0] if isinstance(r, tuple) else r
            if not m["has_id"]:
                if resp is not None:
                    ctx.violation("response_to_notification", f"concurrent dispatch: notification {m['method']} answered with {resp!r}", case)
                continue
            if resp is None:
                ctx.violation("no_response_to_request", f"concurrent dispatch: request id {m['id']!r} ({m['method']}) got no response", case)
                continue
            rid = getattr(resp, "id", None)
            if tagged(rid) != tagged(m["id"]):
                ctx.violation("response_id_differs", f"concurrent dispatch: request id {m['id']!r} ({m['method']}) was answered with "
                              f"id {rid!r}", case)
            want_err = slow.get(m["method"], (None,))[0] == "raise" or m["method"] in ("custom/raise", "nope/unknown")
            has_err = getattr(resp, "error", None) is not None
            if want_err != has_err:
                ctx.violation("expected_error_got_result" if want_err else "expected_result_got_error",
                              f"concurrent dispatch: {m['method']} id {m['id']!r} answered {resp!r}", case)
        ctx.record(case, shape=[o[0] for o in outs], nontrivial=True, cls="concurrent",
                   sample={"messages": msgs, "outcomes": [o[0] for o in outs]})


def run(ctx):
    concurrent_tier(ctx)
    cases = [c for c in gen_cases(ctx) if ctx.mine()]

    async def batch(cs):
        srv = build_server()
        h_main = srv.protocol_handler
        # (a second server whose application registers nothing for notifications/cancelled: whatever the library itself
        # does with that notification is then in play)
        h_plain = build_server(own_cancelled_handler=False).protocol_handler
        outs = []
        for k, case in enumerate(cs):
            h = h_plain if "after_note" in case else h_main
            try:
                msg = build_msg(case)
            except Exception as e:  # noqa
                outs.append((case, "unbuildable", e))
                continue
            try:
                sess = case.get("session")
                sid = None
                if sess == "live":
                    sid = h.session_manager.create_session({"name": "c"}, "2025-06-18")
                elif sess == "stale":
                    sid = h.session_manager.create_session({"name": "c"}, "2025-06-18")
                    h.session_manager.delete_session(sid)
                elif sess == "unknown":
                    sid = "never-issued-session-id"
                if "after_note" in case:
                    # a notification that arrived earlier on the same dispatcher (it names ids, tokens, uris...: ids are
                    # per direction, so whatever it names is not this request)
                    note = case["after_note"]
                    from chuk_mcp.protocol.messages.json_rpc_message import parse_message
                    await h.handle_message(parse_message({"jsonrpc": "2.0", "method": note["method"], "params": note["params"]}),
                                           **({"session_id": sid} if sess else {}))
                r = await h.handle_message(msg, session_id=sid) if sess else await h.handle_message(msg)
                outs.append((case, "ok", r))
            except BaseException as e:  # noqa
                if isinstance(e, (KeyboardInterrupt, SystemExit)):
                    raise
                if isinstance(e, asyncio.CancelledError):
                    t_ = asyncio.current_task()
                    if t_ is not None and t_.cancelling():
                        raise              # this harness task really is being cancelled
                    t_.uncancel() if False else None
                outs.append((case, "raised", e))
            if k % 200 == 0:
                h.session_manager.clear_all_sessions()
        return outs

    B = 1000
    for i in range(0, len(cases), B):
        if ctx.out_of_time():
            break
        try:
            outs, _ = run_virtual(batch, cases[i:i + B])
        except HangDetected as e:
            ctx.violation("hang", str(e), cases[i])
            continue
        for case, status, r in outs:
            if status == "unbuildable":
                ctx.count("unbuildable")
                continue
            ctx.count("dispatched")
            is_note = not case["has_id"]
            if status == "raised":
                mech = "dispatch_raised_on_notification" if is_note else "dispatch_raised_on_request"
                ctx.violation(mech, f"handle_message raised {type(r).__name__}: {str(r)[:200]}", case)
                ctx.record(case, shape="raised", cls="note" if is_note else "req")
                continue
            if not (isinstance(r, tuple) and len(r) == 2):
                ctx.violation("bad_return_shape", f"handle_message returned {r!r}", case)
                continue
            resp, sid = r
            if is_note:
                if resp is not None:
                    ctx.violation("response_to_notification", f"notification answered with {resp!r}", case)
                ctx.record(case, shape="none" if resp is None else "resp", cls="note")
                continue
            # request
            if resp is None and case["method"] in ("notifications/initialized", "notifications/custom-ok",
                                                   "notifications/custom-raise", "notifications/cancelled"):
                # an id on a method that has a registered *notification* handler: the statement does not say; a silent drop
                # is accepted (an unregistered notifications/... name with an id is an ordinary unknown method: -32601)
                ctx.record(case, shape="none", cls="req:notification-name")
                continue
            if resp is None:
                ctx.violation("no_response_to_request", "request got no response", case)
                ctx.record(case, shape="none", cls="req")
                continue
            try:
                line = resp.model_dump_json(exclude_none=True)
                wire = json.loads(line)
            except Exception as e:  # noqa
                ctx.violation("response_not_serialisable", f"response could not be serialised: {e!r}", case)
                continue
            if "\n" in line or "\r" in line:
                ctx.violation("response_line_break", f"serialised response contains a raw line break: {line[:100]!r}", case)
            kind, why = classify(wire)
            if kind not in ("response", "error"):
                ctx.violation("invalid_response", f"response {wire!r} is not valid JSON-RPC: {why}", case)
                continue
            if not strict_eq(wire["id"], case["id"]):
                ctx.violation("response_id_differs", f"response id {wire['id']!r} != request id {case['id']!r}", case)
            exp = expected_codes(case)
            code = wire["error"]["code"] if kind == "error" else None
            if exp[0] == "result" and kind != "response":
                ctx.violation("unexpected_error", f"expected a result, got error {wire['error']!r}", case)
            elif exp[0] == "error":
                if kind != "error":
                    ctx.violation("expected_error_got_result", f"expected error {sorted(exp[1])}, got result {wire.get('result')!r}", case)
                elif code not in exp[1]:
                    ctx.violation("wrong_error_code", f"error code {code}, expected one of {sorted(exp[1])}: {wire['error']!r}", case)
            elif exp[0] == "either" and kind == "error" and code not in exp[1]:
                ctx.violation("wrong_error_code", f"error code {code}, expected result or {sorted(exp[1])}", case)
            ctx.record(case, shape=[kind, code], cls="req:" + exp[0])
    ctx.extra["notification_names_discovered"] = notification_names()
    ctx.require_reached("dispatched")


def replay(ctx, case):
    if "concurrent" in case:
        ctx.notes.append("concurrent rounds are regenerated from the seed")
        concurrent_tier(ctx)
        return
    import vf.props.c08 as me
    og = me.gen_cases
    me.gen_cases = lambda c: iter([case, {"method": "ping", "id": 1, "has_id": True, "params": "__missing__", "rep": "parse"}])
    try:
        run(ctx)
    finally:
        me.gen_cases = og
