"""C11 - Streamable HTTP: exactly one terminal message per request, whatever the server."""
from __future__ import annotations

import asyncio
import contextlib
import itertools
import json
from typing import Any, Dict, List, Optional, Tuple

import httpx

from vf.http_harness import ScriptedHTTP
from vf.ref import inbound_class, norm_any, sse_events, strict_eq, tagged
from vf.vloop import run_virtual, HangDetected

ID = "C11"
LEVEL = "fault_enumeration"
BACKENDS = ["pydantic", "fallback"]   # every case is executed under both validation backends
LOGLEVELS = ["default", "debug"]   # every case also runs with the root logger at DEBUG (as --verbose does)
SHARDS = {"quick": 4, "thorough": 16}
BUDGET_S = {"quick": 100.0, "thorough": 900.0}
TECHNIQUE = ("runtime monitoring with fault injection: scripted httpx transport (status/content-type/body/exception "
             "matrix, SSE encodings) under the real StreamableHTTPTransport; read-stream and POST-header recorder decided "
             "by a reference model with an independent WHATWG SSE parser")
LEVEL_TEXT = ("Every single server behaviour of the matrix {status} x {content-type} x {body} x {SSE encoding} x {transport "
              "exception} x {session header} is injected for requests (and the applicable ones for notifications), then all "
              "pairs (thorough) and seeded sequences of length 3-4; for every request the messages that reached the read "
              "stream are compared with the reference model (server's messages exactly, or exactly one terminal message "
              "with the request's id) and every POST's Mcp-Session-Id with the latest issued id. Thorough adds a real "
              "loopback HTTP server."
              " Also answers of 99-400 messages, and a second transport with its own session id alive in the same process."
              ' Also bursts whose answers take different times (a slow message-less answer first), ids 0/""/-1, directly instantiated envelopes.'
              ' Also non-object results, error-status bodies without the request id, answers that break off after a notification, batch arrays inside SSE events, POSTed responses; the deadlines of every httpx client are inspected.'
              " Also content types spelled in other letter case, real SSE bodies under the '; charset' form. Every case also runs under the dependency-free validation backend."
              ' Also SSE answers whose broken part is a complete non-message event (plain text, a JSON scalar) after a notification.'
              ' Also 307/308 answers with absolute-path and relative Location values, and SSE bodies holding non-UTF-8 bytes (a body without any message must not end in a result).'
              ' Also bursts in which two to five answers in a row carry no message (small real suspensions in the server), written by an application that reads only afterwards.'
              ' Also JSON bodies with a non-UTF-8 byte inside a string value under three spellings of the content type.'
              ' Also answers that repeat the same notification several times in a row (JSON batch and SSE).'
              ' Also SSE bodies with a broken message event between well-formed ones.')
LEVEL_NOTE = ("Trusted: httpx.MockTransport delivers the scripted response as a real server would (thorough cross-checks "
              "with a raw asyncio loopback server incl. chunked encoding); vf/ref.py SSE parser. Where the statement is "
              "silent (JSON/SSE body under an unexpected content type, an unterminated last SSE event, event types other "
              "than message) both outcomes are accepted.")
RULE = ("case = sequence (len 1-4) of (request kind, id, server behaviour). Non-trivial: every case (each injects a server "
        "behaviour); distinct = hash(case)+hash(per-request delivered kinds).")
ASSUMPTIONS = ["timeouts are injected as httpx.ReadTimeout/ConnectTimeout (MockTransport does not enforce timeouts itself)",
               "SSE line endings CRLF or LF (CR-only is not in the statement's list)"]

URL = "http://mcp.test/mcp"
TEXT = "héllo € \U0001f600 l s"


# ---------------------------------------------------------------------------
# behaviours
# ---------------------------------------------------------------------------
def sse_encode(msgs: List[Any], enc: Dict[str, Any]) -> bytes:
    eol = enc.get("eol", "\n")
    out = []
    if enc.get("bom"):
        out.append("﻿")
    if enc.get("prefix"):
        out.append(enc["prefix"].replace("\n", eol))
    if enc.get("comments"):
        out.append(": keep-alive" + eol)
    for i, m in enumerate(msgs):
        if enc.get("comments") and i:
            out.append(":" + eol)
        if enc.get("id_field"):
            out.append(f"id: {i}" + eol)
        ef = enc.get("event_field", "message")
        if ef == "message":
            out.append("event: message" + eol)
        elif ef == "nospace":
            out.append("event:message" + eol)
        if enc.get("retry"):
            out.append("retry: 1000" + eol)
        if enc.get("multiline"):
            text = json.dumps(m, indent=1, ensure_ascii=False)
            datas = text.split("\n")
        else:
            datas = [json.dumps(m, ensure_ascii=enc.get("ascii", False), separators=(",", ":"))]
        for d in datas:
            out.append(("data: " if enc.get("data_space", True) else "data:") + d + eol)
        if enc.get("event_after_data"):
            pass
        out.append(eol)
    if enc.get("ping_event"):
        out.append("event: ping" + eol + "data: {}" + eol + eol)
    text = "".join(out)
    if enc.get("unterminated_last") and text.endswith(eol + eol):
        text = text[:-len(eol)]
    return text.encode("utf-8")


SSE_ENCODINGS = [
    {"name": "canonical"},
    {"name": "no_event_field", "event_field": None},
    {"name": "no_data_space", "data_space": False},
    {"name": "event_nospace", "event_field": "nospace"},
    {"name": "crlf", "eol": "\r\n"},
    {"name": "crlf_no_event", "eol": "\r\n", "event_field": None, "data_space": False},
    {"name": "comments", "comments": True},
    {"name": "id_retry", "id_field": True, "retry": True},
    {"name": "multiline", "multiline": True},
    {"name": "bom", "bom": True},
    {"name": "ascii", "ascii": True},
    {"name": "with_ping_event", "ping_event": True},
    {"name": "unterminated_last", "unterminated_last": True},
    # a data-less named event (keep-alive) must not leak its type into the next event
    {"name": "dataless_ping_then_untyped", "prefix": "event: ping\n\n", "event_field": None},
    {"name": "dataless_ping_comment_then_untyped", "prefix": "event: ping\n: c\n\n", "event_field": None, "data_space": False},
    {"name": "dataless_ping_crlf", "prefix": "event: ping\n\n", "event_field": None, "eol": "\r\n"},
    {"name": "ping_with_data_then_untyped", "prefix": "event: ping\ndata: {}\n\n", "event_field": None},
    {"name": "id_only_event_then_message", "prefix": "id: 7\n\n", "event_field": "message"},
    {"name": "retry_only_then_untyped", "prefix": "retry: 3000\n\n", "event_field": None},
    {"name": "data_only_empty_event", "prefix": "data\n\n", "event_field": None},
    {"name": "field_without_colon", "prefix": "event\n\n", "event_field": None},
]


def body_for(beh: Dict[str, Any], req: Optional[Dict[str, Any]]) -> Tuple[bytes, List[Any]]:
    """Returns (bytes, list of JSON-RPC messages the body carries per the reference)."""
    rid = (req or {}).get("id")
    resp = {"jsonrpc": "2.0", "id": rid, "result": {"echo": (req or {}).get("method"), "text": TEXT, "n": None}}
    err = {"jsonrpc": "2.0", "id": rid, "error": {"code": -32001, "message": "server " + TEXT}}
    note1 = {"jsonrpc": "2.0", "method": "notifications/progress", "params": {"progressToken": "t", "progress": 1}}
    note2 = {"jsonrpc": "2.0", "method": "notifications/message", "params": {"level": "info", "data": TEXT}}
    sreq = {"jsonrpc": "2.0", "id": "srv-1", "method": "roots/list"}
    wrong = {"jsonrpc": "2.0", "id": "zzz-not-yours", "result": {}}
    kind = beh["body"]
    msgs: List[Any]
    if kind == "response":
        msgs = [resp]
    elif kind == "error":
        msgs = [err]
    elif kind in ("response_list", "response_str", "response_zero", "response_emptyobj", "response_null", "response_false"):
        # results that are not (non-empty) objects: the same envelope shape with another value type
        val = {"response_list": [TEXT, None, 1], "response_str": TEXT, "response_zero": 0, "response_emptyobj": {}, "response_null": None,
               "response_false": False}[kind]
        msgs = [{"jsonrpc": "2.0", "id": rid, "result": val}]
    elif kind in ("error_nullid", "error_foreignid", "error_noid", "error_plain_object"):
        # what servers put in the body of an error status: a JSON-RPC error object without the request's id
        e = {"jsonrpc": "2.0", "error": {"code": -32000, "message": "Bad Request: No valid session ID provided"}}
        if kind == "error_nullid":
            e["id"] = None
        elif kind == "error_foreignid":
            e["id"] = 999
        elif kind == "error_plain_object":
            e = {"error": "invalid_token", "error_description": TEXT}
        return json.dumps(e, ensure_ascii=False).encode("utf-8"), []
    elif kind == "sse_note_then_truncated":
        # a notification, then the response cut off in the middle (connection dropped): the request still needs its
        # terminal message
        raw = ("event: message\ndata: " + json.dumps(note1) + "\n\nevent: message\ndata: " + json.dumps(resp)[:25]).encode("utf-8")
        return raw, [note1]
    elif kind.startswith("sse_note_then_nonmessage:"):
        # a notification, then a complete message event whose data is no JSON-RPC message at all (plain text, a JSON
        # scalar, a JSON string): broken, and nothing answers the request - it still needs its terminal message
        junk = {"text": "hello", "number": "42", "string": '"oops"', "true": "true", "html": "<html>502</html>"}[kind.split(":")[1]]
        raw = ("event: message\ndata: " + json.dumps(note1) + "\n\nevent: message\ndata: " + junk + "\n\n").encode("utf-8")
        return raw, [note1]
    elif kind.startswith("sse_note_junk_response:"):
        # a notification, a complete but broken message event (truncated JSON, plain text), then the response: one bad
        # event is one bad event - what follows it in the body is still the server's
        junk = {"text": "hello", "truncated": json.dumps(note2)[:17], "number": "42"}[kind.split(":")[1]]
        raw = ("event: message\ndata: " + json.dumps(note1) + "\n\nevent: message\ndata: " + junk + "\n\nevent: message\ndata: "
               + json.dumps(resp, ensure_ascii=False) + "\n\n").encode("utf-8")
        return raw, [note1, resp]
    elif kind == "json_batch_note_then_junk":
        return json.dumps([note1, {"foo": "not a message"}]).encode("utf-8"), [note1]
    elif kind == "sse_batch_in_one_event":
        # one SSE event whose data is a JSON-RPC batch array
        return ("event: message\ndata: " + json.dumps([note1, resp], ensure_ascii=False) + "\n\n").encode("utf-8"), [note1, resp]
    elif kind == "notes_then_response_list":
        msgs = [note1, {"jsonrpc": "2.0", "id": rid, "result": []}]
    elif kind == "batch":
        msgs = [note1, resp]
    elif kind == "notes_response":
        msgs = [note1, note2, resp]
    elif kind == "repeated_notes_response":
        # the same notification several times in a row (the same log line, equal progress ticks, list_changed twice):
        # every one of them is a message the server sent
        msgs = [note1, note1, note2, note2, note2, resp]
    elif kind == "response_then_note":
        msgs = [resp, note2]
    elif kind == "server_request_then_response":
        msgs = [sreq, resp]
    elif kind == "wrong_id":
        msgs = [wrong]
    elif kind == "note_only":
        msgs = [note2]
    elif kind == "server_request_only":
        msgs = [sreq, note2]
    elif kind.startswith("flood"):
        # more messages in one answer than the read stream buffers
        n = int(kind[5:])
        msgs = [dict(note1, params={"progressToken": "t", "progress": i}) if i % 2 else
                dict(note2, params={"level": "info", "data": TEXT + str(i)}) for i in range(n)] + [resp]
    elif kind in ("empty", "truncated", "nonjson", "nonutf8", "json_scalar", "sse_no_message", "sse_bad_json", "sse_bad_byte_in_string",
                  "json_bad_byte_in_string"):
        msgs = []
    else:
        raise KeyError(kind)
    ctype = beh.get("ctype")
    if kind == "empty":
        return b"", []
    if kind == "nonjson":
        return b"<html><body>502 Bad Gateway</body></html>", []
    if kind == "nonutf8":
        return b"\xff\xfe\xfa{\"jsonrpc\"", []
    if kind == "json_scalar":
        return b"42", []
    if kind == "truncated":
        raw = json.dumps(resp).encode()
        return raw[: len(raw) // 2], []
    if kind == "sse_no_message":
        return b": just a comment\n\nevent: ping\ndata: {}\n\n", []
    if kind == "sse_bad_json":
        return b"event: message\ndata: {not json\n\n", []
    if kind == "json_bad_byte_in_string":
        # the JSON twin: a complete response object, one byte inside a string value is not UTF-8 (a Latin-1 e-acute)
        good = json.dumps(resp, ensure_ascii=False).encode("utf-8")
        cut = good.index(b'"text"') + 9 if b'"text"' in good else len(good) // 2
        return good[:cut] + b"caf\xe9 au lait" + good[cut:], []
    if kind == "sse_bad_byte_in_string":
        # a well-framed event whose JSON text holds a byte that is not UTF-8 inside a string: the body is malformed -
        # nothing "repaired" may be delivered as if the server had said it
        good = json.dumps(resp, ensure_ascii=False).encode("utf-8")
        cut = good.index(b'"text"') + 9 if b'"text"' in good else len(good) // 2
        return b"event: message\ndata: " + good[:cut] + b"\xff\xfe" + good[cut:] + b"\n\n", []
    if ctype in ("sse", "sse_charset", "sse_upper") or beh.get("force_sse_body"):
        enc = beh.get("sse") or {}
        return sse_encode(msgs, enc), msgs
    if kind == "batch" or len(msgs) > 1:
        return json.dumps(msgs, ensure_ascii=False).encode("utf-8"), msgs
    return json.dumps(msgs[0], ensure_ascii=beh.get("ascii", False)).encode("utf-8"), msgs


CTYPES = {"json": "application/json", "json_charset": "application/json; charset=utf-8", "sse": "text/event-stream",
          "sse_charset": "text/event-stream; charset=utf-8", "other": "text/plain", None: None,
          # media types are case-insensitive
          "sse_upper": "Text/Event-Stream", "json_upper": "Application/JSON; Charset=UTF-8"}

EXCS = {
    "connect": lambda req: httpx.ConnectError("connection refused", request=req),
    "read_timeout": lambda req: httpx.ReadTimeout("read timed out", request=req),
    "connect_timeout": lambda req: httpx.ConnectTimeout("connect timed out", request=req),
    "protocol": lambda req: httpx.RemoteProtocolError("peer closed connection without sending complete message body", request=req),
    "asyncio_timeout": lambda req: asyncio.TimeoutError(),
    "os_error": lambda req: OSError("network unreachable"),
}


def single_behaviours() -> List[Dict[str, Any]]:
    out: List[Dict[str, Any]] = []
    for status in (200, 201, 202, 204, 301, 304, 400, 401, 404, 429, 500, 503):
        for ct in ("json", "sse", "other", None):
            for body in ("response", "error", "batch", "wrong_id", "empty", "truncated", "nonjson", "nonutf8",
                         "json_scalar"):
                if ct == "sse" and body in ("batch",):
                    continue
                out.append({"status": status, "ctype": ct, "body": body})
            if ct == "sse":
                for body in ("notes_response", "response_then_note", "server_request_then_response", "note_only",
                             "sse_no_message", "sse_bad_json"):
                    out.append({"status": status, "ctype": ct, "body": body})
    out.append({"status": 200, "ctype": "sse", "body": "repeated_notes_response"})
    out.append({"status": 200, "ctype": "json", "body": "repeated_notes_response"})
    for enc in SSE_ENCODINGS:
        for body in ("response", "notes_response", "error"):
            out.append({"status": 200, "ctype": "sse", "body": body, "sse": enc})
            out.append({"status": 200, "ctype": "sse_charset", "body": body, "sse": enc})
            out.append({"status": 200, "ctype": "sse_upper", "body": body, "sse": enc})
    for status in (400, 401, 404, 500):
        for body in ("error_nullid", "error_foreignid", "error_noid", "error_plain_object"):
            for ct in ("json", "other", None):
                out.append({"status": status, "ctype": ct, "body": body})
    out.append({"status": 200, "ctype": "sse", "body": "sse_note_then_truncated"})
    out.append({"status": 200, "ctype": "sse", "body": "sse_bad_byte_in_string"})
    out.append({"status": 200, "ctype": "sse_charset", "body": "sse_bad_byte_in_string"})
    for ct_ in ("json", "json_charset", "json_upper"):
        out.append({"status": 200, "ctype": ct_, "body": "json_bad_byte_in_string"})
    for j_ in ("text", "number", "string", "true", "html"):
        out.append({"status": 200, "ctype": "sse", "body": "sse_note_then_nonmessage:" + j_})
    out.append({"status": 200, "ctype": "json", "body": "json_batch_note_then_junk"})
    for j_ in ("text", "truncated"):
        out.append({"status": 200, "ctype": "sse", "body": "sse_note_junk_response:" + j_})
    out.append({"status": 200, "ctype": "sse", "body": "sse_batch_in_one_event"})
    for body in ("response_list", "response_str", "response_zero", "response_emptyobj", "notes_then_response_list", "response_null",
                 "response_false"):
        out.append({"status": 200, "ctype": "json", "body": body})
        out.append({"status": 200, "ctype": "sse", "body": body})
    for n in (99, 100, 101, 150, 400):
        out.append({"status": 200, "ctype": "sse", "body": f"flood{n}"})
        out.append({"status": 200, "ctype": "json", "body": f"flood{n}"})
    out.append({"status": 200, "ctype": "json_charset", "body": "response"})
    for body in ("response", "error", "batch", "notes_then_response_list"):
        out.append({"status": 200, "ctype": "json_upper", "body": body})
    out.append({"status": 200, "ctype": "json", "body": "response", "ascii": True})
    for e in EXCS:
        out.append({"exc": e})
    for s in ("S1", "S2"):
        out.append({"status": 200, "ctype": "json", "body": "response", "session": s})
        out.append({"status": 202, "ctype": None, "body": "empty", "session": s})
    out.append({"status": 307, "ctype": None, "body": "empty", "redirect": True})
    for st_ in (307, 308):      # (301/302/303 make the HTTP client turn the POST into a GET: not an answer to the POST)
        for loc_ in ("path", "relative"):
            out.append({"status": st_, "ctype": None, "body": "empty", "redirect": True, "location": loc_})
    return out


NOTE_BEHAVIOURS = [
    {"status": 202, "ctype": None, "body": "empty"}, {"status": 204, "ctype": None, "body": "empty"},
    {"status": 200, "ctype": "json", "body": "empty"}, {"status": 500, "ctype": "other", "body": "nonjson"},
    {"status": 404, "ctype": None, "body": "empty"}, {"exc": "connect"}, {"exc": "read_timeout"},
    {"status": 200, "ctype": "sse", "body": "note_only"}, {"status": 202, "ctype": None, "body": "empty", "session": "S9"},
    {"status": 200, "ctype": "other", "body": "nonjson"},
    # the answer to a notification may itself carry messages (a server piggy-backing a log line or a request of its own)
    {"status": 202, "ctype": "json", "body": "note_only"}, {"status": 202, "ctype": "sse", "body": "note_only"},
    {"status": 200, "ctype": "json", "body": "note_only"}, {"status": 202, "ctype": "sse", "body": "server_request_only"},
    {"status": 202, "ctype": "json", "body": "server_request_only"},
]

REQ_IDS = [1, 0, "abc", "123", 2**53 + 1, "u-é", "", -1]


def gen_cases(ctx):
    ok_first = {"status": 200, "ctype": "json", "body": "response"}
    rng = ctx.sub_rng("c11")
    singles = single_behaviours()
    ctx.extra["single_behaviours"] = len(singles)
    for b in singles:
        yield [{"req": "request", "id": 1, "beh": b}]
    for b in singles[::7]:
        for rid in REQ_IDS:
            yield [{"req": "request", "id": rid, "beh": b}]
    for b in NOTE_BEHAVIOURS:
        yield [{"req": "notification", "beh": b}]
        yield [{"req": "notification", "beh": b}, {"req": "request", "id": 5, "beh": {"status": 200, "ctype": "json", "body": "response"}}]
    # the client POSTs a *response* (its answer to a server request): whatever the server says to that, nothing carrying
    # that id may appear on the read stream (it could complete an unrelated request of the client's with the same id)
    for b in NOTE_BEHAVIOURS:
        for rid in (7, "srv-1", 0):
            yield [{"req": "response", "id": rid, "beh": b}, {"req": "request", "id": rid if rid != 0 else 1, "beh": ok_first}]
    # survival: every behaviour followed by a healthy request
    ok = {"status": 200, "ctype": "json", "body": "response"}
    for b in singles:
        yield [{"req": "request", "id": "a", "beh": b}, {"req": "request", "id": "b", "beh": ok}]
    # session sequences
    for seq in itertools.product([None, "S1", "S2"], repeat=3):
        base = [{"req": "request", "id": i, "beh": {"status": 200, "ctype": "json", "body": "response", "session": s}}
                for i, s in enumerate(seq)] + [{"req": "notification", "beh": {"status": 202, "ctype": None, "body": "empty"}}]
        yield base
        # the same with a second transport to another endpoint alive in the process, holding its own session
        yield [dict(base[0], twin=True)] + base[1:]
    yield [{"req": "request", "id": 1, "beh": ok, "initial_session": "PRESET"},
           {"req": "request", "id": 2, "beh": {"status": 200, "ctype": "json", "body": "response", "session": "NEW"}},
           {"req": "request", "id": 3, "beh": {"status": 500, "ctype": "other", "body": "nonjson"}},
           {"req": "request", "id": 4, "beh": ok}]
    # bursts: several requests with distinct ids queued at once (only behaviours whose expectation is id-addressed)
    simple = [b for b in singles if b.get("body") in ("response", "error", "empty", "nonjson", "truncated") or b.get("exc")]
    for _ in range(40 if ctx.tier == "quick" else 600):
        L = rng.randint(2, 4)
        yield [dict({"req": "request", "id": f"burst-{i}", "beh": rng.choice(simple)}, **({"burst": True} if i == 0 else {}))
               for i in range(L)]
    # bursts whose answers take different times: a slow answer that carries no message (so that its terminal message
    # has to be synthesised) while later requests are already queued - and would overlap if they were not serial
    quiet = [b for b in singles if b.get("body") in ("empty", "json_scalar", "sse_no_message", "nonjson", "truncated")
             and b.get("status", 200) < 300 and not b.get("exc")]
    for j in range(30 if ctx.tier == "quick" else 400):
        first = dict(rng.choice(quiet), delay=rng.choice([0.2, 0.8]))
        rest = [dict(rng.choice(simple), delay=rng.choice([0, 0, 0.1])) for _ in range(rng.randint(1, 3))]
        behs = [first] + rest
        if j % 3 == 2:
            behs = rest[:1] + [first] + rest[1:]
        yield [dict({"req": "request", "id": f"slow-{j}-{i}", "beh": b}, **({"burst": True} if i == 0 else {}))
               for i, b in enumerate(behs)]
    # bursts in which several answers in a row carry no message: every one of them needs its own synthesised terminal
    # message, whatever the hand-over of the previous one was still doing when the next exchange began
    for j in range(30 if ctx.tier == "quick" else 400):
        behs = [dict(rng.choice(quiet), delay=rng.choice([0, 0.05, 0.2])) for _ in range(rng.randint(2, 5))]
        if j % 4 == 3:
            behs.insert(rng.randrange(len(behs) + 1), dict(ok_first, delay=0.05))
        yield [dict({"req": "request", "id": f"quiet-{j}-{i}", "beh": b}, **({"burst": True} if i == 0 else {}))
               for i, b in enumerate(behs)]
    # pairs / seeded sequences
    if ctx.tier == "thorough":
        for a, b in itertools.product(singles[::3], singles[::5]):
            yield [{"req": "request", "id": "p1", "beh": a}, {"req": "request", "id": "p2", "beh": b}]
    n = 400 if ctx.tier == "quick" else 8000
    for _ in range(n):
        L = rng.randint(3, 4)
        seq = []
        for k in range(L):
            if rng.random() < 0.2:
                seq.append({"req": "notification", "beh": rng.choice(NOTE_BEHAVIOURS)})
            else:
                b = dict(rng.choice(singles))
                if rng.random() < 0.3 and "exc" not in b and b.get("status", 200) < 400:
                    b["session"] = rng.choice(["S1", "S2", "S3"])
                seq.append({"req": "request", "id": rng.choice(REQ_IDS), "beh": b})
        if rng.random() < 0.25:
            seq[0] = dict(seq[0], twin=True)
        yield seq


# ---------------------------------------------------------------------------
# reference model
# ---------------------------------------------------------------------------
def reference(step: Dict[str, Any], req_wire: Dict[str, Any]) -> Dict[str, Any]:
    """-> {"mode": "messages", "alts": [list, ...]} | {"mode": "terminal"} | {"mode": "either", "alts": [...]}"""
    beh = step["beh"]
    if beh.get("exc"):
        return {"mode": "terminal"}
    status = beh["status"]
    if status >= 400:
        return {"mode": "terminal"}
    if beh.get("redirect"):
        return {"mode": "messages", "alts": [[{"jsonrpc": "2.0", "id": req_wire.get("id"),
                                               "result": {"echo": req_wire.get("method"), "text": TEXT, "n": None}}]]}
    raw, msgs = body_for(beh, req_wire)
    ct = {"sse_upper": "sse", "json_upper": "json"}.get(beh.get("ctype"), beh.get("ctype"))
    if beh.get("body") in ("sse_note_then_truncated", "json_batch_note_then_junk") or str(beh.get("body")).startswith("sse_note_then_nonmessage:"):
        # the well-formed part is delivered, and since no answer came the request still ends in one terminal message
        return {"mode": "partial_then_terminal", "alts": [msgs]}
    if ct in ("json", "json_charset"):
        return {"mode": "messages", "alts": [msgs]} if msgs else {"mode": "terminal"}
    if ct in ("sse", "sse_charset"):
        try:
            text = raw.decode("utf-8")
        except UnicodeDecodeError:
            return {"mode": "terminal"}
        strict = []
        for ev in sse_events(text):
            if ev["event"] != "message":
                continue
            try:
                v_ = json.loads(ev["data"])
                strict.extend(v_ if isinstance(v_, list) else [v_])   # a batch array in one event = its members
            except Exception:
                pass
        lenient = []
        for ev in sse_events(text + "\n\n"):
            if ev["event"] != "message":
                continue
            try:
                v_ = json.loads(ev["data"])
                lenient.extend(v_ if isinstance(v_, list) else [v_])
            except Exception:
                pass
        alts = [a for a in (strict, lenient) if a]
        if not alts:
            return {"mode": "terminal"}
        if strict != lenient and not strict:
            return {"mode": "either", "alts": alts}
        return {"mode": "messages", "alts": alts}
    # other / absent content type: statement silent on bodies that do carry messages
    if msgs:
        return {"mode": "either", "alts": [msgs]}
    return {"mode": "terminal"}


def exec_case(ctx, seq: List[Dict[str, Any]]) -> None:
    from chuk_mcp.transports.http.http_client import http_client
    from chuk_mcp.transports.http.parameters import StreamableHTTPParameters
    from chuk_mcp.protocol.messages.json_rpc_message import (create_request, create_notification, JSONRPCRequest,
                                                               JSONRPCNotification)

    case = {"seq": seq}
    script = [s["beh"] for s in seq]
    state = {"i": 0, "pending_redirect": None}

    def handler(request: httpx.Request, rec):
        if request.url.host == "twin.test":
            rec["twin"] = True
            if request.method != "POST":
                return httpx.Response(405)
            state["twin_n"] = state.get("twin_n", 0) + 1
            body = rec["body"] or {}
            return httpx.Response(200, headers={"content-type": "application/json",
                                                "mcp-session-id": f"TWIN-{state['twin_n']}"},
                                  content=json.dumps({"jsonrpc": "2.0", "id": body.get("id"),
                                                      "result": {"twin": state["twin_n"]}}).encode())
        if request.method != "POST":
            return httpx.Response(405)
        if state["pending_redirect"] is not None:
            beh = state["pending_redirect"]
            state["pending_redirect"] = None
            raw, _ = body_for({"status": 200, "ctype": "json", "body": "response"}, rec["body"])
            return httpx.Response(200, headers={"content-type": "application/json"}, content=raw)
        i = state["i"]
        state["i"] += 1
        rec["step"] = i
        beh = script[i] if i < len(script) else {"status": 200, "ctype": "json", "body": "response"}
        if beh.get("exc"):
            raise EXCS[beh["exc"]](request)
        headers = {}
        ct = CTYPES[beh.get("ctype")]
        if ct:
            headers["content-type"] = ct
        if beh.get("session"):
            headers["mcp-session-id"] = beh["session"]
        if beh.get("redirect"):
            state["pending_redirect"] = beh
            # absolute, absolute-path and relative references are all legitimate Location values
            headers["location"] = {"absolute": URL + "/moved", "path": "/mcp/moved/", "relative": "moved/"}[beh.get("location", "absolute")]
            return httpx.Response(beh["status"], headers=headers)
        raw, _ = body_for(beh, rec["body"])
        if beh.get("delay"):
            async def later(d=beh["delay"], st=beh["status"], h=headers, r=raw):
                await asyncio.sleep(d)
                return httpx.Response(st, headers=h, content=r)
            return later()
        return httpx.Response(beh["status"], headers=headers, content=raw)

    async def main():
        per_step: List[List[Any]] = []
        wires = []
        with ScriptedHTTP(handler) as http:
            params = StreamableHTTPParameters(url=URL, timeout=5.0, session_id=seq[0].get("initial_session"))
            twin_got: List[Any] = []
            async with contextlib.AsyncExitStack() as stack:
                twin_rw = None
                if seq[0].get("twin"):
                    twin_rw = await stack.enter_async_context(http_client(
                        StreamableHTTPParameters(url="http://twin.test/mcp", timeout=5.0, session_id="TWIN-0")))

                    async def twin_drain():
                        try:
                            async for m in twin_rw[0]:
                                twin_got.append(m)
                        except Exception:
                            pass
                    twin_task = asyncio.create_task(twin_drain())
                    stack.callback(twin_task.cancel)
                read, write = await stack.enter_async_context(http_client(params))
                got: List[Any] = []

                async def drain():
                    try:
                        async for m in read:
                            got.append(m)
                    except Exception:
                        pass
                dt = asyncio.create_task(drain())
                burst = bool(seq and seq[0].get("burst"))
                msgs = []
                for k, step in enumerate(seq):
                    if step["req"] == "request" and k % 2:
                        # the envelope class instantiated directly, relying on its declared defaults
                        msg = JSONRPCRequest(id=step["id"], method="tools/call", params={"name": "t", "arguments": {"x": TEXT, "n": None}})
                    elif step["req"] == "request":
                        msg = create_request("tools/call", {"name": "t", "arguments": {"x": TEXT, "n": None}}, id=step["id"])
                    elif step["req"] == "response":
                        # the client's answer to a request the server made earlier
                        from chuk_mcp.protocol.messages.json_rpc_message import create_response, create_error_response
                        msg = (create_response(step["id"], {"roots": []}) if k % 2 == 0
                               else create_error_response(step["id"], -32601, "not supported"))
                    elif k % 2:
                        msg = JSONRPCNotification(method="notifications/roots/list_changed", params={})
                    else:
                        msg = create_notification("notifications/roots/list_changed", {})
                    wires.append(msg.model_dump(exclude_none=True))
                    msgs.append(msg)
                if burst:
                    # everything is queued before the sender task gets a turn; the answers are attributed by id
                    for msg in msgs:
                        write.send_nowait(msg)
                    await asyncio.sleep(0.5 * (len(msgs) + 1) + sum(st["beh"].get("delay", 0) for st in seq))
                    for k, step in enumerate(seq):
                        per_step.append(list(got))
                else:
                    for k, msg in enumerate(msgs):
                        before = len(got)
                        if twin_rw is not None:
                            await twin_rw[1].send(create_request("ping", None, id=f"twin-{k}"))
                        await write.send(msg)
                        await asyncio.sleep(0.5)
                        per_step.append(list(got[before:]))
                dt.cancel()
            state["twin_got"] = twin_got
            state["client_timeouts"] = [(c.timeout.connect, c.timeout.read, c.timeout.write, c.timeout.pool) for c in http.clients]
            return per_step, wires, list(http.requests)

    try:
        (per_step, wires, requests), _ = run_virtual(main, max_iterations=400_000)
    except HangDetected as e:
        ctx.violation("hang", str(e), case)
        ctx.record(case, shape="hang")
        return
    except Exception as e:  # noqa
        ctx.violation("transport_crashed", f"transport raised {e!r}", case)
        ctx.record(case, shape="crash")
        return
    if seq[0].get("twin"):
        tposts = [r for r in requests if r.get("twin") and r["method"] == "POST"]
        ctx.count("twin_posts", len(tposts))
        for j, p in enumerate(tposts):
            sent = p["headers"].get("mcp-session-id")
            if sent != f"TWIN-{j}":
                ctx.violation("session_shared_between_transports", f"second transport's POST #{j} carried "
                              f"Mcp-Session-Id={sent!r}, its own latest is 'TWIN-{j}'", case)
        tg = [norm_any(m) for m in state.get("twin_got", [])]
        want = [("response", tagged(f"twin-{j}")) for j in range(len(tposts))]
        if [g[:2] for g in tg] != want or len(tposts) != len(seq):
            ctx.violation("second_transport_disturbed", f"second transport sent {len(tposts)} POSTs for {len(seq)} requests "
                          f"and read {[g[:2] for g in tg]!r}", case)
    # every HTTP client the transport builds must bound each phase of a request by the configured timeout (5 s here):
    # with an unbounded read phase a server that accepts the request and then goes silent would never be given up on
    for tmo in state.get("client_timeouts", []):
        ctx.count("http_clients_inspected")
        if any(t is None or t > 5.0 + 1e-9 for t in tmo):
            ctx.violation("request_phase_without_deadline", f"an httpx client was built with timeouts (connect, read, write, pool) = "
                          f"{tmo}; the configured request timeout is 5.0", case)
            break
    posts = [r for r in requests if r["method"] == "POST" and "step" in r]
    ctx.count("posts", len(posts))
    shape = []
    latest_session = seq[0].get("initial_session")
    for k, step in enumerate(seq):
        req_wire = wires[k]
        got = per_step[k]
        ctx.count("messages_on_read_stream", len(got))
        mine = [p for p in posts if p.get("step") == k]
        if len(mine) != 1:
            ctx.violation("post_count", f"request #{k} produced {len(mine)} POSTs", case)
        else:
            p = mine[0]
            sent = p["headers"].get("mcp-session-id")
            if sent != latest_session:
                mech = "stale_session_id" if sent is not None else "session_id_not_sent"
                ctx.violation(mech, f"POST #{k} carried Mcp-Session-Id={sent!r}, latest issued is {latest_session!r}", case)
            if not strict_eq(p["body"], req_wire):
                ctx.violation("post_body_differs", f"POST #{k} body {p['body']!r} != message {req_wire!r}", case)
            accept = p["headers"].get("accept", "")
            if "application/json" not in accept or "text/event-stream" not in accept:
                ctx.violation("accept_header", f"POST #{k} Accept={accept!r}", case)
        beh = step["beh"]
        # a session header on an intermediate redirect response is consumed by httpx and never visible to the transport
        if not beh.get("exc") and beh.get("status", 200) < 400 and beh.get("session") and not beh.get("redirect"):
            latest_session = beh["session"]
        got_n = [norm_any(m) for m in got]
        if seq[0].get("burst"):
            got_n = [g for g in got_n if g[1] == tagged(wires[k].get("id"))]
        with_id = [g for g in got_n if g[1] != ("null",)]
        if step["req"] in ("notification", "response"):
            ref = reference(step, {k_: v_ for k_, v_ in req_wire.items() if k_ != "id"})   # nothing here awaits an answer
            allowed = [norm_any(m) for alt in ref.get("alts", []) for m in alt]
            stray = [g for g in with_id if g not in allowed]
            if stray:
                ctx.violation("id_message_for_notification", f"notification POST #{k} produced messages carrying an id: {stray!r}", case)
            if step["req"] == "notification" and ref.get("mode") == "messages" and not any(got_n == [norm_any(m) for m in alt] for alt in ref["alts"]):
                ctx.violation("server_messages_dropped" if not got_n else "server_message_lost",
                              f"notification POST #{k} ({step['beh']}): the answer carried {[norm_any(m)[:3] for m in ref['alts'][0]]!r}, "
                              f"the read stream got {[g[:3] for g in got_n]!r}", case)
            shape.append(f"n{len(got_n)}")
            continue
        rid = req_wire["id"]
        ref = reference(step, req_wire)
        ok_msgs = False
        if ref["mode"] in ("messages", "either"):
            for alt in ref["alts"]:
                exp = [norm_any(m) for m in alt]
                if got_n == exp:
                    ok_msgs = True
        ok_term = False
        terminal = [g for g in got_n if g[0] in ("response", "error") and g[1] == tagged(rid)]
        if len(terminal) == 1 and len(with_id) == 1 and all(g[0] in ("response", "error") or g[1] == ("null",) for g in got_n):
            ok_term = len([g for g in got_n if g[1] != ("null",)]) == 1
        if ref["mode"] == "messages" and not ok_msgs:
            exp = ref["alts"][0]
            if not got_n:
                mech = "server_messages_dropped"
            elif len(got_n) < len(exp):
                mech = "server_message_lost"
            elif len(got_n) > len(exp):
                mech = "message_invented_or_duplicated"
            else:
                mech = "server_message_altered"
            ctx.violation(mech, f"request #{k} ({beh}): read stream got {[g[:3] for g in got_n]!r}, server sent "
                          f"{[norm_any(m)[:3] for m in exp]!r}", case)
        elif ref["mode"] == "terminal" and ok_term and terminal[0][0] == "response" and \
                beh.get("body") in ("truncated", "nonjson", "nonutf8", "json_scalar", "sse_bad_json", "sse_bad_byte_in_string", "json_bad_byte_in_string") \
                and beh.get("status", 200) < 400:
            # the body was there but carried no message: the request ends in a synthesised *error* - a result would be
            # something the server never said (e.g. a text "repaired" by replacing undecodable bytes)
            ctx.violation("message_invented_or_duplicated", f"request #{k} ({beh}): the body carries no valid message, yet the read "
                          f"stream got a *result* {[g[:3] for g in got_n]!r}", case)
        elif ref["mode"] == "terminal" and not ok_term:
            if not terminal:
                idstr = [g for g in got_n if g[1] == tagged(str(rid)) and not isinstance(rid, str)]
                mech = "terminal_id_type_changed" if idstr else "no_terminal_message"
            elif len(terminal) > 1:
                mech = "duplicate_terminal_message"
            else:
                mech = "extra_message_with_terminal"
            ctx.violation(mech, f"request #{k} ({beh}): expected exactly one terminal message with id {rid!r}, read stream "
                          f"got {[g[:3] for g in got_n]!r}", case)
        elif ref["mode"] == "partial_then_terminal":
            delivered = [g for g in got_n if g[1] == ("null",)]
            exp_notes = [norm_any(m) for m in ref["alts"][0]]
            if len(terminal) != 1 or len(with_id) != 1:
                ctx.violation("no_terminal_message" if not terminal else "duplicate_terminal_message",
                              f"request #{k} ({beh}): the body carried a notification and then broke off; the request must still "
                              f"get exactly one terminal message with id {rid!r}; read stream got {[g[:3] for g in got_n]!r}", case)
            if any(d not in exp_notes for d in delivered):
                ctx.violation("message_invented_or_duplicated", f"request #{k} ({beh}): unexpected {delivered!r}", case)
        elif ref["mode"] == "either" and not (ok_msgs or ok_term):
            ctx.violation("neither_messages_nor_terminal", f"request #{k} ({beh}): got {[g[:3] for g in got_n]!r}", case)
        shape.append(f"{ref['mode'][0]}{len(got_n)}")
    b0 = seq[0]["beh"]
    cls = ("exc" if b0.get("exc") else f"{b0.get('status')}:{b0.get('ctype')}") + f":len{len(seq)}"
    ctx.record(case, shape=shape, cls=cls, sample={"seq": seq, "delivered_per_request": shape})


def loopback_tier(ctx):
    """Real sockets: a raw asyncio server writes chosen bytes (Content-Length and chunked)."""
    import anyio
    from chuk_mcp.transports.http.http_client import http_client
    from chuk_mcp.transports.http.parameters import StreamableHTTPParameters
    from chuk_mcp.protocol.messages.json_rpc_message import create_request

    behaviours = [b for b in single_behaviours() if not b.get("exc") and not b.get("redirect")][::2]

    async def main():
        results = []
        state = {"beh": None}

        async def serve(reader, writer):
            try:
                head = await reader.readuntil(b"\r\n\r\n")
                clen = 0
                for line in head.split(b"\r\n"):
                    if line.lower().startswith(b"content-length:"):
                        clen = int(line.split(b":")[1])
                body = await reader.readexactly(clen) if clen else b""
                req = json.loads(body)
                beh = state["beh"]
                raw, _ = body_for(beh, req)
                hdr = [f"HTTP/1.1 {beh['status']} X".encode()]
                ct = CTYPES[beh.get("ctype")]
                if ct:
                    hdr.append(b"Content-Type: " + ct.encode())
                no_body = beh["status"] in (204, 304)
                if no_body:
                    raw = b""
                chunked = beh.get("ctype") in ("sse", "sse_charset") and not no_body
                if chunked:
                    hdr.append(b"Transfer-Encoding: chunked")
                elif not no_body:
                    hdr.append(b"Content-Length: " + str(len(raw)).encode())
                hdr.append(b"Connection: close")
                writer.write(b"\r\n".join(hdr) + b"\r\n\r\n")
                if chunked:
                    step = max(1, len(raw) // 3)
                    for i in range(0, len(raw), step):
                        piece = raw[i:i + step]
                        writer.write(hex(len(piece))[2:].encode() + b"\r\n" + piece + b"\r\n")
                        await writer.drain()
                        await asyncio.sleep(0.005)
                    writer.write(b"0\r\n\r\n")
                else:
                    writer.write(raw)
                await writer.drain()
            except Exception:
                pass
            finally:
                writer.close()

        server = await asyncio.start_server(serve, "127.0.0.1", 0)
        port = server.sockets[0].getsockname()[1]
        try:
            for beh in behaviours:
                if ctx.out_of_time("loopback"):
                    break
                state["beh"] = beh
                params = StreamableHTTPParameters(url=f"http://127.0.0.1:{port}/mcp", timeout=5.0)
                got = []
                msg = create_request("tools/call", {"name": "t"}, id="lb-1")
                # (real sockets, real time: a generous wall-clock allowance per behaviour - one that is exceeded, on a
                # loaded machine, says nothing about the property and is counted, not judged)
                with anyio.move_on_after(30.0) as whole:
                    async with http_client(params) as (read, write):
                        await write.send(msg)
                        with anyio.move_on_after(3.0):
                            while True:
                                with anyio.move_on_after(0.4) as sc:
                                    got.append(await read.receive())
                                if sc.cancelled_caught:
                                    break
                if whole.cancelled_caught:
                    state["skipped"] = state.get("skipped", 0) + 1
                    continue
                results.append((beh, msg.model_dump(exclude_none=True), got))
        finally:
            server.close()
            with anyio.move_on_after(2.0):
                # (since Python 3.12 this also waits for every connection handler; one still parked in a read on a
                # half-open connection must not keep the check from finishing)
                await server.wait_closed()
        ctx.count("loopback_behaviours_skipped_for_time", state.get("skipped", 0))
        return results

    try:
        results = asyncio.run(asyncio.wait_for(main(), timeout=600.0))
    except (TimeoutError, asyncio.TimeoutError):
        ctx.count("loopback_tier_abandoned_for_time")      # (secondary tier on real sockets; the virtual-time tiers decide)
        return
    except Exception as e:  # noqa
        ctx.inconclusive_because(f"loopback tier failed: {e!r}")
        return
    for beh, req_wire, got in results:
        ctx.count("loopback_requests")
        step = {"req": "request", "id": "lb-1", "beh": beh}
        if beh["status"] in (204, 304):
            step = {"req": "request", "id": "lb-1", "beh": dict(beh, body="empty")}
        ref = reference(step, req_wire)
        got_n = [norm_any(m) for m in got]
        ok_msgs = any(got_n == [norm_any(m) for m in alt] for alt in ref.get("alts", []))
        terminal = [g for g in got_n if g[0] in ("response", "error") and g[1] == tagged("lb-1")]
        ok_term = len(terminal) == 1 and len([g for g in got_n if g[1] != ("null",)]) == 1
        case = {"seq": [step], "loopback": True}
        if (ref["mode"] == "messages" and not ok_msgs) or (ref["mode"] == "terminal" and not ok_term) or \
                (ref["mode"] == "either" and not (ok_msgs or ok_term)):
            ctx.violation("loopback_" + ref["mode"] + "_mismatch", f"real socket, {beh}: read stream got "
                          f"{[g[:3] for g in got_n]!r}", case)
        ctx.record(case, shape=len(got_n), cls="loopback")


def run(ctx):
    for seq in gen_cases(ctx):
        if not ctx.mine():
            continue
        if ctx.out_of_time():
            break
        exec_case(ctx, seq)
    if ctx.tier == "thorough" and ctx.shard[0] == 0:
        loopback_tier(ctx)
    ctx.require_reached("posts")
    ctx.require_reached("messages_on_read_stream")


def replay(ctx, case):
    exec_case(ctx, case["seq"])
    ctx.record({"x": 1}, shape=1)
