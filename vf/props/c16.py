"""C16 - stdio client shutdown is bounded and leaves no child process behind."""
from __future__ import annotations

import concurrent.futures as cf
import json
import os
import subprocess
from typing import Any, Dict, List, Optional

from vf.core import PY, ROOT, child_env

ID = "C16"
LEVEL = "fault_enumeration"
SHARDS = {"quick": 1, "thorough": 1}
BUDGET_S = {"quick": 150.0, "thorough": 1200.0}
TECHNIQUE = ("runtime monitoring with fault injection on real processes: misbehaving real children x exit paths x moments, "
             "each case in its own interpreter; /proc/<pid> state, fd table diff, monotonic exit duration and pending-request "
             "outcome observed after the context is left")
LEVEL_TEXT = ("Real child processes (well-behaved, exiting at every step k of the conversation, ignoring SIGTERM after "
              "signalling readiness, never reading stdin, flooding stdout, closing stdout/stdin, slow start, slow SIGTERM "
              "handler) are combined with every exit path (normal, exception in body, outer cancellation, anyio timeout around "
              "the context) and moment (before first message, request in flight, after response). After exit every spawned "
              "pid must be gone (neither running nor zombie), the fd table unchanged, the exit bounded by 2 s + slack, a "
              "pending request must end with an exception, and an unstartable command must make entering raise."
              " Also children talkative on stderr x LOG_LEVEL/LOGGING_LEVEL environments, a companion client of the same process that must stay usable, and the fd table sampled at the moment of exit, before and after a garbage collection."
              ' Also the same client object entered again after earlier uses.'
              ' Also a flooding child that exits 0 on SIGTERM.'
              ' Also a native asyncio deadline (asyncio.timeout) during the grace periods, a 0.1 ms-step sweep of cancellation through the spawn (children looked up in /proc by parent pid), and an unread backlog of 99-130 messages ending in an id-carrying one.'
              ' Also a child flooding stdout with short lines that are not messages.'
              ' Also a flood without line breaks (repeated attempts, race-dependent), and (virtual time, scripted child) a request pending on the per-request API when the child dies / the context is left.'
              ' Also exits that take longer than the designed 2.5 s plus slack are measured again twice (three in a row are a violation); the longest exit per child and exit path is recorded in the evidence.'
              ' Also a child that floods batch arrays and never reads its stdin, on a connection settled on a revision without batching (and one with).'
              ' Also two requests pending on the per-request API under ids of different JSON types when the context is left.'
              " Also a native cancellation delivered by a watcher the moment the child's exit status is known (between the grace period and the release of the pipes).")
LEVEL_NOTE = ("Trusted: /proc inspection, the spy around anyio.open_process (records pids of every spawn). Wall-clock bound "
              "uses 1.5 s slack; a breach is re-measured once in isolation and only a reproduced breach is a violation "
              "(a single one is inconclusive).")
RULE = ("case = (child behaviour, exit path, moment, timing). Non-trivial: all (each spawns a real child); distinct = "
        "hash(case)+hash(final child state, fd delta, pending outcome class).")
ASSUMPTIONS = ["Linux /proc; children are started in their own session (start_new_session=True) and are killed by the "
               "harness (killpg) after observation so that a leak cannot outlive the case"]

BOUND = 2.0 + 1.5
# What the exit path is built from: the two one-second grace periods (after SIGTERM, after SIGKILL) and the half second it
# waits for the writer to drain. An exit that takes longer than that plus a little scheduling slack - yet stays under BOUND -
# is measured again (twice): three slow exits in a row are no scheduling accident, the exit path has grown a further wait
DESIGNED = 2.0 + 0.5
NEAR = DESIGNED + 0.35


def gen_cases(ctx) -> List[Dict[str, Any]]:
    behaviours = ["well_behaved", "ignore_sigterm", "never_read", "flood", "flood_graceful", "flood_junk", "flood_noline", "close_stdout", "close_stdin",
                  "slow_start:0.4", "sigterm_slow:0.5", "sigterm_slow:1.4"]
    behaviours += [f"exit_at:{k}" for k in range(0, 6)]
    exits = ["normal", "exception", "cancel", "fail_after"]
    moments = ["before_first", "in_flight", "after_response"]
    cases = []
    for b in behaviours:
        for e in exits:
            for m in moments:
                if ctx.tier == "quick":
                    # quick: every (behaviour, exit) with a rotating moment, plus all moments for the hostile ones
                    hostile = b in ("ignore_sigterm", "well_behaved", "exit_at:2", "flood", "flood_graceful", "flood_junk", "flood_noline")
                    if not hostile and m != moments[(behaviours.index(b) + exits.index(e)) % 3]:
                        continue
                cases.append({"behaviour": b, "exit": e, "moment": m})
    if ctx.tier == "thorough":
        for b in ("ignore_sigterm", "well_behaved", "exit_at:3", "flood"):
            for e in ("cancel", "fail_after"):
                for ca in (0.05, 0.2, 1.0):
                    for ft in (0.0, 0.05, 0.5):
                        cases.append({"behaviour": b, "exit": e, "moment": "in_flight", "cancel_after": ca, "flight_time": ft})
    # a request far larger than the pipe buffers, written to a child that may never read it: the writer task is
    # blocked inside stdin.send() when the context is left
    big = ["never_read", "flood", "close_stdout"] if ctx.tier == "quick" else \
        ["never_read", "flood", "close_stdout", "ignore_sigterm", "well_behaved", "close_stdin", "sigterm_slow:0.5"]
    for b in big:
        for e in exits:
            for size in ([1 << 20] if ctx.tier == "quick" else [200_000, 1 << 20, 8 << 20]):
                cases.append({"behaviour": b, "exit": e, "moment": "in_flight", "payload_bytes": size})
    # the body ends normally (or by exception) and the enclosing deadline fires while the shutdown is in progress
    for b in (["ignore_sigterm", "sigterm_slow:0.5", "well_behaved"] if ctx.tier == "quick"
              else ["ignore_sigterm", "sigterm_slow:0.5", "sigterm_slow:1.4", "well_behaved", "never_read", "flood"]):
        for e in ("deadline_during_exit", "exception_deadline_during_exit", "native_deadline_during_exit"):
            for lead in ([0.3] if ctx.tier == "quick" else [0.05, 0.3, 0.8]):
                cases.append({"behaviour": b, "exit": e, "moment": "after_response", "cancel_after": 1.2, "lead": lead})
    # the same through the wrapper APIs (StdioTransport, connect_to_server/MCPClient)
    for api in ("transport", "connect_to_server"):
        for b in ("well_behaved", "ignore_sigterm", "sigterm_slow:0.5"):
            for e in exits + ["deadline_during_exit"]:
                cases.append({"behaviour": b, "exit": e, "moment": "in_flight" if e != "deadline_during_exit" else "after_response",
                              "api": api, "cancel_after": 1.2 if e == "deadline_during_exit" else 0.6})
    for b in ("unstartable", "not_executable"):
        for e in ("normal", "cancel"):
            cases.append({"behaviour": b, "exit": e, "moment": "before_first"})
    # a child that is talkative on stderr, under the server environments that change how the client wires stderr
    for envk, envv in ((None, None), ("LOG_LEVEL", "ERROR"), ("LOG_LEVEL", "critical"), ("LOGGING_LEVEL", "ERROR"),
                       ("LOG_LEVEL", "DEBUG")):
        for size in ((400_000,) if ctx.tier == "quick" else (70_000, 400_000, 2_000_000)):
            for e in (("normal", "cancel") if ctx.tier == "quick" else exits):
                c = {"behaviour": f"stderr_burst:{size}", "exit": e, "moment": "after_response"}
                if envk:
                    c["env"] = {envk: envv}
                cases.append(c)
    for b in ("well_behaved", "ignore_sigterm", "flood"):
        cases.append({"behaviour": b, "exit": "normal", "moment": "in_flight", "env": {"LOG_LEVEL": "ERROR"}})
    # cancellation / deadline landing while the context is still being entered (process just spawned)
    for b in ("well_behaved", "slow_start:0.4"):
        for e in ("cancel", "fail_after"):
            for ca in ((0.005, 0.02, 0.04, 0.07) if ctx.tier == "quick" else (0.002, 0.005, 0.01, 0.02, 0.03, 0.04, 0.05, 0.06, 0.07, 0.1)):
                cases.append({"behaviour": b, "exit": e, "moment": "before_first", "cancel_after": ca})
    # ... and inside the spawn itself (sub-millisecond to a few milliseconds after the entry began)
    for e in ("cancel", "fail_after"):
        for k in (range(0, 40, 3) if ctx.tier == "quick" else range(0, 60)):
            cases.append({"behaviour": "well_behaved", "exit": e, "moment": "before_first", "cancel_after": round(0.0001 * k, 5)})
    # the same StdioClient object entered again after earlier uses
    for b in (("well_behaved", "ignore_sigterm") if ctx.tier == "quick" else ("well_behaved", "ignore_sigterm", "never_read", "flood", "exit_at:2")):
        for e in exits:
            for uses in ((1, 2) if ctx.tier == "quick" else (1, 2, 4)):
                cases.append({"behaviour": b, "exit": e, "moment": "after_response", "prior_uses": uses})
    # a second, healthy client of the same process must neither be disturbed by the exit nor disturb the accounting
    for b in (("well_behaved", "ignore_sigterm", "exit_at:2", "flood") if ctx.tier == "quick"
              else ("well_behaved", "ignore_sigterm", "exit_at:2", "flood", "never_read", "close_stdout", "sigterm_slow:1.4")):
        for e in exits:
            cases.append({"behaviour": b, "exit": e, "moment": "in_flight", "companion": True})
    # a flood without any line break, in small writes: whether the exit path is starved depends on a race the child has to
    # win in every loop turn, so the case is repeated
    for size in (100, 4096):
        for e in ("normal", "cancel", "fail_after"):
            for attempt in range(6 if ctx.tier == "quick" else 30):
                cases.append({"behaviour": f"flood_noline:{size}", "exit": e, "moment": "before_first", "idle": 0.1, "attempt": attempt})
    # lines that are huge JSON arrays of non-messages: the walk through one line must not hold the exit up
    for n in ((1_000_000,) if ctx.tier == "quick" else (300_000, 1_000_000, 2_000_000)):
        for e in ("normal", "cancel", "fail_after"):
            cases.append({"behaviour": f"junk_batch:{n}", "exit": e, "moment": "before_first", "idle": 0.3})
    # a child that floods batch arrays and never reads its stdin, on a connection that has settled on a revision without
    # batching: the rejections the client writes pile up in a pipe nobody drains - leaving must not wait for them
    for e in exits:
        for idle in (0.5, 1.5):
            cases.append({"behaviour": "flood_batches", "exit": e, "moment": "before_first", "api": "client_object_versioned",
                          "version": "2025-06-18", "idle": idle})
    cases.append({"behaviour": "flood_batches", "exit": "normal", "moment": "before_first", "api": "client_object_versioned",
                  "version": "2025-03-26", "idle": 0.5})
    # a native cancellation that lands exactly when the child has just died (after the grace period, before the pipes are
    # released): children that die on SIGTERM while flooding, while idle, and a well-behaved one
    for b in ("flood", "flood_junk", "never_read", "well_behaved", "sigterm_slow:0.5"):
        for attempt in range(2):
            cases.append({"behaviour": b, "exit": "native_cancel_at_child_death", "moment": "before_first", "idle": 0.2, "attempt": attempt})
    # two requests pending on the per-request API under ids of different JSON types when the context is left
    for b in ("never_read", "ignore_sigterm"):
        for e in exits:
            cases.append({"behaviour": b, "exit": e, "moment": "before_first", "api": "client_object_pending_stream", "idle": 0.2,
                          "second_pending_id": 7})
    # a request made through the per-request API is still unanswered when the context is left (every exit path)
    for b in ("never_read", "ignore_sigterm", "well_behaved", "sigterm_slow:0.5"):
        for e in exits + ["deadline_during_exit"]:
            c = {"behaviour": b, "exit": e, "moment": "before_first", "api": "client_object_pending_stream", "idle": 0.2}
            if e == "deadline_during_exit":
                c["cancel_after"] = 1.2
            cases.append(c)
    # an idle application: the child has sent a finite backlog (progress of a request given up long ago, then one message
    # that carries an id) which nobody reads, and then the context is left
    for n in ((99, 100, 130) if ctx.tier == "quick" else (50, 99, 100, 101, 130, 400)):
        for kind in ("response", "request"):
            for e in exits + ["deadline_during_exit"]:
                c = {"behaviour": f"backlog:{n}:{kind}", "exit": e, "moment": "before_first", "idle": 0.4}
                if e == "deadline_during_exit":
                    c["cancel_after"] = 1.2
                cases.append(c)
    return cases


def run_worker(case: Dict[str, Any]) -> Dict[str, Any]:
    try:
        r = subprocess.run([PY, "-B", "-X", "dev", "-m", "vf.workers.c16_worker", json.dumps(case)], env=child_env(),
                           cwd=ROOT, capture_output=True, text=True, timeout=40, start_new_session=True)
    except subprocess.TimeoutExpired:
        return {"watchdog": True}
    for line in r.stdout.splitlines():
        if line.startswith("RESULT "):
            o = json.loads(line[7:])
            o["stderr_tail"] = r.stderr[-300:]
            return o
    return {"worker_failed": True, "stderr_tail": (r.stdout + r.stderr)[-600:]}


def judge(ctx, case: Dict[str, Any], o: Dict[str, Any], remeasure) -> None:
    if o.get("watchdog"):
        ctx.violation("shutdown_hung", "case did not finish within the 40 s watchdog (context exit or entry hung)", case)
        ctx.record(case, shape="watchdog")
        return
    if o.get("worker_failed"):
        ctx.inconclusive_because(f"worker failed for {case}: {o.get('stderr_tail')}")
        return
    ctx.count("children_spawned", len(o.get("pids", [])))
    ctx.count("cases")
    b = case["behaviour"]
    shape: List[Any] = []
    if b in ("unstartable", "not_executable"):
        if o.get("entered"):
            ctx.violation("entered_with_unstartable_command", f"context entered although the command cannot start: {o}", case)
        elif not str(o.get("body_outcome", "")).startswith("raised:"):
            ctx.violation("unstartable_no_exception", f"entering did not raise: {o.get('body_outcome')!r}", case)
        shape.append("raised" if not o.get("entered") else "entered")
    else:
        # a cancellation / deadline that lands while the context is still being entered legitimately prevents the entry
        # (and, if early enough, even the spawn): what matters then is only that nothing is left behind
        early_cancel = case["exit"] in ("cancel", "fail_after") and case.get("cancel_after", 1.0) < 0.15 and \
            str(o.get("body_outcome")) in ("cancelled", "timeout")
        if not o.get("entered") and not early_cancel:
            ctx.violation("entry_failed", f"context was not entered: {o.get('body_outcome')!r}", case)
        # children gone?
        for pid, st in (o.get("states") or {}).items():
            if st is not None:
                mech = "child_left_zombie" if st == "Z" else "child_left_running"
                if case["exit"] in ("cancel", "fail_after"):
                    mech += "_after_cancellation"
                elif "deadline_during_exit" in case["exit"]:
                    mech += "_when_cancelled_during_shutdown"
                ctx.violation(mech, f"child pid {pid} is in state {st!r} 0.3 s after the context was left "
                              f"(exit took {o.get('exit_duration')})", case, o)
            shape.append(st)
        for pid, st in (o.get("states_at_exit") or {}).items():
            if st is not None and (o.get("states") or {}).get(pid) is None:
                # gone 0.3 s later only because the event loop kept running and its child watcher reaped it
                ctx.violation("child_unreaped_when_context_left", f"child pid {pid} was in state {st!r} at the moment the "
                              f"context was left (only reaped later by the loop's child watcher)", case, o)
        for pid, st in o.get("unknown_children_at_exit") or []:
            # a child the client spawned although the spawn never "returned" (cancelled inside it)
            ctx.violation("child_unreaped_when_context_left", f"a child process (pid {pid}, state {st!r}) spawned during a cancelled "
                          f"entry exists at the moment the context is left; descriptors open then: {o.get('fd_new_at_exit')}", case, o)
        if not o.get("pids") and not early_cancel:
            ctx.violation("no_child_spawned", "no process was spawned", case)
    if case.get("prior_uses"):
        ctx.count("reused_client_sessions")
        for u, rec in enumerate(o.get("prior") or []):
            if rec.get("state_at_exit") not in (None, "no-child"):
                ctx.violation("child_left_running", f"use #{u + 1} of a re-used client object: its child was in state "
                              f"{rec.get('state_at_exit')!r} when that context was left", case, o)
    comp = o.get("companion")
    if case.get("companion"):
        ctx.count("companion_clients")
        if not comp or "pid" not in comp or not str(comp.get("before", "ERR")).startswith("{"):
            ctx.inconclusive_because(f"companion client could not be set up: {comp}")
        else:
            if comp.get("state_after") in (None, "Z") or str(comp.get("after", "ERR")).startswith("ERR"):
                ctx.violation("other_client_disturbed", f"a second, healthy stdio client of the same process was disturbed "
                              f"when this context was left: child state {comp.get('state_after')!r}, next request -> "
                              f"{comp.get('after')!r}", case, o)
            if comp.get("state_end") is not None:
                ctx.violation("child_left_running", f"the companion's own child was in state {comp.get('state_end')!r} "
                              f"after its context was left", case, o)
    # fds
    if o.get("fd_delta", 0) != 0:
        mech = "fd_leaked"
        if case["exit"] in ("cancel", "fail_after"):
            mech += "_after_cancellation"
        ctx.violation(mech, f"{o['fd_delta']} additional open file descriptors after exit: {o.get('fd_new')}", case, o)
    elif o.get("fd_new_at_exit") and o.get("entered"):
        ctx.violation("fd_open_when_context_left", f"descriptors still open at the moment the context was left (released only "
                      f"by a later turn of the event loop): {o.get('fd_new_at_exit')}", case, o)
    elif o.get("fd_delta_before_gc", 0) > 0:
        ctx.violation("fd_closed_only_by_garbage_collection", f"{o['fd_delta_before_gc']} additional descriptors were still "
                      f"open 0.3 s after the context was left and were only closed by a garbage collection: "
                      f"{o.get('fd_new_before_gc')}; warnings: {o.get('warnings', [])[:3]}", case, o)
    shape.append(o.get("fd_delta"))
    # bounded exit
    d = o.get("exit_duration")
    if d is not None and d > BOUND:
        o2 = remeasure(case)
        d2 = o2.get("exit_duration")
        if str(b).startswith("flood_no") and not (o2.get("watchdog") or (d2 is not None and d2 > BOUND)):
            # whether a flooding child starves the exit is a race it has to win loop turn after loop turn: one slow and
            # one fast exit settle nothing - measure a few more times, a second slow exit makes it a finding
            for _ in range(4):
                o3 = remeasure(case)
                d3 = o3.get("exit_duration")
                if o3.get("watchdog") or (d3 is not None and d3 > BOUND):
                    o2, d2 = o3, d3
                    break
        if o2.get("watchdog") or (d2 is not None and d2 > BOUND):
            ctx.violation("exit_unbounded", f"context exit took {d:.2f}s and {d2 if d2 is None else round(d2, 2)}s on "
                          f"re-measurement (bound {BOUND}s)", case, o)
        else:
            ctx.inconclusive_because(f"exit took {d:.2f}s once, {d2}s on re-measurement: {case}")
    elif d is not None and d > NEAR:
        ds = [d]
        for _ in range(2):
            o2 = remeasure(case)
            d2 = o2.get("exit_duration")
            ds.append(d2)
            if o2.get("watchdog") or d2 is None or d2 <= NEAR:
                break
        if len(ds) == 3 and all(x is not None and x > NEAR for x in ds):
            ctx.violation("exit_unbounded", f"context exit took {', '.join(f'{x:.2f}' for x in ds)} s on three measurements in a row: "
                          f"more than the two one-second grace periods and the writer's half second ({DESIGNED} s) plus slack", case, o)
        else:
            ctx.count("exit_near_bound_once")
    if d is not None:
        key = str(b).split(":")[0] + ":" + str(case.get("exit"))
        mx = ctx.extra.setdefault("longest_exit_seconds_by_child_and_path", {})
        mx[key] = round(max(mx.get(key, 0.0), d), 2)
    shape.append("slow" if (d or 0) > BOUND else "bounded")
    # pending request
    po = o.get("pending_outcome")
    if po:
        if po[0] == "return":
            child_answers = b in ("well_behaved", "ignore_sigterm", "slow_start:0.4", "sigterm_slow:0.5",
                                  "sigterm_slow:1.4") or (b.startswith("exit_at:") and int(b.split(":")[1]) >= 2)
            if not child_answers:
                ctx.violation("fabricated_result", f"pending request returned {po[1]} although the child never answers", case, o)
        elif po[0] == "still_pending":
            ctx.violation("pending_request_never_ended", "pending request neither returned nor raised", case, o)
        shape.append(po[0] if po[0] != "raise" else po[1])
    ctx.record(case, shape=shape, cls=f"{b.split(':')[0]}:{case['exit']}",
               sample={"case": case, "states": o.get("states"), "fd_delta": o.get("fd_delta"),
                       "exit_duration": d, "pending": po, "body": o.get("body_outcome")})


def pending_stream_tier(ctx):
    """A request made through the per-request API (new_request_stream + send_json) that is pending when the child dies /
    when the context is left must END (end of stream or an error) - not stay blocked for ever. Scripted child, virtual
    time: the child's death and the exit are placed exactly."""
    import asyncio
    import importlib
    import anyio
    from chuk_mcp.protocol.messages.json_rpc_message import create_request
    from chuk_mcp.transports.stdio.parameters import StdioParameters
    from vf.recorders import OpenProcessPatch, ScriptedProcess
    from vf.vloop import run_virtual, HangDetected
    SC = importlib.import_module("chuk_mcp.transports.stdio.stdio_client")

    for death in ("child_exits_3", "stdout_eof_only", "none"):
        for exit_path in ("normal", "exception"):
            for drained in (True, False):
                case = {"pending_request_stream": True, "child": death, "exit": exit_path, "main_stream_drained": drained}

                async def main():
                    out: Dict[str, Any] = {}
                    with OpenProcessPatch(lambda command, **kw: ScriptedProcess([], hold_open=True)) as patch:
                        client = SC.StdioClient(StdioParameters(command="scripted"))
                        recv = None
                        try:
                            async with client:
                                proc = patch.spawned[-1]
                                read, _w = client.get_streams()

                                async def drain():
                                    try:
                                        async for _ in read:
                                            pass
                                    except Exception:  # noqa
                                        pass
                                dt = asyncio.create_task(drain()) if drained else None
                                recv = client.new_request_stream("r1")
                                await client.send_json(create_request("tools/call", {"name": "slow"}, id="r1"))
                                await asyncio.sleep(0.1)
                                if death == "child_exits_3":
                                    proc.returncode = 3
                                    proc.finish_stdout()
                                elif death == "stdout_eof_only":
                                    proc.finish_stdout()
                                await asyncio.sleep(0.5)
                                if dt is not None:
                                    dt.cancel()
                                if exit_path == "exception":
                                    raise RuntimeError("body failed")
                        except RuntimeError:
                            pass
                        loop = asyncio.get_running_loop()
                        t0 = loop.time()
                        try:
                            with anyio.fail_after(5.0):
                                out["got"] = ("value", await recv.receive())
                        except TimeoutError:
                            out["got"] = ("still_blocked", None)
                        except BaseException as e:  # noqa
                            if isinstance(e, (KeyboardInterrupt, SystemExit)):
                                raise
                            out["got"] = ("ended", type(e).__name__)
                        out["waited"] = loop.time() - t0
                    return out
                try:
                    out, _ = run_virtual(main, max_iterations=300_000)
                except HangDetected as e:
                    ctx.violation("shutdown_hung", f"pending per-request stream: {e}", case)
                    continue
                ctx.count("cases")
                ctx.count("pending_request_streams")
                kind, val = out["got"]
                if kind == "still_blocked":
                    ctx.violation("pending_request_never_ended", f"a request pending on new_request_stream() when the context was left "
                                  f"(child: {death}): receive() is still blocked 5 s after the exit - no result, no error, no end of "
                                  f"stream", case)
                elif kind == "value":
                    ctx.violation("fabricated_result", f"pending per-request stream delivered {val!r} although the child never answered", case)
                ctx.record(case, shape=[kind, val if kind == "ended" else None], nontrivial=True, cls="pending_request_stream",
                           sample={"case": case, "outcome": [kind, str(val)[:60]]})


def run(ctx):
    if ctx.shard[0] == 0:
        pending_stream_tier(ctx)
    cases = gen_cases(ctx)
    workers = min(12, (os.cpu_count() or 4))
    with cf.ThreadPoolExecutor(workers) as ex:
        futs = {}
        for c in cases:
            if ctx.out_of_time("spawning cases"):
                break
            futs[ex.submit(run_worker, c)] = c
        for f in cf.as_completed(futs):
            judge(ctx, futs[f], f.result(), run_worker)
    ctx.require_reached("children_spawned")


def replay(ctx, case):
    if case.get("pending_request_stream"):
        pending_stream_tier(ctx)
        return
    judge(ctx, case, run_worker(case), run_worker)
    ctx.record({"x": 1}, shape=1)
