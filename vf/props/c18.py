"""C18 - concurrent requests on one connection: no cross-talk, no lost responses.

Events: per caller outcome under the virtual clock; per message which caller's
receive() consumed it (the recording proxy tags the consuming task).
Oracle: (a) every returned payload carries the caller's own tag; (b) every caller
whose response was sent before its deadline returns it.
"""
from __future__ import annotations

import asyncio
import itertools
from typing import Any, Dict, List

from vf.recorders import Pipe
from vf.ref import strict_eq
from vf.vloop import run_virtual, vsleep_until, HangDetected

ID = "C18"
LEVEL = "exploration"
BACKENDS = ["pydantic", "fallback"]   # every case is executed under both validation backends
LOGLEVELS = ["default", "debug"]   # every case also runs with the root logger at DEBUG (as --verbose does)
SHARDS = {"quick": 4, "thorough": 16}
BUDGET_S = {"quick": 90.0, "thorough": 600.0}
TECHNIQUE = ("runtime monitoring: per-task receive attribution at the shared stream boundary + "
             "exactly-once/no-cross-talk oracle over virtual-time answer schedules")
LEVEL_TEXT = ("2-4 real send_message callers share one (read, write) pair on a virtual-time loop; all "
              "answer permutations x notification interleavings x answer times around poll boundaries "
              "are executed and each message is attributed to the task whose receive() consumed it. "
              "Held/known-finding = on the schedules explored."
              " Also a second connection whose callers use the same ids, and the per-request routing API of the stdio client on one and two connections."
              ' Also callers whose explicit ids imitate the library-chosen ones, calls with the optional arguments, and an application re-seeding random before every call.'
              " Also unread messages queued before the callers start, and a burst ahead of a single caller's answer over stdio."
              ' Also server requests that reuse an outstanding id on the per-request API, several sequential requests under one id, and series of 101-135 requests under fresh ids. Every case also runs under the dependency-free validation backend.'
              ' Also concurrent callers of the same param-less method whose requests the peer reads only after all were written.'
              ' Also per-request streams registered up front or in the same loop turn.'
              ' Also, on the per-request API, answers whose payload is false in Python ({} for a ping, [], 0, "", false) and callers whose ids are an integer and the string spelling it.'
              " Also unrelated notifications that mention callers' ids (the peer's notifications/cancelled, a progress token equal to an id) in both tiers."
              ' Also per-request callers that wait in 4 ms slices until their deadline.'
              " Also a caller outstanding for 65 s when others register (the process's monotonic clock tied to the loop's virtual time).")
LEVEL_NOTE = ("Trusted: virtual-time loop, anyio memory streams' FIFO waiter order, the oracle. The loss of "
              "out-of-order answers (consumed and discarded by another waiter) is a recorded known finding; "
              "every other loss mechanism and any cross-talk is a violation.")
RULE = ("callers in 2..4, every permutation of the answer order, answer-time patterns (same instant, "
        "spread across poll boundaries, just before the deadline), 0-2 notifications interleaved at "
        "every position (quick: seeded subset), ids auto/explicit. Non-trivial = at least 2 callers "
        "answered; distinct = hash(case)+hash(per-caller outcome and consumer attribution).")
ASSUMPTIONS = [
    "all callers issue their request before the first answer is sent (requests outstanding concurrently)",
    "answers are sent strictly before each caller's deadline (margin >= 10 ms virtual)",
]
TIMEOUT = 2.0


def gen_cases(ctx):
    rng = ctx.sub_rng("c18")
    patterns = {
        "same_instant": lambda i, n: 0.1,
        "spread": lambda i, n: 0.1 + 0.3 * i,
        "across_polls": lambda i, n: 0.45 + 0.1 * i,
        "on_boundary": lambda i, n: 0.5 * (i + 1) if 0.5 * (i + 1) < TIMEOUT - 0.05 else TIMEOUT - 0.05,
        "late": lambda i, n: TIMEOUT - 0.05 + 0.01 * i,
    }
    for n in (2, 3, 4):
        for perm in itertools.permutations(range(n)):
            for pname, pf in patterns.items():
                times = [round(pf(i, n), 4) for i in range(n)]
                for ids in ("auto", "explicit", "type_twins"):
                    base = {"n": n, "ids": ids, "pattern": pname,
                            "answers": [[times[k], "answer", perm[k]] for k in range(n)]}
                    yield base
                    if pname in ("spread", "across_polls", "on_boundary") and ids == "auto":
                        # callers that also pass the optional arguments (other branches of the wait loop)
                        yield dict(base, opts=["progress_cb"])
                        yield dict(base, opts=["progress_cb", "cancel_token"], opts_for="odd")
                    if pname in ("spread", "across_polls") and ids == "auto" and list(perm) == sorted(perm):
                        # unread messages are already sitting in the read buffer when the callers issue their requests
                        # (answers in caller order: the one order that is free of the known demultiplexing finding)
                        for k in (1, 2, 5):
                            yield dict(base, preload=k)
                            yield dict(base, preload=k, start_gap=0.05)
                    if pname in ("spread", "same_instant") and ids == "auto":
                        # the application resets the random module just before every call
                        yield dict(base, reseed=True)
                    if pname in ("spread", "same_instant") and ids == "auto":
                        # some callers choose ids that look like the ones the library chooses for the others
                        yield dict(base, ids="lookalike")
                    if pname in ("spread", "across_polls") and ids != "auto":
                        # a second, unrelated connection in the same process whose callers use the very same ids
                        yield dict(base, twin_connection=True)
                    if pname == "on_boundary" and ids == "auto":
                        # an answer sent at the very instant a poll slice ends: asyncio gives no order between the two
                        # timers, so explore both (seeded permutation of equal-deadline timers)
                        for tie in (1, 2, 3, 4):
                            yield dict(base, tie=tie)
                            yield dict(base, tie=tie, inject="timer")
                    # notification interleavings
                    positions = list(range(n + 1))
                    combos = [(p,) for p in positions] + [(p, q) for p in positions for q in positions if p <= q]
                    if ctx.tier == "quick":
                        combos = rng.sample(combos, min(3, len(combos)))
                    for combo in combos:
                        ans = list(base["answers"])
                        for off, p in enumerate(sorted(combo, reverse=True)):
                            t = ans[p][0] if p < len(ans) else ans[-1][0]
                            ans.insert(p, [t, "notify", None])
                        yield {**base, "answers": ans}
    # error answers mixed in
    for n in (2, 3):
        for perm in itertools.permutations(range(n)):
            yield {"n": n, "ids": "auto", "pattern": "errors",
                   "answers": [[0.1 + 0.2 * k, "error" if k % 2 == 0 else "answer", perm[k]] for k in range(n)]}
    # staggered starts (second caller starts later)
    for perm in itertools.permutations(range(2)):
        for gap in (0.2, 0.5, 0.7):
            yield {"n": 2, "ids": "auto", "pattern": "staggered", "start_gap": gap,
                   "answers": [[gap + 0.1 + 0.1 * k, "answer", perm[k]] for k in range(2)]}


def exec_case(ctx, case: Dict[str, Any]) -> None:
    from chuk_mcp.protocol.messages.send_message import send_message
    from chuk_mcp.protocol.messages.json_rpc_message import parse_message

    n = case["n"]

    async def main():
        pipe = Pipe()
        loop = asyncio.get_running_loop()
        outcomes: Dict[int, Any] = {}
        rid_of: Dict[int, Any] = {}
        sent_at: Dict[int, float] = {}

        lookalike: Dict[int, Any] = {}
        if case["ids"] == "lookalike":
            # observe what a library-chosen id looks like on a scratch connection, then let the even callers pick
            # "the next ones" explicitly (with uuid-style ids this is just another uuid)
            probe = Pipe()

            async def probe_server():
                r = await probe.srv_recv.receive()
                probe.srv_send.send_nowait(parse_message({"jsonrpc": "2.0", "id": r.id, "result": {}}))
                return r.id
            pt = asyncio.create_task(probe_server(), name="probe-server")
            await send_message(probe.read, probe.write, "ping", None, timeout=TIMEOUT)
            seen = await pt
            probe.close()
            for i in range(n):
                if i % 2 == 0:
                    if isinstance(seen, int) or (isinstance(seen, str) and seen.lstrip("-").isdigit()):
                        nxt = int(seen) + 1 + (i // 2) + (i + 1) // 2   # the value the next auto id would take
                        lookalike[i] = str(nxt) if isinstance(seen, str) else nxt
                    else:
                        import uuid
                        lookalike[i] = str(uuid.uuid4())

        async def caller(i: int):
            if i > 0 and case.get("start_gap"):
                await asyncio.sleep(case["start_gap"] * i)
            t0 = loop.time()
            if case.get("reseed"):
                import random as _random
                _random.seed(20240607)
            kw: Dict[str, Any] = {}
            if case.get("opts") and (case.get("opts_for") != "odd" or i % 2):
                if "progress_cb" in case["opts"]:
                    async def _cb(progress, total, message):
                        return None
                    kw["progress_callback"] = _cb
                if "cancel_token" in case["opts"]:
                    from chuk_mcp.protocol.messages.send_message import CancellationToken
                    kw["cancellation_token"] = CancellationToken()
            try:
                res = await send_message(pipe.read, pipe.write, "tools/call", {"tag": f"caller-{i}"},
                                         timeout=TIMEOUT, **kw,
                                         message_id=(lookalike.get(i) if case["ids"] == "lookalike" else
                                                     f"id-{i}" if case["ids"] == "explicit" else
                                                     # ids that differ only in their JSON type: 1, "1", 2, "2"
                                                     ((i // 2 + 1) if i % 2 == 0 else str(i // 2 + 1))
                                                     if case["ids"] == "type_twins" else None))
                outcomes[i] = ("return", res, loop.time() - t0, t0)
            except BaseException as e:  # noqa
                if isinstance(e, (KeyboardInterrupt, SystemExit)):
                    raise
                outcomes[i] = ("raise", e, loop.time() - t0, t0)

        async def server():
            for _ in range(n):
                req = await pipe.srv_recv.receive()
                i = int(req.params["tag"].split("-")[1])
                rid_of[i] = req.id
            timer = case.get("inject") == "timer"
            groups: Dict[float, List[Any]] = {}
            nk = [0]

            def put(obj, who=None, t=None):
                if who is not None:
                    sent_at[who] = loop.time() if t is None else t
                if timer and t is not None:
                    groups.setdefault(t, []).append(obj)   # same-instant answers keep their scripted order
                else:
                    pipe.srv_send.send_nowait(obj)

            for t, kind, who in case["answers"]:
                if not timer:
                    await vsleep_until(t)
                if kind == "notify":
                    # unrelated notifications - some of them *mention* a caller's id (ids are per direction: the peer's
                    # notifications/cancelled speaks of the peer's own request, a progress token may equal an id)
                    nk[0] += 1
                    named = rid_of[nk[0] % n]
                    put(parse_message([{"jsonrpc": "2.0", "method": "notifications/message", "params": {"level": "info"}},
                                       {"jsonrpc": "2.0", "method": "notifications/cancelled", "params": {"requestId": named, "reason": "peer's own"}},
                                       {"jsonrpc": "2.0", "method": "notifications/progress", "params": {"progressToken": named, "progress": 1}}
                                       ][nk[0] % 3]), t=t)
                elif kind == "error":
                    put(parse_message({"jsonrpc": "2.0", "id": rid_of[who],
                                       "error": {"code": -32603, "message": f"for-caller-{who}"}}), who, t)
                else:
                    put(parse_message({"jsonrpc": "2.0", "id": rid_of[who], "result": {"tag": f"caller-{who}"}}), who, t)
            for gt, objs in groups.items():
                loop.call_at(max(gt, loop.time()), lambda objs=objs: [pipe.srv_send.send_nowait(o) for o in objs])
            if timer:
                await vsleep_until(max([a[0] for a in case["answers"]] + [0]) + 0.001)

        twin_out: Dict[int, Any] = {}
        twin_tasks = []
        if case.get("twin_connection"):
            pipe2 = Pipe()

            async def twin_caller(i: int):
                try:
                    twin_out[i] = ("return", await send_message(
                        pipe2.read, pipe2.write, "tools/call", {"tag": f"twin-{i}"}, timeout=TIMEOUT,
                        message_id=(f"id-{i}" if case["ids"] == "explicit" else
                                    ((i // 2 + 1) if i % 2 == 0 else str(i // 2 + 1)))))
                except BaseException as e:  # noqa
                    if isinstance(e, (KeyboardInterrupt, SystemExit)):
                        raise
                    twin_out[i] = ("raise", e)

            async def twin_server():
                reqs = [await pipe2.srv_recv.receive() for _ in range(n)]
                for k, req in enumerate(reversed(reqs)):
                    await vsleep_until(0.05 + 0.33 * k)
                    pipe2.srv_send.send_nowait(parse_message({"jsonrpc": "2.0", "id": req.id, "result": {"tag": req.params["tag"]}}))
            twin_tasks = [asyncio.create_task(twin_caller(i), name=f"twin-{i}") for i in range(n)]
            twin_tasks.append(asyncio.create_task(twin_server(), name="twin-server"))
        for k in range(case.get("preload", 0)):
            pipe.srv_send.send_nowait(parse_message({"jsonrpc": "2.0", "method": "notifications/message",
                                                     "params": {"level": "info", "data": f"queued-{k}"}}))
        tasks = [asyncio.create_task(caller(i), name=f"caller-{i}") for i in range(n)]
        st = asyncio.create_task(server(), name="server")
        await asyncio.gather(*tasks, *twin_tasks)
        outcomes["twin"] = twin_out
        st.cancel()
        try:
            await st
        except BaseException:
            pass
        tr = pipe.trace
        pipe.close()
        return outcomes, rid_of, sent_at, tr

    try:
        (outcomes, rid_of, sent_at, trace), loop = run_virtual(main, tie_seed=case.get("tie"))
    except HangDetected as e:
        ctx.violation("hang", f"hang: {e}", case)
        ctx.record(case, shape="hang")
        return

    twin_out = outcomes.pop("twin", {})
    for i, (okind, oval) in twin_out.items():
        ctx.count("twin_connection_calls")
        if okind != "return":
            ctx.count("twin_connection_calls_not_completed")   # the one-connection behaviour is judged on the first pipe
        elif not (isinstance(oval, dict) and oval.get("tag") == f"twin-{i}"):
            ctx.violation("cross_talk_between_connections", f"caller {i} on the second connection (same ids as the "
                          f"first) ended with {oval!r}", case)
    recvs = [e for e in trace.events if e["op"] == "receive" and e.get("done")]
    ctx.count("receive_events", len(recvs))
    consumer: Dict[Any, List[str]] = {}
    for e in recvs:
        mid = e["item"].get("id")
        if mid is not None:
            consumer.setdefault(mid, []).append(e["task"])
    kind_of = {who: kind for _, kind, who in case["answers"] if who is not None}
    shape = []
    for i in range(n):
        okind, oval, dur, t0 = outcomes[i]
        own = f"caller-{i}"
        # (a) cross-talk
        if okind == "return":
            tag = oval.get("tag") if isinstance(oval, dict) else None
            if tag != own:
                ctx.violation("cross_talk", f"caller {i} was handed {oval!r}", case)
        elif hasattr(oval, "code"):
            if own.replace("caller-", "for-caller-") not in str(oval):
                ctx.violation("cross_talk", f"caller {i} was handed error {oval!r}", case)
        # (b) lost responses
        if i in sent_at and sent_at[i] < t0 + TIMEOUT - 0.005:
            got_it = (okind == "return" and kind_of[i] == "answer") or \
                     (okind == "raise" and hasattr(oval, "code") and kind_of[i] == "error")
            if not got_it:
                who_consumed = consumer.get(rid_of[i], [])
                if who_consumed and all(w != f"caller-{i}" for w in who_consumed):
                    ctx.violation("response_consumed_by_other_waiter",
                                  f"caller {i}'s response (sent t={sent_at[i]}) was received by "
                                  f"{who_consumed} and discarded; caller ended with {oval!r}", case,
                                  {"consumers": who_consumed})
                elif not who_consumed:
                    ctx.violation("response_never_consumed",
                                  f"caller {i}'s response was never received by anyone; ended {oval!r}", case)
                else:
                    ctx.violation("response_consumed_by_owner_but_not_returned",
                                  f"caller {i} received its own response but ended with {oval!r}", case)
        if dur > TIMEOUT + 0.001:
            ctx.violation("deadline_overrun", f"caller {i} ended after {dur}s", case)
        shape.append(("ret" if okind == "return" else type(oval).__name__)
                     + ":" + ",".join(consumer.get(rid_of.get(i), [])))
    ctx.record(case, shape=shape, nontrivial=True, cls=f"n{n}:{case['pattern']}",
               sample={"case": case, "per_caller": shape})


def exec_stdio_case(ctx, case: Dict[str, Any]) -> None:
    """The same question through the real stdio transport: n callers on one stdio connection, the child answers
    in caller order - line by line, as one batch array, or as a batch that also holds junk elements."""
    import importlib
    import json
    from chuk_mcp.protocol.messages.send_message import send_message
    from chuk_mcp.transports.stdio.parameters import StdioParameters
    from vf.recorders import OpenProcessPatch, ScriptedProcess
    SC = importlib.import_module("chuk_mcp.transports.stdio.stdio_client")
    n, form = case["n"], case["form"]

    def factory(command, **kw):
        p = ScriptedProcess([], hold_open=True)
        orig = p.stdin.send
        st = {"buf": b"", "reqs": []}

        async def send(data):
            await orig(data)
            st["buf"] += data
            while b"\n" in st["buf"]:
                line, st["buf"] = st["buf"].split(b"\n", 1)
                try:
                    req = json.loads(line)
                except Exception:
                    continue
                if "id" in req and "method" in req:
                    st["reqs"].append(req)
            if len(st["reqs"]) == n:
                reqs, st["reqs"] = st["reqs"], []
                answers = [{"jsonrpc": "2.0", "id": r["id"], "result": {"tag": r["params"]["tag"]}} for r in reqs]
                junk = [{"jsonrpc": "2.0", "id": None, "error": {"code": -32600, "message": "Invalid Request"}},
                        {"foo": 1}, 42]
                if form == "lines_after_burst":
                    # one write: more unrelated messages than the read stream buffers, then the answers
                    noise = "".join(json.dumps({"jsonrpc": "2.0", "method": "notifications/message",
                                                "params": {"level": "info", "data": k}}) + "\n" for k in range(150))
                    payload = noise + "".join(json.dumps(a) + "\n" for a in answers)
                elif form == "lines":
                    payload = "".join(json.dumps(a) + "\n" for a in answers)
                elif form == "batch":
                    payload = json.dumps(answers) + "\n"
                elif form == "batch_junk_first":
                    payload = json.dumps(junk[:1] + answers) + "\n"
                elif form == "batch_junk_between":
                    payload = json.dumps([answers[0], junk[1]] + answers[1:] + [junk[2]]) + "\n"
                else:
                    payload = json.dumps(junk + answers) + "\n"
                p.feed(payload.encode())
        p.stdin.send = send
        return p

    async def main():
        outcomes: Dict[int, Any] = {}
        with OpenProcessPatch(factory):
            async with SC.stdio_client(StdioParameters(command="scripted")) as (read, write):
                async def caller(i):
                    try:
                        res = await send_message(read, write, "tools/call", {"tag": f"caller-{i}"}, timeout=TIMEOUT)
                        outcomes[i] = ("return", res)
                    except BaseException as e:  # noqa
                        if isinstance(e, (KeyboardInterrupt, SystemExit)):
                            raise
                        outcomes[i] = ("raise", e)
                tasks = []
                for i in range(n):
                    tasks.append(asyncio.create_task(caller(i), name=f"caller-{i}"))
                    await asyncio.sleep(0.01)
                await asyncio.gather(*tasks)
        return outcomes

    try:
        outcomes, _ = run_virtual(main, max_iterations=500_000)
    except HangDetected as e:
        ctx.violation("hang", f"stdio: {e}", case)
        ctx.record(case, shape="hang")
        return
    ctx.count("stdio_sessions")
    shape = []
    for i in range(n):
        kind, val = outcomes.get(i, ("none", None))
        if kind == "return":
            if not (isinstance(val, dict) and val.get("tag") == f"caller-{i}"):
                ctx.violation("cross_talk", f"stdio/{form}: caller {i} was handed {val!r}", case)
        else:
            ctx.violation("response_lost_in_transport", f"stdio/{form}: caller {i}'s answer was sent in caller order and in "
                          f"time, yet the call ended with {val!r}", case)
        shape.append(kind)
    ctx.record(case, shape=shape, cls=f"stdio:{form}", sample={"case": case, "outcomes": shape})


def exec_stdio_routed_case(ctx, case: Dict[str, Any]) -> None:
    """The per-request routing API of the stdio client (new_request_stream + send_json): n callers per connection,
    one or two connections alive in the process using the very same ids, children answering in a permuted order."""
    import importlib
    import json
    import anyio
    from chuk_mcp.protocol.messages.json_rpc_message import create_request
    from chuk_mcp.transports.stdio.parameters import StdioParameters
    from vf.recorders import OpenProcessPatch, ScriptedProcess
    SC = importlib.import_module("chuk_mcp.transports.stdio.stdio_client")
    n, perm, conns = case["n"], case["perm"], case["connections"]
    rounds = case.get("rounds", 1)

    def factory(command, **kw):
        p = ScriptedProcess([], hold_open=True)
        orig = p.stdin.send
        st = {"buf": b"", "reqs": []}

        async def send(data):
            await orig(data)
            st["buf"] += data
            while b"\n" in st["buf"]:
                line, st["buf"] = st["buf"].split(b"\n", 1)
                try:
                    req = json.loads(line)
                except Exception:
                    continue
                if "id" in req and "method" in req:
                    st["reqs"].append(req)
            if rounds > 1:
                # workers issuing request after request under one id each: answer every request as it comes
                reqs, st["reqs"] = st["reqs"], []
                for r in reqs:
                    p.feed((json.dumps({"jsonrpc": "2.0", "id": r["id"], "result": {"tag": r["params"]["tag"]}}) + "\n").encode())
            elif len(st["reqs"]) == n:
                reqs, st["reqs"] = st["reqs"], []
                for k in perm:
                    r = reqs[k]
                    own_req = b""
                    if case.get("srv_req_same_id"):
                        # before answering, the server makes a request of its own that happens to use the same id
                        own_req = (json.dumps({"jsonrpc": "2.0", "id": r["id"], "method": "ping"}) + "\n").encode()
                    result: Any = {"tag": r["params"]["tag"]}
                    if "payload" in case and r["params"]["tag"].endswith("caller-0"):
                        # what a ping is answered with ({}), or any other payload that is false in Python: still the answer
                        result = case["payload"]
                    note = [{"jsonrpc": "2.0", "method": "notifications/message", "params": {"level": "info"}},
                            {"jsonrpc": "2.0", "method": "notifications/cancelled", "params": {"requestId": r["id"], "reason": "peer's own"}},
                            {"jsonrpc": "2.0", "method": "notifications/progress", "params": {"progressToken": r["id"], "progress": 1}}][k % 3]
                    p.feed(own_req + (json.dumps(note) + "\n"
                                      + json.dumps({"jsonrpc": "2.0", "id": r["id"], "result": result}) + "\n").encode())
        p.stdin.send = send
        return p

    async def main():
        outcomes: Dict[str, Any] = {}

        async def drain(stream):
            try:
                async for _ in stream:
                    pass
            except Exception:
                pass

        def id_of(i):
            if case["ids"] == "type_twins":
                # callers 0/1 share the digits 1, callers 2/3 the digits 2: an integer id and the string spelling it
                return (i // 2 + 1) if i % 2 == 0 else str(i // 2 + 1)
            return str(i + 1) if case["ids"] == "str" else i + 1

        def key_of(rid):
            # what the stream is registered under: the id itself when ids of both types are in use, its text otherwise
            return rid if case["ids"] == "type_twins" else str(rid)

        async def caller(name, client, i):
            rid: Any = id_of(i)
            if case.get("long_wait"):
                # caller 0 has been waiting for more than a minute (its own deadline is two minutes) when the others start;
                # the server answers all of them once it has all the requests
                if i > 0:
                    await asyncio.sleep(65.0 + i)
                recv = client.new_request_stream(key_of(rid))
                await client.send_json(create_request("tools/call", {"tag": f"{name}-caller-{i}"}, id=rid))
                key = f"{name}-{i}"
                with anyio.move_on_after(120.0) as scope:
                    try:
                        outcomes[key] = ("got", await recv.receive())
                    except BaseException as e:  # noqa
                        if isinstance(e, (KeyboardInterrupt, SystemExit, asyncio.CancelledError)):
                            raise
                        outcomes[key] = ("raise", e)
                if scope.cancelled_caught:
                    outcomes[key] = ("nothing", None)
                return
            for rnd in range(rounds):
                if case.get("fresh_ids"):
                    rid = f"{i + 1}.{rnd}"
                key = f"{name}-{i}" if rounds == 1 else f"{name}-{i}r{rnd}"
                tag = f"{name}-caller-{i}" if rounds == 1 else f"{name}-caller-{i}r{rnd}"
                # (in later rounds this registration follows the previous receive() without any checkpoint in between)
                recv = client.new_request_stream(key_of(rid))
                await client.send_json(create_request("tools/call", {"tag": tag}, id=rid))
                if case.get("wait") == "slices":
                    # the caller waits the way send_message does: in short slices until its deadline (each slice that
                    # ends without a message is a cancelled receive())
                    t_end = asyncio.get_running_loop().time() + TIMEOUT
                    outcomes[key] = ("nothing", None)
                    while asyncio.get_running_loop().time() < t_end:
                        with anyio.move_on_after(0.004):
                            try:
                                outcomes[key] = ("got", await recv.receive())
                            except BaseException as e:  # noqa
                                if isinstance(e, (KeyboardInterrupt, SystemExit, asyncio.CancelledError)):
                                    raise
                                outcomes[key] = ("raise", e)
                        if outcomes[key][0] != "nothing":
                            break
                    if outcomes[key][0] == "nothing":
                        break
                    continue
                with anyio.move_on_after(TIMEOUT) as scope:
                    try:
                        outcomes[key] = ("got", await recv.receive())
                    except BaseException as e:  # noqa
                        if isinstance(e, (KeyboardInterrupt, SystemExit, asyncio.CancelledError)):
                            raise
                        outcomes[key] = ("raise", e)
                if scope.cancelled_caught:
                    outcomes[key] = ("nothing", None)
                    break

        async def caller_preregistered(name, client, i, recv, rid):
            # the stream was registered before any request went out: send, then wait
            await client.send_json(create_request("tools/call", {"tag": f"{name}-caller-{i}"}, id=rid))
            with anyio.move_on_after(TIMEOUT) as scope:
                try:
                    outcomes[f"{name}-{i}"] = ("got", await recv.receive())
                except BaseException as e:  # noqa
                    if isinstance(e, (KeyboardInterrupt, SystemExit, asyncio.CancelledError)):
                        raise
                    outcomes[f"{name}-{i}"] = ("raise", e)
            if scope.cancelled_caught:
                outcomes[f"{name}-{i}"] = ("nothing", None)

        async def connection(name, started, go):
            async with SC.StdioClient(StdioParameters(command=f"scripted-{name}")) as client:
                # (an application that uses the per-request API only does not read the general stream)
                d = asyncio.create_task(drain(client.get_streams()[0]) if not case.get("main_unread") else asyncio.sleep(0),
                                        name=f"vf-drain-{name}")
                started.set()
                await go.wait()
                tasks = []
                if case.get("registration") == "up_front":
                    # every caller's stream is registered first, then the requests go out together
                    regs = []
                    for i in range(n):
                        rid: Any = id_of(i)
                        regs.append((i, client.new_request_stream(key_of(rid)), rid))
                    for i, recv, rid in regs:
                        tasks.append(asyncio.create_task(caller_preregistered(name, client, i, recv, rid), name=f"{name}-caller-{i}"))
                else:
                    for i in range(n):
                        tasks.append(asyncio.create_task(caller(name, client, i), name=f"{name}-caller-{i}"))
                        if case.get("registration") != "together":
                            await asyncio.sleep(0.01)       # ("together": all callers start in the same loop turn)
                await asyncio.gather(*tasks)
                d.cancel()

        import time as _time
        _orig_mono = _time.monotonic
        if case.get("long_wait"):
            # whatever the library measures with the process's monotonic clock follows the (virtual) time of the loop
            _loop = asyncio.get_running_loop()
            _base = _orig_mono()
            _time.monotonic = lambda: _base + _loop.time()
        try:
            with OpenProcessPatch(factory):
                go = asyncio.Event()
                conn_tasks = []
                for c in range(conns):
                    started = asyncio.Event()
                    conn_tasks.append(asyncio.create_task(connection("AB"[c], started, go), name=f"conn-{c}"))
                    await started.wait()
                go.set()
                await asyncio.gather(*conn_tasks)
        finally:
            _time.monotonic = _orig_mono
        return outcomes

    try:
        outcomes, _ = run_virtual(main, max_iterations=500_000)
    except HangDetected as e:
        ctx.violation("hang", f"stdio routed: {e}", case)
        ctx.record(case, shape="hang")
        return
    ctx.count("stdio_sessions")
    ctx.count("routed_calls", len(outcomes))
    shape = []
    for key in sorted(outcomes):
        kind, val = outcomes[key]
        name, i = key.split("-")
        own = f"{name}-caller-{i}"   # (i carries the round suffix when there are several rounds)
        if kind == "got":
            res = getattr(val, "result", None)
            if "payload" in case and own.endswith("caller-0"):
                want_id = (str(1) if case["ids"] == "str" else 1)
                if not (strict_eq(res, case["payload"]) and strict_eq(getattr(val, "id", None), want_id)
                        and getattr(val, "error", None) is None):
                    ctx.violation("cross_talk", f"per-request routing: {own} (id {want_id!r}, answered {case['payload']!r}) was handed "
                                  f"id={getattr(val, 'id', None)!r} result={res!r}", case)
            elif not (isinstance(res, dict) and res.get("tag") == own):
                ctx.violation("cross_talk", f"per-request routing, {conns} connection(s): {own} was handed {res!r}", case)
        else:
            ctx.violation("response_lost_in_transport", f"per-request routing, {conns} connection(s): {own}'s answer was sent "
                          f"in time, yet its request stream gave {kind} {val!r}", case)
        shape.append(kind)
    ctx.record(case, shape=shape, nontrivial=True, cls=f"stdio:routed:{conns}", sample={"case": case, "outcomes": shape})


def exec_paramless_case(ctx, case: Dict[str, Any]) -> None:
    """n callers outstanding together on one connection, all asking the same param-less method (ping, tools/list): the
    peer takes the requests off the write stream only after all of them have been written - as every transport's writer
    task may - and answers them in the order written."""
    from chuk_mcp.protocol.messages.send_message import send_message
    from chuk_mcp.protocol.messages.json_rpc_message import parse_message
    from vf.ref import msg_to_wire
    n, method, ids = case["n"], case["method"], case["ids"]

    async def main():
        pipe = Pipe(buffer=1000)
        loop = asyncio.get_running_loop()
        outcomes: Dict[int, Any] = {}
        seen: List[Any] = []

        async def caller(i: int):
            mid = f"p-{i}" if ids == "explicit" else None
            try:
                if case.get("helper") == "ping":
                    from chuk_mcp.protocol.messages.ping.send_messages import send_ping
                    outcomes[i] = ("return", await send_ping(pipe.read, pipe.write, timeout=TIMEOUT))
                else:
                    outcomes[i] = ("return", await send_message(pipe.read, pipe.write, method, None, timeout=TIMEOUT, message_id=mid))
            except BaseException as e:  # noqa
                if isinstance(e, (KeyboardInterrupt, SystemExit)):
                    raise
                outcomes[i] = ("raise", e)

        async def server():
            await asyncio.sleep(case.get("read_after", 0.05))     # every caller has written by now
            for _ in range(n):
                req = await pipe.srv_recv.receive()
                seen.append(msg_to_wire(req))
            for w in seen:                                         # answered in the order written
                pipe.srv_send.send_nowait(parse_message({"jsonrpc": "2.0", "id": w.get("id"), "result": {"for": w.get("id")}}))
                await asyncio.sleep(0.01)

        st = asyncio.create_task(server(), name="server")
        await asyncio.gather(*[asyncio.create_task(caller(i), name=f"caller-{i}") for i in range(n)])
        st.cancel()
        pipe.close()
        return outcomes, seen

    try:
        (outcomes, seen), _ = run_virtual(main, max_iterations=300_000)
    except HangDetected as e:
        ctx.violation("hang", f"param-less concurrent callers: {e}", case)
        ctx.record(case, shape="hang")
        return
    ctx.count("paramless_calls", n)
    wire_ids = [w.get("id") for w in seen]
    if len(set(map(repr, wire_ids))) != n or (ids == "explicit" and sorted(wire_ids) != sorted(f"p-{i}" for i in range(n))):
        ctx.violation("request_altered_after_hand_over", f"{n} concurrent {method!r} requests without params: the peer, reading "
                      f"after all were written, saw ids {wire_ids!r}"
                      + (f" (callers chose {[f'p-{i}' for i in range(n)]})" if ids == "explicit" else " (not pairwise different)"), case)
    shape = []
    for i in range(n):
        kind, val = outcomes[i]
        if kind == "return":
            if case.get("helper") != "ping" and ids == "explicit" and not (isinstance(val, dict) and val.get("for") == f"p-{i}"):
                ctx.violation("cross_talk", f"param-less caller {i} was handed {val!r}", case)
        else:
            # answers are sent in the order the requests were written, so no waiter has to skip another's answer
            ctx.violation("response_lost_in_transport", f"param-less caller {i} of {n}: every request written was answered, in "
                          f"order, yet it ended with {val!r}; ids on the wire {wire_ids!r}", case)
        shape.append(kind)
    ctx.record(case, shape=shape, nontrivial=True, cls=f"paramless:{method}:{ids}", sample={"case": case, "wire_ids": wire_ids, "outcomes": shape})


def run(ctx):
    for n in (2, 3, 5):
        for method in ("ping", "tools/list"):
            for ids in ("explicit", "auto"):
                case = {"n": n, "method": method, "ids": ids, "via": "paramless"}
                if ctx.mine():
                    exec_paramless_case(ctx, case)
        case = {"n": n, "method": "ping", "ids": "auto", "helper": "ping", "via": "paramless"}
        if ctx.mine():
            exec_paramless_case(ctx, case)
    for n in (2, 3):
        for perm in itertools.permutations(range(n)):
            for conns in (1, 2):
                for ids in ("str", "int"):
                    case = {"n": n, "perm": list(perm), "connections": conns, "ids": ids, "via": "stdio_routed"}
                    if ctx.mine():
                        exec_stdio_routed_case(ctx, case)
    for n in (2, 3, 4):
        for perm in itertools.permutations(range(n)):
            for reg in (None, "up_front"):
                case = {"n": n, "perm": list(perm), "connections": 1, "ids": "type_twins", "via": "stdio_routed"}
                if reg:
                    case["registration"] = reg
                if ctx.mine() and (n < 4 or perm[0] in (1, 3)):
                    exec_stdio_routed_case(ctx, case)
    for n in (2, 3):
        for perm in itertools.permutations(range(n)):
            case = {"n": n, "perm": list(perm), "connections": 1, "ids": "str", "wait": "slices", "via": "stdio_routed"}
            if ctx.mine():
                exec_stdio_routed_case(ctx, case)
    for n in (2, 3):
        case = {"n": n, "perm": list(range(n))[::-1], "connections": 1, "ids": "str", "long_wait": True, "via": "stdio_routed"}
        if ctx.mine():
            exec_stdio_routed_case(ctx, case)
    for payload in ({}, [], 0, "", False, 0.0):
        for n, perm in ((1, [0]), (2, [0, 1]), (3, [2, 0, 1])):
            case = {"n": n, "perm": perm, "connections": 1, "ids": ("str", "int")[n % 2], "payload": payload, "via": "stdio_routed"}
            if ctx.mine():
                exec_stdio_routed_case(ctx, case)
    for n in (1, 3):
        for rounds in (2, 4):
            case = {"n": n, "perm": list(range(n)), "connections": 1, "ids": "str", "rounds": rounds, "via": "stdio_routed"}
            if ctx.mine():
                exec_stdio_routed_case(ctx, case)
    for n in (2, 3, 4):
        for reg in ("up_front", "together"):
            for perm in (list(range(n)), list(range(n))[::-1]):
                case = {"n": n, "perm": perm, "connections": 1, "ids": "str", "registration": reg, "via": "stdio_routed"}
                if ctx.mine():
                    exec_stdio_routed_case(ctx, case)
    for n in (1, 2, 3):
        for conns in (1, 2):
            case = {"n": n, "perm": list(range(n))[::-1], "connections": conns, "ids": "str", "srv_req_same_id": True, "via": "stdio_routed"}
            if ctx.mine():
                exec_stdio_routed_case(ctx, case)
    # long series of requests on the per-request API, each under a fresh id (the general read stream is drained meanwhile:
    # it has to be consumed whatever API is used - a variant that left it unread demanded more than the transport's
    # flow control allows and was withdrawn, see DESIGN.md 4.5)
    for n, rounds in ((1, 130), (3, 45), (2, 101)):
        case = {"n": n, "perm": list(range(n)), "connections": 1, "ids": "str", "rounds": rounds, "fresh_ids": True,
                "via": "stdio_routed"}
        if ctx.mine():
            exec_stdio_routed_case(ctx, case)
    for n in (2, 3, 4):
        for form in ("lines", "batch", "batch_junk_first", "batch_junk_between", "batch_all_junk_first"):
            case = {"n": n, "form": form, "via": "stdio"}
            if ctx.mine():
                exec_stdio_case(ctx, case)
    # a burst of unrelated messages ahead of the answer: one caller only (with several, the unrelated messages put the
    # waiters out of step with the answer order, which is the known demultiplexing finding, not a transport loss)
    case = {"n": 1, "form": "lines_after_burst", "via": "stdio"}
    if ctx.mine():
        exec_stdio_case(ctx, case)
    for case in gen_cases(ctx):
        if not ctx.mine():
            continue
        if ctx.out_of_time():
            break
        exec_case(ctx, case)
    ctx.require_reached("receive_events")


def replay(ctx, case):
    if case.get("via") == "paramless":
        exec_paramless_case(ctx, case)
        return
    if case.get("via") == "stdio_routed":
        exec_stdio_routed_case(ctx, case)
        ctx.record({"x": 1}, shape=1)
        return
    if case.get("via") == "stdio":
        exec_stdio_case(ctx, case)
        ctx.record({"x": 1}, shape=1)
        return
    exec_case(ctx, case)
