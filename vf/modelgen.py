"""Type-directed generation of spec-valid wire objects for every protocol model class.

Runs in the main process (Pydantic backend, so field metadata is available); the resulting
cases are plain data (class path + wire dict) shipped to one worker process per backend."""
from __future__ import annotations

import importlib
import inspect
import itertools
import pkgutil
import random
import typing
from typing import Any, Dict, List, Optional, Tuple

STR_POOL = ["x", "", "123", "007", "-5", "true", "h\u00e9 \U0001f600", "a\nb\u2028c", "file:///tmp/a b", "1.5", " padded ", "\ttab\n"]
INT_POOL = [0, 1, -1, 5, 2**53 + 1]
FLOAT_POOL = [0.5, 0.0, 1, 0, 1e308, -2.5]
ANY_POOL = [None, True, 0, 1.5, "s", [], {}, [1, None, {"a": None}], {"k": None, "n": {"m": [1.0, 2]}}, "123", 2**63]
DICT_ANY_POOL = [{}, {"k": None}, {"type": "object", "properties": {"a": {"type": "string", "default": None}}, "required": ["a"]},
                 {"n": 1, "f": 1.0, "b": True, "s": "123", "l": [None, 1], "d": {"x": None}}, {"_meta": {"progressToken": 7}}]


# names of the model base class's own API: an extra member of that name is stored as an instance attribute by the
# fallback backend and shadows the method (known finding)
API_NAMES = {"model_dump", "model_dump_json", "model_validate", "model_fields", "model_config", "json", "dict", "copy"}
SPEC_RANGES = {"priority": (0, 1), "costPriority": (0, 1), "speedPriority": (0, 1), "intelligencePriority": (0, 1)}
SPEC_WIRE_NAMES = {"meta": "_meta", "schema_": "schema"}


def discover_models(include_transports: bool = False) -> Dict[str, type]:
    import chuk_mcp
    from chuk_mcp.protocol.mcp_pydantic_base import McpPydanticBase
    found: Dict[str, type] = {}
    for mi in pkgutil.walk_packages(chuk_mcp.__path__, "chuk_mcp."):
        if mi.name.endswith("__main__"):
            continue
        if not include_transports and ".transports." in mi.name:
            continue
        try:
            m = importlib.import_module(mi.name)
        except Exception:
            continue
        for n, c in vars(m).items():
            if inspect.isclass(c) and issubclass(c, McpPydanticBase) and c is not McpPydanticBase \
                    and c.__module__ == m.__name__:
                found[f"{c.__module__}:{n}"] = c
    return found


def _hints(cls) -> Dict[str, Any]:
    try:
        return typing.get_type_hints(cls)
    except Exception:
        return dict(getattr(cls, "__annotations__", {}))


class Gen:
    def __init__(self, rng: random.Random):
        self.rng = rng
        self._depth = 0

    # -- values for an annotation; `k` asks for the k-th variant (deterministic coverage) -----
    def values(self, ann: Any, name: str = "") -> List[Any]:
        """A small list of valid wire values for the annotation (first = most canonical)."""
        from chuk_mcp.protocol.mcp_pydantic_base import McpPydanticBase
        origin = typing.get_origin(ann)
        args = typing.get_args(ann)
        if ann is typing.Any:
            return list(ANY_POOL)
        if ann is str:
            if name in ("uri", "uriTemplate"):
                return ["file:///tmp/x", "file:///a b/é", "file://"]
            if name == "role":
                return ["user", "assistant"]
            return list(STR_POOL)
        if ann is int:
            return list(INT_POOL)
        if ann is float:
            return list(FLOAT_POOL)
        if ann is bool:
            return [True, False]
        if ann is dict:
            return [{"type": "text", "text": "x"}, {}, {"k": None}]
        if ann is list:
            return [[], [1, None]]
        if origin is typing.Literal:
            return list(args)
        if origin is typing.Union:
            out: List[Any] = []
            for a in args:
                if a is type(None):
                    continue
                vs = self.values(a, name)
                out += vs[:3] if len(args) > 2 else vs
            return out
        if origin in (list, typing.List):
            (a,) = args or (typing.Any,)
            vs = self.values(a, name)
            if name == "values":
                return [[], ["a"], ["a", "123", ""], [str(i) for i in range(100)]]
            out = [[], [vs[0]]]
            if len(vs) > 1:
                out.append([vs[0], vs[-1]])
                out.append(list(vs[:4]))
            return out
        if origin in (dict, typing.Dict):
            kt, vt = args if len(args) == 2 else (str, typing.Any)
            if vt is typing.Any:
                return [dict(d) for d in DICT_ANY_POOL]
            vs = self.values(vt, name)
            return [{}, {"k": vs[0]}, {"a": vs[0], "hé": vs[-1]}]
        if inspect.isclass(ann) and issubclass(ann, McpPydanticBase):
            if self._depth > 3:
                return [self.minimal(ann)]
            self._depth += 1
            try:
                return [self.minimal(ann), self.full(ann), self.falsy(ann)]
            finally:
                self._depth -= 1
        if isinstance(ann, typing.ForwardRef):
            return [{}]
        return [None]

    def constrained(self, f, vs: List[Any]) -> List[Any]:
        """Keep only values allowed by the field's numeric/length constraints (ge/le/gt/lt/min_length...)."""
        out = vs
        for m in getattr(f, "metadata", []) or []:
            for attr, ok in (("ge", lambda v, b: v >= b), ("gt", lambda v, b: v > b),
                             ("le", lambda v, b: v <= b), ("lt", lambda v, b: v < b)):
                b = getattr(m, attr, None)
                if b is not None:
                    out = [v for v in out if not isinstance(v, (int, float)) or isinstance(v, bool) or ok(v, b)]
            mx = getattr(m, "max_length", None)
            if mx is not None:
                out = [v for v in out if not hasattr(v, "__len__") or len(v) <= mx]
            mn = getattr(m, "min_length", None)
            if mn is not None:
                out = [v for v in out if not hasattr(v, "__len__") or len(v) >= mn]
        return out or vs[:1]

    def field_values(self, cls, attr: str, ann: Any) -> List[Any]:
        f = cls.model_fields.get(attr)
        if attr in SPEC_RANGES:
            # the valid domain of these members is pinned from the MCP schema (inclusive bounds), not read from
            # the declaration under test: a tightened or loosened bound must show up as a behaviour difference
            lo, hi = SPEC_RANGES[attr]
            return [lo, float(lo), (lo + hi) / 2, hi, float(hi), lo + (hi - lo) / 4]
        vs = self.values(ann, attr)
        if f is not None and getattr(f, "metadata", None):
            vs = self.constrained(f, vs + [0, 0.5, 1])
        return vs

    def fields(self, cls) -> List[Tuple[str, str, Any, bool]]:
        """[(attr, wire name, annotation, required)].  The wire name of the MCP members that are not valid
        Python attribute names is pinned here (spec), not read from the declaration."""
        hints = _hints(cls)
        out = []
        for attr, f in cls.model_fields.items():
            wire = SPEC_WIRE_NAMES.get(attr) or f.alias or attr
            out.append((attr, wire, hints.get(attr, f.annotation), f.is_required()))
        return out

    def falsy(self, cls) -> Dict[str, Any]:
        """The minimal object with every required member set to the empty / zero value of its type where that is a valid
        value (an empty text, an empty list, 0): present, but falsy."""
        obj = self.minimal(cls)
        for attr, wire, ann, req in self.fields(cls):
            if not req or typing.get_origin(ann) is typing.Literal or attr in SPEC_RANGES:
                continue
            if attr in ("uri", "uriTemplate", "role"):
                continue
            empties = [v for v in self.field_values(cls, attr, ann) if v in ("", 0, 0.0, [], {}) and v is not False and v is not None]
            if empties:
                obj[wire] = empties[0]
        return obj

    def minimal(self, cls) -> Dict[str, Any]:
        obj = {}
        for attr, wire, ann, req in self.fields(cls):
            if req:
                obj[wire] = self.field_values(cls, attr, ann)[0]
            elif typing.get_origin(ann) is typing.Literal:
                obj[wire] = typing.get_args(ann)[0]   # discriminators travel on the wire
        return obj

    def full(self, cls) -> Dict[str, Any]:
        obj = {}
        for attr, wire, ann, req in self.fields(cls):
            vs = self.field_values(cls, attr, ann)
            obj[wire] = vs[-1] if len(vs) > 1 else vs[0]
            if obj[wire] is None and not req:
                del obj[wire]
        return obj

    def random_obj(self, cls, depth: int = 0) -> Dict[str, Any]:
        from chuk_mcp.protocol.mcp_pydantic_base import McpPydanticBase
        o: Dict[str, Any] = {}
        for attr, wire, ann, req in self.fields(cls):
            is_disc = typing.get_origin(ann) is typing.Literal
            if not (req or is_disc or self.rng.random() < 0.5):
                continue
            vs = [v for v in self.field_values(cls, attr, ann) if v is not None or ann is typing.Any]
            if not vs:
                continue
            v = self.rng.choice(vs)
            sub = [a for a in ([ann] + list(typing.get_args(ann))) if inspect.isclass(a) and issubclass(a, McpPydanticBase)]
            if sub and isinstance(v, dict) and depth < 3 and self.rng.random() < 0.6:
                v = self.random_obj(self.rng.choice(sub), depth + 1)
            o[wire] = v
        if self.rng.random() < 0.2:
            o.setdefault("x-random-extra", self.rng.choice([None, 1, "s", {"k": [None]}]))
        return o

    def cases_for(self, cls, budget: int, exhaustive_optionals: bool) -> List[Dict[str, Any]]:
        fs = self.fields(cls)
        required = [f for f in fs if f[3] or typing.get_origin(f[2]) is typing.Literal]
        optional = [f for f in fs if f not in required]
        out: List[Dict[str, Any]] = []
        seen = set()

        def add(o):
            key = repr(o)
            if key not in seen:
                seen.add(key)
                out.append(o)

        add(self.minimal(cls))
        add(self.full(cls))
        # every value of every field on top of the minimal object
        for attr, wire, ann, req in fs:
            for v in self.field_values(cls, attr, ann):
                if v is None and ann is not typing.Any:
                    continue
                o = self.minimal(cls)
                o[wire] = v
                add(o)
        # an explicit null for every member whose declared type admits it (a peer may send "x": null instead of
        # leaving x out): it must stay a null, not turn into the field's default
        nullable = [f for f in fs if type(None) in typing.get_args(f[2])]
        for attr, wire, ann, req in nullable:
            o = self.minimal(cls)
            o[wire] = None
            add(o)
        if len(nullable) > 1:
            o = self.minimal(cls)
            for attr, wire, ann, req in nullable:
                o[wire] = None
            add(o)
        # subsets of optionals
        if optional:
            if exhaustive_optionals and len(optional) <= 8:
                subsets = itertools.chain.from_iterable(itertools.combinations(optional, r) for r in range(len(optional) + 1))
            else:
                subsets = [tuple(f for f in optional if self.rng.random() < 0.5) for _ in range(min(budget, 40))]
            for sub in subsets:
                o = self.minimal(cls)
                for attr, wire, ann, req in sub:
                    vs = [v for v in self.field_values(cls, attr, ann) if v is not None]
                    if vs:
                        o[wire] = self.rng.choice(vs)
                add(o)
        # extras (extra="allow"): unknown members of every JSON type
        for extra in ({"x-extra": 1}, {"unknownMember": {"deep": [None, "v"]}, "z": None}, {"_meta": {"a": 1}}, {"extra_str": "123"},
                      # unknown members whose names collide with the implementation's own vocabulary
                      {"__typename": "T"}, {"self": 1, "cls": 2}, {"__proto__": {"x": 1}, "__init__": 1, "__class__": "c", "__mcp_self__": 0}, {"model_dump": "x", "model_fields": [1]}, {"json": {}, "dict": []},
                      {"meta": {"py": "name"}}, {"schema_": {"py": "name"}}):
            o = self.full(cls)
            for k, v in extra.items():
                if k not in o and k not in {f[1] for f in fs} and k not in {f[0] for f in fs}:
                    o[k] = v
            add(o)
        # an unknown member spelled like the *Python* name of an aliased field ("meta" next to / instead of "_meta"):
        # on the wire that is just another unknown member
        for attr, wire, ann, req in fs:
            if wire == attr:
                continue
            o = self.full(cls)
            if wire in o:
                both = dict(o)
                both[attr] = {"py": "name"} if isinstance(o[wire], dict) else "py-name"
                add(both)
                if not req:
                    only = {k: v for k, v in both.items() if k != wire}
                    add(only)
        # thorough: seeded objects choosing a random value for every required field and for a random half of the
        # optional ones (value interactions between fields, nested models filled in at random as well)
        if exhaustive_optionals:
            for _ in range(budget):
                add(self.random_obj(cls))
            budget = budget * 3
        if len(out) > budget:
            head = out[:min(len(out), budget // 2)]
            rest = out[len(head):]
            self.rng.shuffle(rest)
            out = head + rest[:budget - len(head)]
        return out


def build_cases(rng: random.Random, tier: str) -> Tuple[List[Dict[str, Any]], Dict[str, int]]:
    models = discover_models()
    g = Gen(rng)
    cases: List[Dict[str, Any]] = []
    per_class: Dict[str, int] = {}
    budget = 40 if tier == "quick" else 2000
    for path, cls in sorted(models.items()):
        try:
            objs = g.cases_for(cls, budget, exhaustive_optionals=(tier == "thorough"))
        except Exception as e:  # noqa
            per_class[path] = -1
            continue
        per_class[path] = len(objs)
        for o in objs:
            cases.append({"kind": "model", "cls": path, "wire": o})
    return cases, per_class


def envelope_cases() -> List[Dict[str, Any]]:
    from vf.gen import ALL_IDS
    out = []
    params = [None, {}, {"a": None, "b": [1, None], "s": "123"}]
    for mid in ALL_IDS:
        for p in params:
            req = {"jsonrpc": "2.0", "id": mid, "method": "tools/call"}
            note = {"jsonrpc": "2.0", "method": "notifications/x"}
            if p is not None:
                req["params"] = p
                note["params"] = p
            out.append({"kind": "envelope", "wire": req, "expect": "request"})
            out.append({"kind": "envelope", "wire": note, "expect": "notification"})
        for res in ({}, {"v": None, "s": "123"}, [1, "2"], "str", 5, None, True,
                    # values a lenient "mapping" coercion would turn into an object, falsy values, nested emptiness
                    [], [["uri", "file:///a"], ["name", "a"]], ["ok", "no"], [[1, 2]], "", 0, False, 0.0, [[]], [{}], {"": {}}):
            out.append({"kind": "envelope", "wire": {"jsonrpc": "2.0", "id": mid, "result": res}, "expect": "response"})
        out.append({"kind": "envelope", "wire": {"jsonrpc": "2.0", "id": mid, "error": {"code": -32000, "message": "m"}},
                    "expect": "error"})
        out.append({"kind": "envelope", "wire": {"jsonrpc": "2.0", "id": mid,
                                                 "error": {"code": -32000, "message": "m", "data": {"d": None}}},
                    "expect": "error"})
    # ids written as integral floats (1.0 is a legal JSON number): whatever a backend makes of them, both must make the
    # same of them (no claim on the JSON type here, hence a separate flag)
    for mid in (1.0, 7.0, -3.0, 0.0, 2.0 ** 53):
        out.append({"kind": "envelope", "wire": {"jsonrpc": "2.0", "id": mid, "method": "tools/call", "params": {"a": 1}},
                    "expect": "request", "float_id": True})
        out.append({"kind": "envelope", "wire": {"jsonrpc": "2.0", "id": mid, "result": {"v": 1}}, "expect": "response", "float_id": True})
        out.append({"kind": "envelope", "wire": {"jsonrpc": "2.0", "id": mid, "error": {"code": -32000, "message": "m"}},
                    "expect": "error", "float_id": True})
    return out


def invariant_cases() -> List[Dict[str, Any]]:
    """Documented model invariants with inputs on both sides of each."""
    roots = "chuk_mcp.protocol.messages.roots.send_messages:Root"
    comp = "chuk_mcp.protocol.messages.completions.send_messages:CompletionResult"
    mp = "chuk_mcp.protocol.messages.sampling.send_messages:ModelPreferences"
    ann = "chuk_mcp.protocol.types.content:Annotations"
    ranges = []
    for cls, names in ((mp, ("costPriority", "speedPriority", "intelligencePriority")), (ann, ("priority",))):
        for nm in names:
            for v, valid in ((0, True), (0.0, True), (1, True), (1.0, True), (0.5, True), (5e-324, True),
                             (-0.0, True), (-1e-9, False), (1.0000001, False), (-1, False), (2, False)):
                ranges.append({"kind": "invariant", "cls": cls, "wire": {nm: v}, "valid": valid})
    return ranges + [
        {"kind": "invariant", "cls": roots, "wire": {"uri": "file:///ok"}, "valid": True},
        {"kind": "invariant", "cls": roots, "wire": {"uri": "https://example.com/x"}, "valid": False},
        {"kind": "invariant", "cls": roots, "wire": {"uri": "/plain/path", "name": "n"}, "valid": False},
        {"kind": "invariant", "cls": roots, "wire": {"uri": ""}, "valid": False},
        {"kind": "invariant", "cls": comp, "wire": {"values": [str(i) for i in range(100)]}, "valid": True},
        {"kind": "invariant", "cls": comp, "wire": {"values": [str(i) for i in range(101)]}, "valid": False},
        {"kind": "invariant", "cls": comp, "wire": {"values": [str(i) for i in range(500)], "hasMore": True}, "valid": False},
    ]
