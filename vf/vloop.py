"""Virtual-time asyncio event loop.

`VirtualLoop` is a SelectorEventLoop whose clock is virtual: when no callback
is ready the selector does not sleep, the clock jumps to the next timer.
anyio's asyncio backend takes deadlines from loop.time()/call_at, so
anyio.fail_after, asyncio.wait_for, asyncio.sleep and memory streams all run
in virtual time.

Soundness notes
* The FIFO ready queue is never reordered (cooperative code cannot observe
  another order).  The only freedom the real loop has that we expose is the
  order of timers with *equal* deadlines, through `tie_seed`.
* `at_iteration(k, fn)` runs fn at the start of loop iteration k: each loop
  iteration is a point where the real loop could deliver an external event
  (cancellation).
* Deadlock guard: nothing ready, no timers, no fds => the run is stopped and
  reported as a hang (`loop.hung = True`).
"""
from __future__ import annotations

import asyncio
import heapq
import random
import selectors
from typing import Any, Callable, Dict, List, Optional


class _NoSleepSelector(selectors.DefaultSelector):
    """Selector that never blocks; the loop advances the virtual clock instead."""

    def __init__(self, loop_ref):
        super().__init__()
        self._loop_ref = loop_ref

    def select(self, timeout=None):
        loop = self._loop_ref()
        # poll real fds without blocking (self-pipe etc.)
        events = super().select(0)
        if events:
            return events
        if loop is not None:
            loop._on_idle(timeout)
        return []


class HangDetected(Exception):
    pass


# accumulated across every run_virtual() of this process: what loop exception handlers were told
LOOP_EVENTS: List[str] = []


class VirtualLoop(asyncio.SelectorEventLoop):
    def __init__(self, tie_seed: Optional[int] = None, max_iterations: int = 2_000_000):
        import weakref

        sel = _NoSleepSelector(weakref.ref(self))
        super().__init__(sel)
        self._vtime = 0.0
        self._iterations = 0
        self._iter_hooks: Dict[int, List[Callable[[], None]]] = {}
        self._max_iterations = max_iterations
        self.hung = False
        self.hang_reason = ""
        self._tie_rng = random.Random(tie_seed) if tie_seed is not None else None
        self._main_task: Optional[asyncio.Task] = None
        self.idle_jumps = 0
        # secondary monitor: everything the loop's exception handler is told about ("Task exception was
        # never retrieved", "Task was destroyed but it is pending", exceptions in callbacks, ...)
        self.exc_events: List[str] = []
        self.set_exception_handler(self._record_exc)

    def _record_exc(self, loop, context):
        msg = context.get("message", "")
        exc = context.get("exception")
        ev = f"{msg}: {exc!r}"[:300]
        self.exc_events.append(ev)
        LOOP_EVENTS.append(ev)   # process-wide: also receives what is only reported when a task is collected

    # --- clock -----------------------------------------------------------
    def time(self) -> float:
        return self._vtime

    # --- worker threads ---------------------------------------------------
    def run_in_executor(self, executor, func, *args):
        """Work handed to a thread (asyncio.to_thread, getaddrinfo ...) runs in real time: while any of it is pending the
        loop neither declares a hang nor jumps the virtual clock past it - it waits (really) for the thread."""
        fut = super().run_in_executor(executor, func, *args)
        self._executor_jobs = getattr(self, "_executor_jobs", 0) + 1

        def _done(_f):
            self._executor_jobs -= 1
        fut.add_done_callback(_done)
        return fut

    async def shutdown_default_executor(self, *a, **kw):
        # (the executor is joined from a helper thread: the same kind of real-time wait)
        self._executor_jobs = getattr(self, "_executor_jobs", 0) + 1
        try:
            return await super().shutdown_default_executor(*a, **kw)
        finally:
            self._executor_jobs -= 1

    def _on_idle(self, timeout):
        """Called by the selector when no fd is ready."""
        if getattr(self, "_executor_jobs", 0) > 0:
            import time as _time
            _time.sleep(0.0005)      # a thread is working: its completion arrives through the self-pipe
            return
        if timeout is None:
            # nothing scheduled, nothing ready: the program can never progress
            self.hung = True
            self.hang_reason = "no ready callbacks, no timers"
            if self._main_task is not None and not self._main_task.done():
                self._main_task.cancel("virtual loop: hang detected")
            else:
                self.stop()
            return
        if timeout > 0:
            self.idle_jumps += 1
            # jump to the next timer (asyncio computed timeout = when - now)
            if self._scheduled:
                nxt = self._scheduled[0]._when
                if nxt > self._vtime:
                    self._vtime = nxt
            else:
                self._vtime += timeout

    # --- iteration hooks -------------------------------------------------
    @property
    def iterations(self) -> int:
        return self._iterations

    def at_iteration(self, k: int, fn: Callable[[], None]) -> None:
        self._iter_hooks.setdefault(k, []).append(fn)

    def _run_once(self):
        self._iterations += 1
        hooks = self._iter_hooks.pop(self._iterations, None)
        if hooks:
            for fn in hooks:
                fn()
        if self._iterations > self._max_iterations:
            self.hung = True
            self.hang_reason = "iteration cap"
            if self._main_task is not None and not self._main_task.done():
                self._main_task.cancel("virtual loop: iteration cap")
        if self._tie_rng is not None and len(self._scheduled) > 1:
            self._shuffle_equal_timers()
        super()._run_once()

    def _shuffle_equal_timers(self):
        # permute timers with equal deadlines (no ordering guarantee there)
        sched = self._scheduled
        first = sched[0]._when
        tie = sched[1]._when == first or (len(sched) > 2 and sched[2]._when == first)
        if tie:
            # heapq compares TimerHandle by _when only; re-heapify after a
            # seeded shuffle keeps the heap property and changes tie order.
            self._tie_rng.shuffle(sched)
            heapq.heapify(sched)


def run_virtual(
    coro_fn: Callable[..., Any],
    *args,
    tie_seed: Optional[int] = None,
    debug: bool = False,
    hooks: Optional[Dict[int, Callable[[], None]]] = None,
    max_iterations: int = 2_000_000,
):
    """Run `coro_fn(*args)` to completion on a fresh VirtualLoop.

    Returns (result, loop).  Exceptions propagate.  If the loop detected a hang
    HangDetected is raised (the main task is cancelled first so cleanup runs).
    """
    loop_box: List[VirtualLoop] = []

    def factory():
        lp = VirtualLoop(tie_seed=tie_seed, max_iterations=max_iterations)
        loop_box.append(lp)
        return lp

    with asyncio.Runner(loop_factory=factory, debug=debug) as runner:
        loop = runner.get_loop()
        assert isinstance(loop, VirtualLoop)
        if hooks:
            for k, fn in hooks.items():
                loop.at_iteration(k, fn)

        async def main():
            loop._main_task = asyncio.current_task()
            return await coro_fn(*args)

        try:
            res = runner.run(main())
        except asyncio.CancelledError:
            if loop.hung:
                raise HangDetected(loop.hang_reason)
            raise
        if loop.hung:
            raise HangDetected(loop.hang_reason)
        return res, loop


async def vsleep_until(t: float) -> None:
    loop = asyncio.get_running_loop()
    now = loop.time()
    if t > now:
        await asyncio.sleep(t - now)
