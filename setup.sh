#!/bin/bash
# Offline setup: install the contract libraries beside the repo's interpreter (git-ignored .deps).
HERE="$(cd "$(dirname "$0")" && pwd)"
cd "$HERE" || exit 1
if [ ! -d .deps/icontract ]; then
  /venv/bin/pip install --quiet --no-index --find-links /opt/veriftools/wheels --target .deps icontract deal >/dev/null 2>&1 \
    || echo "setup: icontract/deal not installed (contract-based secondary monitors will be skipped)"
fi
/venv/bin/python -B -c "import sys; sys.path.insert(0,'$HERE'); sys.path.insert(0,'/repo/src'); import vf.core, chuk_mcp; print('setup ok')"
